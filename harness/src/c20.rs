//! C20 — the language server tracks documents and formats them faithfully.
//!
//! Drives the real `LanguageServer` (crates/lsp) through `on_notification` and the
//! `cfg(sqruff_verif)` request wrapper with histories (exhaustive over a small alphabet, seeded
//! random longer ones), records the events of every operation, and
//!  * observes the property directly (own uri -> text map, fresh linter per configuration,
//!    own LSP edit application in UTF-16 units),
//!  * emits `hist` records (compact ids) that bin/propcfg/c20.py turns into Coq cases for the
//!    `Lsp` model with the lint/fix tables filled by the real linter,
//!  * emits standard correspondence cases for the `format` and `docend` kernels.
//! The texts include a *violation-kind family* (see `TEXTS`): lint results with violations that come
//! from no rule (malformed `noqa` directives, texts the parser rejects), alone and mixed with rule
//! violations, masked or not, and a text with more than 100 violations — the published list must be
//! the complete lint result, whatever produced each violation.
//! `load_config()` reads the working directory, so histories run in worker *processes*, each in
//! its own directory under `<verif>/.cache/c20-work/`, whose `.sqruff` is rewritten by `WriteDisk`.
use std::cell::RefCell;
use std::collections::{BTreeMap, HashMap, HashSet};
use std::io::Write as _;
use std::path::PathBuf;
use std::rc::Rc;

use lsp_types::{DiagnosticSeverity, NumberOrString, PublishDiagnosticsParams, TextEdit};
use serde_json::{Value, json};
use sqruff_lib::core::config::FluffConfig;
use sqruff_lib::core::linter::core::Linter;
use sqruff_lsp::LanguageServer;

use crate::common::*;

const DOC_URIS: [&str; 3] = ["file:///w/a.sql", "file:///w/b.sql", "file:///w/dir/c%20d.sql"];
const SAVE_NAMES: [&str; 6] = [
    "file:///w/.sqruff",
    "file:///w/.sqlfluff",
    "file:///w/a.sql",
    "file:///w/.sqruff.bak",
    "file:///w/sub/.sqruff",
    "file:///w/sqruff",
];
/// Configuration files (contents of `<cwd>/.sqruff`). 0..3 are used by the exhaustive histories.
const CONFIGS: [&str; 5] = [
    "[sqruff]\ndialect = ansi\n",
    "[sqruff]\ndialect = ansi\nrules = CP01,LT01,LT11\n",
    "[sqruff]\ndialect = ansi\nexclude_rules = LT09,LT12\n\n[sqruff:rules:capitalisation.keywords]\ncapitalisation_policy = lower\n",
    "[sqruff]\ndialect = bigquery\nrules = core\n\n[sqruff:indentation]\ntab_space_size = 2\n",
    "[sqruff]\ndialect = ansi\ntemplater = placeholder\n\n[sqruff:templater:placeholder]\nparam_style = colon\nx = 7\n",
];
/// Base texts. 0..4 are used by the exhaustive histories: clean, fix shorter in lines, fix longer in
/// lines, fix of equal line count.
const BASE_TEXTS: [&str; 15] = [
    "SELECT a FROM t\n",
    "SELECT a FROM t\n\n\n\n",
    "SELECT a FROM t UNION SELECT b FROM u\n",
    "SeLeCt  a from t\n",
    "",
    "select 1",
    "SELECT a\r\nFROM t\r\n\r\n\r\n",
    "SELECT 'h\u{e9}llo \u{1F600}'  AS x FROM t\n\n\n",
    "SELECT a FROM t WHERE\n",
    "\n\n\nSELECT a FROM t\n",
    "SELECT a,b,c FROM t JOIN u ON t.id=u.id WHERE a in (1,2) AND b = :x\n\n",
    "SELECT\n    a,\n    b\nFROM t\n",
    "select a from t -- noqa\n\n\n",
    "SELECT a FROM t;\n\nSELECT b FROM u;\n\n\n",
    "SELECT aaaaaaaaaaaaaaaaaaaa, bbbbbbbbbbbbbbbbbbbb, cccccccccccccccccccc, dddddddddddddddddddd FROM some_table_name\n",
];

/// Comment directives for the violation-kind family: well-formed and malformed `noqa` forms (line /
/// range, enable / disable, empty rule lists, block comments, a directive after another comment).
/// The malformed ones make `IgnoreMask::from_tree` report violations that come from no rule
/// (`rule: None`): the published diagnostics must contain them too, with no `code`.
const DIRECTIVES: [&str; 14] = [
    "-- noqa",
    "-- noqa:",
    "-- noqa: LT01,CP01",
    "-- noqa: disable=",
    "-- noqa: enable=",
    "-- noqa: disable=all",
    "-- noqa: enable=all",
    "-- noqa: disable=CP01",
    "-- noqa?",
    "--noqa:,",
    "--noqa:disable= ,",
    "/* noqa: */",
    "/* noqa: disable= */",
    "-- x -- noqa:",
];
/// Index of the first text of the violation-kind family.
const KIND0: usize = BASE_TEXTS.len();
/// All texts: the base texts, then the violation-kind family —
///  * every directive inline after a statement that has rule violations, and on a line of its own
///    before that statement (the lint result mixes rule-less and rule violations, masked or not);
///  * several malformed directives in one text, interleaved with rule violations;
///  * texts the parser rejects as a whole (`Parser::parse` returns `Err`: a rule-less violation and no tree);
///  * a long text (many violations, several at one position).
static TEXTS: std::sync::LazyLock<Vec<&'static str>> = std::sync::LazyLock::new(|| {
    let mut v: Vec<&'static str> = BASE_TEXTS.to_vec();
    let mut add = |s: String| v.push(Box::leak(s.into_boxed_str()));
    for d in DIRECTIVES {
        add(format!("SeLeCt  a from t {}\n", d));
        add(format!("{}\nSeLeCt  a from t\n\n\n", d));
    }
    add("-- noqa:\nSeLeCt  a from t -- noqa: enable=\nselect b from u  -- noqa: disable=\n\nselect c from v\n".to_string());
    add("SELECT a FROM t -- noqa: disable=all\nSeLeCt  b from u -- noqa:\n-- noqa: enable=all\nSeLeCt  c from v -- noqa: enable=\n".to_string());
    add("SELECT (a FROM t\n".to_string());
    add("SELECT a FROM t)\n\n\n".to_string());
    add("SeLeCt  a from (select b from u -- noqa:\n".to_string());
    add((0..40).map(|i| format!("SeLeCt  a{},b from t{} where x  = 1;\n", i, i % 3)).collect::<String>() + "-- noqa:\n\n");
    v
});

#[derive(Clone, Copy, Debug, PartialEq, Eq, Hash)]
enum Op {
    Open(usize, usize),
    Change(usize, usize),
    Close(usize),
    WriteDisk(usize),
    Save(usize),
    Format(usize),
    Other,
}
impl Op {
    fn triple(&self) -> [usize; 3] {
        match *self {
            Op::Open(u, t) => [0, u, t],
            Op::Change(u, t) => [1, u, t],
            Op::Close(u) => [2, u, 0],
            Op::WriteDisk(c) => [3, c, 0],
            Op::Save(k) => [4, k, 0],
            Op::Format(u) => [5, u, 0],
            Op::Other => [6, 0, 0],
        }
    }
    fn from_triple(x: &[usize]) -> Op {
        match x[0] {
            0 => Op::Open(x[1], x[2]),
            1 => Op::Change(x[1], x[2]),
            2 => Op::Close(x[1]),
            3 => Op::WriteDisk(x[1]),
            4 => Op::Save(x[1]),
            5 => Op::Format(x[1]),
            _ => Op::Other,
        }
    }
}

type DiagT = (u32, u32, Option<String>, String);
type EditT = (u32, u32, u32, u32, String);

#[derive(Clone, Debug, PartialEq)]
enum Ev {
    Publish(usize, u64),
    Edits(u64),
    Crash,
}
impl Ev {
    fn triple(&self) -> [u64; 3] {
        match self {
            Ev::Publish(u, id) => [0, *u as u64, *id],
            Ev::Edits(id) => [1, *id, 0],
            Ev::Crash => [2, 0, 0],
        }
    }
}

fn fnv(s: &str) -> u64 {
    let mut h: u64 = 0xcbf29ce484222325;
    for b in s.as_bytes() {
        h ^= *b as u64;
        h = h.wrapping_mul(0x100000001b3);
    }
    h & ((1u64 << 50) - 1)
}
fn g_utf16(s: &str) -> String {
    g_list(s.encode_utf16().map(|u| u.to_string()))
}
fn g_diags(ds: &[DiagT]) -> String {
    g_list(ds.iter().map(|(l, c, code, msg)| g_tuple(&[l.to_string(), c.to_string(), g_opt(code.as_ref().map(|c| g_str(c))), g_str(msg)])))
}
fn g_edits(es: &[EditT]) -> String {
    g_list(es.iter().map(|(a, b, c, d, n)| g_tuple(&[a.to_string(), b.to_string(), c.to_string(), d.to_string(), g_utf16(n)])))
}

/// Values seen in events, interned by content hash (the same in every worker process).
#[derive(Default)]
struct Intern {
    diags: HashMap<u64, Vec<DiagT>>,
    edits: HashMap<u64, Vec<EditT>>,
    fresh: Vec<Value>,
}
impl Intern {
    fn diag_id(&mut self, ds: &[DiagT]) -> u64 {
        let id = fnv(&format!("d{:?}", ds));
        if !self.diags.contains_key(&id) {
            self.diags.insert(id, ds.to_vec());
            self.fresh.push(json!({"t":"val","kind":"d","id":id,"g":g_diags(ds),"j":ds}));
        }
        id
    }
    fn edit_id(&mut self, es: &[EditT]) -> u64 {
        let id = fnv(&format!("e{:?}", es));
        if !self.edits.contains_key(&id) {
            self.edits.insert(id, es.to_vec());
            self.fresh.push(json!({"t":"val","kind":"e","id":id,"g":g_edits(es),"j":es}));
        }
        id
    }
}

// ------------------------------------------------------------------ LSP text edits, per the specification
/// Offset (UTF-16 units) of a position: a character past the end of the line clamps to the line
/// end (before its terminator), a line past the last line clamps to the end of the document.
fn offset_of(t: &[u16], line: u32, ch: u32) -> usize {
    let (mut i, mut l) = (0usize, 0u32);
    while l < line {
        // skip one line including its terminator
        loop {
            if i >= t.len() {
                return t.len();
            }
            let c = t[i];
            i += 1;
            if c == 10 {
                break;
            }
            if c == 13 {
                if i < t.len() && t[i] == 10 {
                    i += 1;
                }
                break;
            }
        }
        l += 1;
    }
    let mut k = 0u32;
    while k < ch && i < t.len() && t[i] != 10 && t[i] != 13 {
        i += 1;
        k += 1;
    }
    i
}
fn apply_edits(text: &str, edits: &[EditT]) -> Option<String> {
    let t: Vec<u16> = text.encode_utf16().collect();
    match edits {
        [] => Some(text.to_string()),
        [(sl, sc, el, ec, new)] => {
            let s = offset_of(&t, *sl, *sc);
            let e = offset_of(&t, *el, *ec);
            if s > e {
                return None;
            }
            let mut r: Vec<u16> = t[..s].to_vec();
            r.extend(new.encode_utf16());
            r.extend_from_slice(&t[e..]);
            String::from_utf16(&r).ok()
        }
        _ => None,
    }
}

// ------------------------------------------------------------------ working directory, fresh-linter oracle
fn cache_dir() -> PathBuf {
    if let Ok(t) = std::env::var("CARGO_TARGET_DIR") {
        if let Some(p) = PathBuf::from(t).parent() {
            return p.to_path_buf();
        }
    }
    let exe = std::env::current_exe().unwrap();
    exe.ancestors().nth(3).map(|p| p.to_path_buf()).unwrap_or_else(std::env::temp_dir)
}
fn enter_workdir(tag: &str) -> PathBuf {
    let d = cache_dir().join("c20-work").join(tag);
    let _ = std::fs::remove_dir_all(&d);
    std::fs::create_dir_all(&d).unwrap();
    std::env::set_current_dir(&d).unwrap();
    d
}
fn write_disk(c: usize) {
    let _ = std::fs::remove_file(".sqlfluff");
    std::fs::write(".sqruff", CONFIGS[c]).unwrap();
}

struct Entry {
    viols: Vec<(usize, usize, Option<String>, String)>,
    diags: Vec<DiagT>,
    fixed: String,
    lint_panic: bool,
}
/// lint/fix of every (configuration, text) by a *fresh* linter built from the configuration file,
/// exactly as a new server (or the CLI) in that directory would.
fn build_table(configs: &[usize], texts: &[usize]) -> BTreeMap<(usize, usize), Entry> {
    let mut tab = BTreeMap::new();
    for &c in configs {
        write_disk(c);
        let cfg = FluffConfig::from_root(None, false, None).unwrap_or_default();
        let linter = Linter::new(cfg, None, None, false);
        for &t in texts {
            let r = catch(|| {
                let res = linter.lint_string(TEXTS[t], None, false);
                let viols: Vec<_> = res.violations.iter().map(|v| (v.line_no, v.line_pos, v.rule.as_ref().map(|r| r.code.to_string()), v.description.clone())).collect();
                let fixed = linter.lint_string(TEXTS[t], None, true).fix_string();
                (viols, fixed)
            });
            let e = match r {
                Ok((viols, fixed)) => {
                    let diags = viols.iter().map(|(l, p, c, d)| ((*l as u32).saturating_sub(1), (*p as u32).saturating_sub(1), c.clone(), d.clone())).collect();
                    Entry { viols, diags, fixed, lint_panic: false }
                }
                Err(_) => Entry { viols: vec![], diags: vec![], fixed: String::new(), lint_panic: true },
            };
            tab.insert((c, t), e);
        }
    }
    tab
}

// ------------------------------------------------------------------ the real server
struct Srv {
    ls: LanguageServer,
    events: Rc<RefCell<Vec<PublishDiagnosticsParams>>>,
}
fn new_server() -> Srv {
    let events: Rc<RefCell<Vec<PublishDiagnosticsParams>>> = Rc::new(RefCell::new(vec![]));
    let ev2 = events.clone();
    let ls = LanguageServer::new(move |p| ev2.borrow_mut().push(p));
    Srv { ls, events }
}
fn uri_index(u: &str) -> usize {
    DOC_URIS.iter().position(|x| *x == u).unwrap_or(7)
}
struct Shape {
    bad: Option<String>,
}
fn canon_diags(p: &PublishDiagnosticsParams, shape: &mut Shape) -> Vec<DiagT> {
    p.diagnostics
        .iter()
        .map(|d| {
            if d.range.start != d.range.end || d.severity != Some(DiagnosticSeverity::WARNING) || d.source.as_deref() != Some("sqruff") {
                shape.bad = Some(format!("{:?}", d));
            }
            let code = match &d.code {
                Some(NumberOrString::String(s)) => Some(s.clone()),
                Some(NumberOrString::Number(n)) => Some(n.to_string()),
                None => None,
            };
            (d.range.start.line, d.range.start.character, code, d.message.clone())
        })
        .collect()
}
fn canon_edits(es: &[TextEdit]) -> Vec<EditT> {
    es.iter().map(|e| (e.range.start.line, e.range.start.character, e.range.end.line, e.range.end.character, e.new_text.clone())).collect()
}

/// Apply one operation to the real server; returns its events (publish events sorted by uri).
fn apply_op(srv: &mut Srv, op: Op, it: &mut Intern, shape: &mut Shape) -> (Vec<Ev>, Option<Vec<EditT>>) {
    srv.events.borrow_mut().clear();
    let mut evs = vec![];
    let mut edits_out = None;
    let ls = &mut srv.ls;
    let r = catch(|| match op {
        Op::Open(u, t) => {
            ls.on_notification("textDocument/didOpen", json!({"textDocument":{"uri":DOC_URIS[u],"languageId":"sql","version":1,"text":TEXTS[t]}}));
            None
        }
        Op::Change(u, t) => {
            ls.on_notification("textDocument/didChange", json!({"textDocument":{"uri":DOC_URIS[u],"version":2},"contentChanges":[{"text":TEXTS[t]}]}));
            None
        }
        Op::Close(u) => {
            ls.on_notification("textDocument/didClose", json!({"textDocument":{"uri":DOC_URIS[u]}}));
            None
        }
        Op::WriteDisk(c) => {
            write_disk(c);
            None
        }
        Op::Save(k) => {
            ls.on_notification("textDocument/didSave", json!({"textDocument":{"uri":SAVE_NAMES[k]}}));
            None
        }
        Op::Format(u) => ls.verif_on_request(7, "textDocument/formatting", json!({"textDocument":{"uri":DOC_URIS[u]},"options":{"tabSize":4,"insertSpaces":true}})),
        Op::Other => {
            ls.on_notification("workspace/didChangeConfiguration", json!({"settings":{}}));
            let r = ls.verif_on_request(8, "textDocument/hover", json!({"textDocument":{"uri":DOC_URIS[0]},"position":{"line":0,"character":0}}));
            if r.is_some() { Some(Value::String("unexpected-response".into())) } else { None }
        }
    });
    let mut pubs: Vec<(usize, u64)> = vec![];
    for p in srv.events.borrow().iter() {
        let ds = canon_diags(p, shape);
        pubs.push((uri_index(p.uri.as_str()), it.diag_id(&ds)));
    }
    pubs.sort();
    for (u, id) in pubs {
        evs.push(Ev::Publish(u, id));
    }
    match r {
        Err(_) => evs.push(Ev::Crash),
        Ok(Some(v)) => match serde_json::from_value::<Vec<TextEdit>>(v) {
            Ok(es) => {
                let ce = canon_edits(&es);
                evs.push(Ev::Edits(it.edit_id(&ce)));
                edits_out = Some(ce);
            }
            Err(_) => {
                shape.bad = Some("response is not a list of TextEdit".into());
            }
        },
        Ok(None) => {}
    }
    (evs, edits_out)
}

struct Hist {
    cls: &'static str,
    c0: usize,
    ops: Vec<Op>,
}

#[derive(Default)]
struct Stats {
    direct: usize,
    ops: usize,
    publishes: usize,
    formats_open: usize,
    formats_shorter: usize,
    formats_longer: usize,
    cfg_rechecks: usize,
    stale_sensitive: usize,
    histories: usize,
    servers: usize,
    reset_ops: usize,
    /// final checks of an open document whose expected diagnostics contain one without a code
    /// (a violation that comes from no rule), and how many such diagnostics were expected / seen published
    ruleless_final_docs: usize,
    ruleless_expected: usize,
    ruleless_published: usize,
}

/// The specification's state: uri -> latest text, latest configuration, the file on disk;
/// plus what was last published per uri.
struct Spec {
    docs: BTreeMap<usize, usize>,
    conf: usize,
    disk: usize,
    last_pub: HashMap<usize, u64>,
}

struct Runner<'a> {
    tab: &'a BTreeMap<(usize, usize), Entry>,
    it: &'a mut Intern,
    st: &'a mut Stats,
}

impl Runner<'_> {
    /// Apply `ops` to the real server, record the batches, update the specification state and
    /// observe the formatting clause directly. Returns whether something non-trivial happened.
    fn run_ops(&mut self, srv: &mut Srv, spec: &mut Spec, ops: &[Op], shape: &mut Shape, batches: &mut Vec<Vec<Ev>>, fails: &mut Vec<(String, String)>) -> bool {
        let tab = self.tab;
        let mut nontrivial = false;
        for &op in ops {
            let (evs, edits) = apply_op(srv, op, self.it, shape);
            self.st.ops += 1;
            for e in &evs {
                if let Ev::Publish(u, id) = e {
                    spec.last_pub.insert(*u, *id);
                    self.st.publishes += 1;
                }
            }
            match op {
                Op::Open(u, t) | Op::Change(u, t) => {
                    spec.docs.insert(u, t);
                }
                Op::Close(u) => {
                    spec.docs.remove(&u);
                }
                Op::WriteDisk(c) => spec.disk = c,
                Op::Save(k) => {
                    if SAVE_NAMES[k].ends_with(".sqruff") || SAVE_NAMES[k].ends_with(".sqlfluff") {
                        if spec.conf != spec.disk && !spec.docs.is_empty() {
                            self.st.cfg_rechecks += 1;
                            nontrivial = true;
                        }
                        spec.conf = spec.disk;
                    }
                }
                Op::Format(u) => {
                    if let Some(&t) = spec.docs.get(&u) {
                        self.st.formats_open += 1;
                        self.st.direct += 1;
                        let e = &tab[&(spec.conf, t)];
                        let ol = TEXTS[t].lines().count();
                        let nl = e.fixed.lines().count();
                        if nl < ol {
                            self.st.formats_shorter += 1;
                            nontrivial = true;
                        }
                        if nl > ol {
                            self.st.formats_longer += 1;
                            nontrivial = true;
                        }
                        match &edits {
                            Some(es) => {
                                let got = apply_edits(TEXTS[t], es);
                                if got.as_deref() != Some(e.fixed.as_str()) {
                                    fails.push((
                                        format!("c20-format:cfg{}:text{}", spec.conf, t),
                                        format!("formatting {:?} under config {}: edits {:?} applied to the document give {:?}, the fix is {:?}", TEXTS[t], spec.conf, es, got, e.fixed),
                                    ));
                                }
                            }
                            None => {
                                if !e.lint_panic {
                                    fails.push((format!("c20-format-noanswer:cfg{}:text{}", spec.conf, t), "no edits returned for an open document".into()));
                                }
                            }
                        }
                    }
                }
                Op::Other => {}
            }
            batches.push(evs);
        }
        nontrivial
    }

    /// The diagnostics clause, observed directly: for every open document the diagnostics last
    /// published are the lint of its latest text under the latest configuration.
    fn check_open_docs(&mut self, spec: &Spec, fails: &mut Vec<(String, String)>) -> bool {
        let tab = self.tab;
        let mut nontrivial = false;
        self.st.direct += 1;
        for (&u, &t) in &spec.docs {
            let e = &tab[&(spec.conf, t)];
            if e.lint_panic {
                continue;
            }
            let want = self.it.diag_id(&e.diags);
            if !e.diags.is_empty() {
                nontrivial = true;
            }
            let nrl = e.diags.iter().filter(|d| d.2.is_none()).count();
            if nrl > 0 {
                self.st.ruleless_final_docs += 1;
                self.st.ruleless_expected += nrl;
                self.st.ruleless_published += spec.last_pub.get(&u).and_then(|g| self.it.diags.get(g)).map_or(0, |ds| ds.iter().filter(|d| d.2.is_none()).count());
            }
            // would another configuration / text have given something else? (sensitivity of the check)
            if tab.iter().any(|((c2, t2), e2)| (*c2 != spec.conf || *t2 != t) && e2.diags != e.diags) {
                self.st.stale_sensitive += 1;
            }
            match spec.last_pub.get(&u) {
                Some(&got) if got == want => {}
                got => {
                    let gotv = got.and_then(|g| self.it.diags.get(g).cloned());
                    fails.push((
                        format!("c20-diag:cfg{}:text{}", spec.conf, t),
                        format!("document {} holds text {} under config {}: last published diagnostics {:?}, lint of latest text under latest config {:?}", DOC_URIS[u], t, spec.conf, gotv, e.diags),
                    ));
                }
            }
        }
        nontrivial
    }

    /// Run a chain of histories on ONE real server. Between two histories the harness brings the
    /// server back to the initial state with ordinary operations (close every open document, restore
    /// the configuration file, save it if the active configuration differs); these reset operations
    /// are part of the recorded operation list, so the Coq model replays exactly what the server saw.
    /// `sub` entries: [start, length, nontrivial] of each history inside the chain.
    fn run_chain(&mut self, idx: usize, hs: &[&Hist], w: &mut Vec<Value>, retry_alone: bool) -> usize {
        let c0 = hs[0].c0;
        write_disk(c0);
        let mut srv = new_server();
        self.st.servers += 1;
        let mut spec = Spec { docs: BTreeMap::new(), conf: c0, disk: c0, last_pub: HashMap::new() };
        let mut shape = Shape { bad: None };
        let mut all_ops: Vec<Op> = vec![];
        let mut batches: Vec<Vec<Ev>> = vec![];
        let mut subs: Vec<(usize, usize, bool)> = vec![];
        let mut nfails = 0;
        for (j, h) in hs.iter().enumerate() {
            if j > 0 {
                let mut r: Vec<Op> = spec.docs.keys().map(|u| Op::Close(*u)).collect();
                if spec.disk != h.c0 {
                    r.push(Op::WriteDisk(h.c0));
                }
                if spec.conf != h.c0 {
                    r.push(Op::Save(0));
                }
                let mut ignored = vec![];
                self.run_ops(&mut srv, &mut spec, &r, &mut shape, &mut batches, &mut ignored);
                self.st.reset_ops += r.len();
                all_ops.extend(r);
            }
            let start = all_ops.len();
            let mut fails = vec![];
            let mut nt = self.run_ops(&mut srv, &mut spec, &h.ops, &mut shape, &mut batches, &mut fails);
            nt |= self.check_open_docs(&spec, &mut fails);
            all_ops.extend(h.ops.iter().copied());
            self.st.histories += 1;
            if let Some(b) = shape.bad.take() {
                fails.push(("c20-diag-shape".into(), format!("diagnostic with range start != end, severity != WARNING or source != sqruff, or malformed response: {}", b)));
            }
            if !fails.is_empty() {
                nfails += fails.len();
                // smallest reproducing input: the history alone on a fresh server if it fails there too
                let mut reported = false;
                if j > 0 && retry_alone {
                    let mut w2 = vec![];
                    let saved = std::mem::take(self.st);
                    let n = self.run_chain(idx, &[*h], &mut w2, false);
                    *self.st = saved;
                    if n > 0 {
                        w.extend(w2.into_iter().filter(|v| v["t"] == "dfail"));
                        reported = true;
                    }
                }
                if !reported {
                    let input = json!({"c0":c0,"ops":all_ops.iter().map(|o| o.triple()).collect::<Vec<_>>(),
                        "readable": all_ops.iter().map(|o| format!("{:?}", o)).collect::<Vec<_>>()});
                    for (key, msg) in fails {
                        w.push(json!({"t":"dfail","cls":h.cls,"key":key,"msg":msg,"input":input}));
                    }
                }
            }
            subs.push((start, h.ops.len(), nt));
        }
        w.push(json!({"t":"hist","i":idx,"cls":hs[0].cls,"c0":c0,"sub":subs,
            "ops":all_ops.iter().map(|o| o.triple()).collect::<Vec<_>>(),
            "ev":batches.iter().map(|b| b.iter().map(|e| e.triple()).collect::<Vec<_>>()).collect::<Vec<_>>()}));
        nfails
    }
}

// ------------------------------------------------------------------ generators
fn alphabet_full() -> Vec<Op> {
    let mut a = vec![];
    for u in 0..2 {
        for t in 0..4 {
            a.push(Op::Open(u, t));
        }
    }
    for u in 0..2 {
        for t in 0..4 {
            a.push(Op::Change(u, t));
        }
    }
    for u in 0..2 {
        a.push(Op::Close(u));
    }
    for c in 0..3 {
        a.push(Op::WriteDisk(c));
    }
    for k in 0..3 {
        a.push(Op::Save(k));
    }
    for u in 0..2 {
        a.push(Op::Format(u));
    }
    a.push(Op::Other);
    a
}
fn alphabet_reduced() -> Vec<Op> {
    vec![
        Op::Open(0, 1),
        Op::Open(0, 2),
        Op::Open(1, 3),
        Op::Change(0, 0),
        Op::Change(1, 1),
        Op::Close(0),
        Op::Close(1),
        Op::WriteDisk(1),
        Op::WriteDisk(2),
        Op::Save(0),
        Op::Format(0),
        Op::Format(1),
    ]
}
/// Alphabet of the `exhaustive-kinds` family: documents whose lint result contains violations that
/// come from no rule (a malformed directive inline with rule violations; several of them; a text the
/// parser rejects), against a text with rule violations only, a configuration switch and formatting.
fn alphabet_kinds() -> Vec<Op> {
    let inline = KIND0 + 2; // "SeLeCt  a from t -- noqa:"
    let multi = KIND0 + 2 * DIRECTIVES.len();
    let unparsed = multi + 2;
    vec![
        Op::Open(0, inline),
        Op::Open(1, multi),
        Op::Change(0, unparsed),
        Op::Change(0, 3),
        Op::Change(1, inline),
        Op::Close(0),
        Op::WriteDisk(1),
        Op::Save(0),
        Op::Format(0),
    ]
}
fn exhaustive(alpha: &[Op], len: usize, cls: &'static str, out: &mut Vec<Hist>) {
    let n = alpha.len();
    let total = n.pow(len as u32);
    for code in 0..total {
        let mut c = code;
        let mut ops = Vec::with_capacity(len);
        for _ in 0..len {
            ops.push(alpha[c % n]);
            c /= n;
        }
        out.push(Hist { cls, c0: 0, ops });
    }
}
fn random_history(rng: &mut Rng, max_cfg: usize) -> Hist {
    let len = rng.range(8, 40);
    let nu = DOC_URIS.len();
    let nk = TEXTS.len() - KIND0;
    // 3 of 5 from the base texts, 2 of 5 from the violation-kind family
    let pick_text = |rng: &mut Rng| if rng.chance(3, 5) { rng.below(KIND0) } else { KIND0 + rng.below(nk) };
    let mut ops = vec![];
    for _ in 0..len {
        let k = rng.below(100);
        let op = if k < 22 {
            Op::Open(rng.below(nu), pick_text(rng))
        } else if k < 47 {
            Op::Change(rng.below(nu), pick_text(rng))
        } else if k < 57 {
            Op::Close(rng.below(nu))
        } else if k < 67 {
            Op::WriteDisk(rng.below(max_cfg))
        } else if k < 79 {
            Op::Save(if rng.chance(2, 3) { rng.below(2) } else { rng.below(SAVE_NAMES.len()) })
        } else if k < 97 {
            Op::Format(rng.below(nu))
        } else {
            Op::Other
        };
        ops.push(op);
    }
    Hist { cls: "random", c0: rng.below(max_cfg), ops }
}
/// Which configurations the histories may use: the last one switches the templater (the server
/// must rebuild its linter on a configuration save; `--without-templater-switch` leaves it out).
fn n_configs(args: &Args) -> usize {
    if args.extra.iter().any(|a| a == "--without-templater-switch") { CONFIGS.len() - 1 } else { CONFIGS.len() }
}
fn plan(args: &Args) -> Vec<Hist> {
    let mut hs = vec![];
    // regression corpus first
    hs.push(Hist { cls: "regression", c0: 0, ops: vec![Op::Open(0, 1), Op::Format(0)] });
    hs.push(Hist { cls: "regression", c0: 0, ops: vec![Op::Open(0, 3), Op::WriteDisk(2), Op::Save(0), Op::Format(0), Op::Close(0), Op::Format(0)] });
    hs.push(Hist { cls: "regression", c0: 1, ops: vec![Op::Open(0, 6), Op::Open(1, 7), Op::WriteDisk(0), Op::Save(1), Op::Change(0, 13), Op::Format(0), Op::Format(1)] });
    if n_configs(args) == CONFIGS.len() {
        // the templater changes with the configuration (fixed: stale templater after a configuration save)
        hs.push(Hist { cls: "regression", c0: 4, ops: vec![Op::WriteDisk(0), Op::Save(0), Op::Open(0, 10), Op::Format(0)] });
        hs.push(Hist { cls: "regression", c0: 0, ops: vec![Op::Open(0, 10), Op::WriteDisk(4), Op::Save(0), Op::Format(0), Op::Change(0, 10)] });
    }
    let full = alphabet_full();
    let red = alphabet_reduced();
    let (lf, lr, nrand) = if args.thorough() { (4, 5, 3000) } else { (3, 4, 300) };
    for l in 1..=lf {
        exhaustive(&full, l, "exhaustive-full", &mut hs);
    }
    exhaustive(&red, lr, "exhaustive-reduced", &mut hs);
    let kinds = alphabet_kinds();
    for l in 1..=lf {
        exhaustive(&kinds, l, "exhaustive-kinds", &mut hs);
    }
    // every (initial configuration, text): opened, formatted, re-checked under another configuration,
    // stored in a second document by a change, formatted there
    let nc = n_configs(args);
    for c0 in 0..nc {
        for t in 0..TEXTS.len() {
            hs.push(Hist { cls: "each-text", c0, ops: vec![Op::Open(0, t), Op::Format(0), Op::WriteDisk((c0 + 1) % nc), Op::Save(0), Op::Change(1, t), Op::Format(1)] });
        }
    }
    let mut rng = Rng::new(args.seed);
    for _ in 0..nrand {
        hs.push(random_history(&mut rng, nc));
    }
    hs
}

fn all_ids(n: usize) -> Vec<usize> {
    (0..n).collect()
}

// ------------------------------------------------------------------ worker / parent
const CHAIN: usize = 12;

fn worker(args: &Args, spec: &str) {
    let (k, n) = spec.split_once('/').map(|(a, b)| (a.parse::<usize>().unwrap(), b.parse::<usize>().unwrap())).unwrap();
    enter_workdir(&format!("{}-w{}", std::process::id(), k));
    let nc = n_configs(args);
    let tab = build_table(&all_ids(nc), &all_ids(TEXTS.len()));
    let hs = plan(args);
    let mut it = Intern::default();
    let mut st = Stats::default();
    let f = std::fs::File::create(&args.out).unwrap();
    let mut wr = std::io::BufWriter::new(f);
    let mut lines: Vec<Value> = vec![];
    // chains of consecutive histories of the same class; chain c goes to worker c % n
    let mut chains: Vec<(usize, Vec<&Hist>)> = vec![];
    for (i, h) in hs.iter().enumerate() {
        let chainable = h.cls.starts_with("exhaustive");
        match chains.last_mut() {
            Some((_, c)) if chainable && c.len() < CHAIN && c[0].cls == h.cls => c.push(h),
            _ => chains.push((i, vec![h])),
        }
    }
    for (ci, (i, c)) in chains.iter().enumerate() {
        if ci % n != k {
            continue;
        }
        let mut r = Runner { tab: &tab, it: &mut it, st: &mut st };
        r.run_chain(*i, c, &mut lines, true);
        for v in it.fresh.drain(..) {
            writeln!(wr, "{}", v).unwrap();
        }
        for v in lines.drain(..) {
            writeln!(wr, "{}", v).unwrap();
        }
    }
    writeln!(wr, "{}", json!({"t":"wstat","direct":st.direct,"ops":st.ops,"publishes":st.publishes,"formats_open":st.formats_open,
        "formats_shorter":st.formats_shorter,"formats_longer":st.formats_longer,"cfg_rechecks":st.cfg_rechecks,"stale_sensitive":st.stale_sensitive,
        "histories":st.histories,"servers":st.servers,"reset_ops":st.reset_ops,
        "ruleless_final_docs":st.ruleless_final_docs,"ruleless_expected":st.ruleless_expected,"ruleless_published":st.ruleless_published})).unwrap();
    writeln!(wr, "{}", json!({"t":"wdone"})).unwrap();
    wr.flush().unwrap();
    let _ = std::env::set_current_dir("/");
    let _ = std::fs::remove_dir_all(cache_dir().join("c20-work").join(format!("{}-w{}", std::process::id(), k)));
}

fn gen_docend_texts(args: &Args) -> Vec<(String, &'static str)> {
    let mut v: Vec<(String, &'static str)> = vec![];
    // exhaustive over {a, \n, \r} up to length 5
    let alpha = ['a', '\n', '\r'];
    for len in 0..=5usize {
        for code in 0..alpha.len().pow(len as u32) {
            let mut c = code;
            let mut s = String::new();
            for _ in 0..len {
                s.push(alpha[c % 3]);
                c /= 3;
            }
            v.push((s, "docend-exhaustive"));
        }
    }
    let mut rng = Rng::new(args.seed ^ 0xd0ce);
    let chars = ['a', 'b', ' ', '\n', '\n', '\r', '\u{e9}', '\u{1F600}', '\t', '\u{2028}'];
    for _ in 0..(if args.thorough() { 3000 } else { 400 }) {
        let len = rng.range(0, 24);
        let s: String = (0..len).map(|_| *rng.pick(&chars)).collect();
        v.push((s, "docend-random"));
    }
    for t in TEXTS.iter() {
        v.push((t.to_string(), "docend-texts"));
    }
    v
}

fn emit_tables(out: &mut Out, tab: &BTreeMap<(usize, usize), Entry>) {
    let texts = g_list(TEXTS.iter().map(|t| g_utf16(t)));
    let names = g_list(SAVE_NAMES.iter().map(|t| g_str(t)));
    let lint = g_list(tab.iter().filter(|(_, e)| !e.lint_panic).map(|((c, t), e)| {
        g_tuple(&[c.to_string(), t.to_string(), g_list(e.viols.iter().map(|(l, p, code, d)| g_tuple(&[l.to_string(), p.to_string(), g_opt(code.as_ref().map(|c| g_str(c))), g_str(d)])))])
    }));
    let fix = g_list(tab.iter().filter(|(_, e)| !e.lint_panic).map(|((c, t), e)| g_tuple(&[c.to_string(), t.to_string(), g_utf16(&e.fixed)])));
    out.line(json!({"t":"tables","texts":texts,"names":names,"lint":lint,"fix":fix,
        "configs":CONFIGS,"texts_j":TEXTS.as_slice(),"uris":DOC_URIS,"save_names":SAVE_NAMES}));
}

fn format_cases(out: &mut Out, tab: &BTreeMap<(usize, usize), Entry>, only: Option<(usize, usize)>) {
    let mut buf = Buf::default();
    let mut it = Intern::default();
    for ((c, t), e) in tab.iter() {
        if let Some(o) = only {
            if o != (*c, *t) {
                continue;
            }
        }
        if e.lint_panic {
            buf.count("table_lint_panics", 1);
            continue;
        }
        write_disk(*c);
        let mut srv = new_server();
        let mut shape = Shape { bad: None };
        apply_op(&mut srv, Op::Open(0, *t), &mut it, &mut shape);
        let (_, edits) = apply_op(&mut srv, Op::Format(0), &mut it, &mut shape);
        let Some(es) = edits else {
            buf.direct("format-table", false, &format!("c20-format-noanswer:cfg{}:text{}", c, t), "no edits", json!({"c0":c,"ops":[[0,0,t],[5,0,0]]}));
            continue;
        };
        let ol = TEXTS[*t].lines().count();
        let nl = e.fixed.lines().count();
        let cls = if nl < ol { "format-fix-shorter" } else if nl > ol { "format-fix-longer" } else if e.fixed != TEXTS[*t] { "format-fix-same-lines" } else { "format-clean" };
        for group in ["format", "fmtedit"] {
            buf.case(
                group,
                cls,
                nl != ol,
                g_tuple(&[g_utf16(TEXTS[*t]), g_utf16(&e.fixed)]),
                g_edits(&es),
                json!({"input":{"c0":c,"ops":[[0,0,t],[5,0,0]]},"config":CONFIGS[*c],"text":TEXTS[*t],"fixed":e.fixed,"edits":es}),
            );
        }
        // how much of the table exercises violations that come from no rule (no diagnostic code)
        if e.viols.iter().any(|v| v.2.is_none()) {
            buf.count("table_entries_with_ruleless_violations", 1);
            if e.viols.iter().any(|v| v.2.is_some()) {
                buf.count("table_entries_mixing_ruleless_and_rule_violations", 1);
            }
        }
        if e.viols.len() >= 100 {
            buf.count("table_entries_with_100_or_more_violations", 1);
        }
        // hypothesis of C20_zero_based: the linter's positions are one-based and fit u32
        for (l, p, _, _) in &e.viols {
            buf.hyp("H_one_based (1 <= line_no, line_pos < 2^32 in every lint result)", "blocking", *l >= 1 && *p >= 1 && (*l as u64) < (1u64 << 32) && (*p as u64) < (1u64 << 32), json!({"config":c,"text":TEXTS[*t],"line":l,"pos":p}));
        }
    }
    out.absorb(buf);
}

fn docend_cases(out: &mut Out, args: &Args) {
    let mut buf = Buf::default();
    for (s, cls) in gen_docend_texts(args) {
        let (l, c) = sqruff_lsp::verif_end_of_document(&s);
        let nontrivial = s.contains('\r') || s.chars().any(|c| c as u32 > 0xffff);
        buf.case("docend", cls, nontrivial, g_utf16(&s), g_tuple(&[l.to_string(), c.to_string()]), json!({"input":{"docend_text":s},"end":[l,c]}));
        // direct: the position is the end of the document for the harness' own LSP offset function
        let t: Vec<u16> = s.encode_utf16().collect();
        buf.direct(cls, offset_of(&t, l, c) == t.len() && offset_of(&t, l, c.saturating_sub(1)) + (c.min(1) as usize) == t.len(), "c20-docend", &format!("end_of_document({:?}) = ({},{}) is not the exact end of the document", s, l, c), json!({"docend_text":s}));
    }
    out.absorb(buf);
}

pub fn main(args: &Args) {
    silence_panics();
    if let Some(spec) = args.flag("--worker") {
        worker(args, &spec);
        return;
    }
    let mut out = Out::new(&args.out);
    let tag = format!("{}-p", std::process::id());
    let wd = enter_workdir(&tag);
    let nc = n_configs(args);
    let tab = build_table(&all_ids(nc), &all_ids(TEXTS.len()));
    emit_tables(&mut out, &tab);

    if args.extra.iter().any(|a| a == "--time") {
        let t0 = std::time::Instant::now();
        for _ in 0..200 {
            let _s = new_server();
        }
        eprintln!("new_server: {:?} each", t0.elapsed() / 200);
        let mut srv = new_server();
        let mut it = Intern::default();
        let mut shape = Shape { bad: None };
        let t0 = std::time::Instant::now();
        for i in 0..200 {
            apply_op(&mut srv, Op::Open(0, i % 4), &mut it, &mut shape);
        }
        eprintln!("open: {:?} each", t0.elapsed() / 200);
        let t0 = std::time::Instant::now();
        for _ in 0..200 {
            apply_op(&mut srv, Op::Format(0), &mut it, &mut shape);
        }
        eprintln!("format: {:?} each", t0.elapsed() / 200);
        let t0 = std::time::Instant::now();
        for _ in 0..200 {
            apply_op(&mut srv, Op::Save(0), &mut it, &mut shape);
        }
        eprintln!("save-cfg (1 doc): {:?} each", t0.elapsed() / 200);
    }
    if args.extra.iter().any(|a| a == "--probe") {
        for ((c, t), e) in &tab {
            eprintln!("cfg {} text {} {:?}\n   viols {:?}\n   fixed {:?} panic={}", c, t, TEXTS[*t], e.viols.iter().map(|v| (v.0, v.1, v.2.clone())).collect::<Vec<_>>(), e.fixed, e.lint_panic);
        }
    }

    if let Some(path) = args.flag("--replay-input") {
        let v: Value = serde_json::from_str(&std::fs::read_to_string(path).unwrap()).unwrap();
        let v = if v.get("input").is_some() { v["input"].clone() } else { v };
        if let Some(s) = v.get("docend_text").and_then(|s| s.as_str()) {
            let (l, c) = sqruff_lsp::verif_end_of_document(s);
            let mut buf = Buf::default();
            let t: Vec<u16> = s.encode_utf16().collect();
            buf.case("docend", "replay", true, g_utf16(s), g_tuple(&[l.to_string(), c.to_string()]), json!({"input":{"docend_text":s},"end":[l,c]}));
            buf.direct("replay", offset_of(&t, l, c) == t.len(), "c20-docend", "end_of_document is not the end of the document", json!({"docend_text":s}));
            out.absorb(buf);
        } else {
            let c0 = v["c0"].as_u64().unwrap_or(0) as usize;
            let ops: Vec<Op> = v["ops"].as_array().unwrap().iter().map(|o| Op::from_triple(&o.as_array().unwrap().iter().map(|x| x.as_u64().unwrap() as usize).collect::<Vec<_>>())).collect();
            let h = Hist { cls: "replay", c0, ops };
            let mut it = Intern::default();
            let mut st = Stats::default();
            let mut lines = vec![];
            Runner { tab: &tab, it: &mut it, st: &mut st }.run_chain(0, &[&h], &mut lines, false);
            forward(&mut out, it.fresh.drain(..).chain(lines.drain(..)).collect(), &mut HashSet::new());
            out.n_direct += st.direct;
            // the format kernel of the first formatted (config, text), if the history is the two-op form
            if h.ops.len() == 2 {
                if let (Op::Open(_, t), Op::Format(_)) = (h.ops[0], h.ops[1]) {
                    format_cases(&mut out, &tab, Some((c0, t)));
                }
            }
        }
        finish(out, &wd);
        return;
    }

    format_cases(&mut out, &tab, None);
    docend_cases(&mut out, args);

    // histories: worker processes, one working directory each
    let nworkers = std::env::var("SQV_THREADS").ok().and_then(|s| s.parse().ok()).unwrap_or(16usize).max(1);
    let exe = std::env::current_exe().unwrap();
    let mut children = vec![];
    for k in 0..nworkers {
        let wout = wd.join(format!("worker-{}.jsonl", k));
        let mut cmd = std::process::Command::new(&exe);
        cmd.arg("c20").arg("--tier").arg(&args.tier).arg("--seed").arg(args.seed.to_string()).arg("--out").arg(&wout).arg("--worker").arg(format!("{}/{}", k, nworkers));
        if nc != CONFIGS.len() {
            cmd.arg("--without-templater-switch");
        }
        children.push((cmd.spawn().expect("spawn worker"), wout));
    }
    let mut seen_vals: HashSet<(String, u64)> = HashSet::new();
    let mut totals: BTreeMap<String, u64> = BTreeMap::new();
    let mut ok_workers = 0;
    for (mut ch, wout) in children {
        let status = ch.wait().expect("wait worker");
        let text = std::fs::read_to_string(&wout).unwrap_or_default();
        let mut lines = vec![];
        let mut done = false;
        for l in text.lines() {
            let Ok(v) = serde_json::from_str::<Value>(l) else { continue };
            match v["t"].as_str().unwrap_or("") {
                "wstat" => {
                    for (k, x) in v.as_object().unwrap() {
                        if let Some(n) = x.as_u64() {
                            *totals.entry(k.clone()).or_default() += n;
                        }
                    }
                }
                "wdone" => done = true,
                _ => lines.push(v),
            }
        }
        if status.success() && done {
            ok_workers += 1;
        }
        forward(&mut out, lines, &mut seen_vals);
    }
    out.n_direct += *totals.get("direct").unwrap_or(&0) as usize;
    out.stat(json!({"workers":nworkers,"workers_ok":ok_workers,"history_totals":totals}));
    if ok_workers != nworkers {
        // an incomplete run must not look like a pass
        eprintln!("c20: {} of {} workers failed", nworkers - ok_workers, nworkers);
        let _ = std::env::set_current_dir("/");
        let _ = std::fs::remove_dir_all(&wd);
        std::process::exit(3);
    }
    finish(out, &wd);
}

fn forward(out: &mut Out, lines: Vec<Value>, seen_vals: &mut HashSet<(String, u64)>) {
    let mut buf = Buf::default();
    let mut nfail = 0usize;
    for v in lines {
        match v["t"].as_str().unwrap_or("") {
            "val" => {
                let key = (v["kind"].as_str().unwrap_or("").to_string(), v["id"].as_u64().unwrap_or(0));
                if seen_vals.insert(key) {
                    out.line(v);
                }
            }
            "dfail" => {
                buf.direct(v["cls"].as_str().unwrap_or(""), false, v["key"].as_str().unwrap_or(""), v["msg"].as_str().unwrap_or(""), v["input"].clone());
                nfail += 1;
            }
            _ => out.line(v),
        }
    }
    out.absorb(buf);
    // n_direct is counted from the workers' totals; compensate the increments of absorb
    out.n_direct -= nfail;
}

fn finish(out: Out, wd: &PathBuf) {
    let _ = std::env::set_current_dir("/");
    let _ = std::fs::remove_dir_all(wd);
    out.finish();
}
