//! C03 — linting and fixing never crash, whatever the input.
//!
//! Two parts:
//!  * the crash search (direct observation, decides most of C03): every item
//!    `(dialect, rule selection, lint|fix, text)` is run in a *child process* of this
//!    binary (`sqv c03 --worker`) under `catch_unwind`; the parent watches each child
//!    with a timeout, so panics, aborts (signals, stack overflow, double panics) and
//!    non-termination are all observations, keyed by panic site / signal / "timeout";
//!  * the correspondence of the Gallina crash-envelope kernels (Crash/Model.v): the
//!    `fix_slices` / `has_template_conflicts` arithmetic on recorded `LintFix` shapes, and
//!    the fix-loop driver on recorded pass traces (see `kernel_cases`).
use std::io::{BufRead, BufReader, Write};
use std::process::{Child, ChildStdin, Command, Stdio};
use std::sync::Mutex;
use std::sync::atomic::{AtomicUsize, Ordering};
use std::sync::mpsc::{Receiver, RecvTimeoutError, channel};
use std::time::{Duration, Instant};

use serde_json::{Value, json};
use sqruff_lib::core::config::FluffConfig;
use sqruff_lib::core::linter::core::Linter;
use sqruff_lib_core::parser::lexer::StringOrTemplate;
use sqruff_lib_core::parser::segments::base::Tables;

use crate::common::*;

#[path = "c03k.rs"]
mod c03k;
#[path = "c03g.rs"]
mod c03g;

pub const SELECTIONS: [&str; 9] =
    ["core", "all", "aliasing", "ambiguous", "capitalisation", "convention", "layout", "references", "structure"];

pub fn mk_linter(dialect: &str, rules: &str) -> Linter {
    let src = format!("[sqruff]\ndialect = {}\nrules = {}\n", dialect, rules);
    Linter::new(FluffConfig::from_source(&src, None), None, None, true)
}

#[derive(Clone)]
pub struct Item {
    pub cls: &'static str,
    pub dialect: String,
    pub rules: String,
    pub fix: bool,
    pub sql: String,
    pub origin: String,
}
impl Item {
    fn input(&self) -> Value {
        json!({"dialect":self.dialect,"rules":self.rules,"fix":self.fix,"sql":self.sql,"origin":self.origin})
    }
}

// ---------------------------------------------------------------- worker (child process)
static LAST_PANIC: Mutex<Option<(String, String)>> = Mutex::new(None);
static N_PANICS: AtomicUsize = AtomicUsize::new(0);

fn install_hook() {
    std::panic::set_hook(Box::new(|info| {
        let loc = info.location().map(|l| format!("{}:{}", l.file(), l.line())).unwrap_or_else(|| "?".into());
        let msg = if let Some(s) = info.payload().downcast_ref::<&str>() {
            s.to_string()
        } else if let Some(s) = info.payload().downcast_ref::<String>() {
            s.clone()
        } else {
            "panic".to_string()
        };
        N_PANICS.fetch_add(1, Ordering::SeqCst);
        if let Ok(mut g) = LAST_PANIC.lock() {
            *g = Some((loc, msg));
        }
    }));
}

/// Path of a panic location relative to the repository (stable across worktrees).
fn rel_loc(loc: &str) -> String {
    match loc.find("crates/") {
        Some(i) => loc[i..].to_string(),
        None => match loc.rfind("/src/") {
            // dependency or std: keep crate dir + file
            Some(i) => {
                let head = &loc[..i];
                let k = head.rfind('/').map(|k| k + 1).unwrap_or(0);
                loc[k..].to_string()
            }
            None => loc.to_string(),
        },
    }
}

/// The failure class of a panic: site (file:line) — except for the grammar's dangling
/// references, which belong to C14 and are keyed
/// `c14-dangling-ref:<dialect>:<name>`.
fn panic_key(dialect: &str, loc: &str, msg: &str) -> String {
    if let Some(rest) = msg.strip_prefix("Grammar refers to ") {
        // "the 'X' keyword which ..." or "'X' which ..."
        let name: String = rest.trim_start_matches("the ").trim_start_matches('\'').chars().take_while(|c| *c != '\'').collect();
        return format!("c14-dangling-ref:{}:{}", dialect, name);
    }
    format!("panic@{}", rel_loc(loc))
}

fn run_item(linters: &mut std::collections::HashMap<(String, String), Linter>, v: &Value) -> Value {
    let dialect = v["dialect"].as_str().unwrap_or("ansi").to_string();
    let rules = v["rules"].as_str().unwrap_or("all").to_string();
    let fix = v["fix"].as_bool().unwrap_or(false);
    let sql = v["sql"].as_str().unwrap_or("");
    let before = N_PANICS.load(Ordering::SeqCst);
    let t0 = Instant::now();
    let key = (dialect.clone(), rules.clone());
    if !linters.contains_key(&key) {
        match catch(|| mk_linter(&dialect, &rules)) {
            Ok(l) => {
                linters.insert(key.clone(), l);
            }
            Err(m) => {
                let (loc, msg) = LAST_PANIC.lock().unwrap().clone().unwrap_or(("?".into(), m));
                return json!({"r":"panic","stage":"config","key":panic_key(&dialect,&loc,&msg),"loc":rel_loc(&loc),"msg":trunc(&msg,200)});
            }
        }
    }
    let linter = &linters[&key];
    let r = catch(|| {
        let lf = linter.lint_string(sql, None, fix);
        let nv = lf.violations.len();
        let unexp = lf.violations.iter().filter(|v| v.description.starts_with("Unexpected exception")).count();
        let unparsable = lf.violations.iter().filter(|v| v.rule.is_none()).count();
        let fixed = if fix { Some(lf.fix_string()) } else { None };
        (nv, unexp, unparsable, fixed)
    });
    let caught = N_PANICS.load(Ordering::SeqCst) - before;
    let ms = t0.elapsed().as_millis() as u64;
    match r {
        Ok((nv, unexp, unparsable, fixed)) => {
            json!({"r":"ok","nv":nv,"unexp":unexp,"parse_errs":unparsable,"caught":caught,"ms":ms,
                   "changed":fixed.as_ref().map(|f| f != sql).unwrap_or(false)})
        }
        Err(m) => {
            let (loc, msg) = LAST_PANIC.lock().unwrap().clone().unwrap_or(("?".into(), m));
            json!({"r":"panic","stage":"lint","key":panic_key(&dialect,&loc,&msg),"loc":rel_loc(&loc),"msg":trunc(&msg,200),"caught":caught.saturating_sub(1),"ms":ms})
        }
    }
}

fn proc_status_mb(field: &str) -> u64 {
    std::fs::read_to_string("/proc/self/status")
        .ok()
        .and_then(|s| s.lines().find(|l| l.starts_with(field)).and_then(|l| l.split_whitespace().nth(1).and_then(|x| x.parse::<u64>().ok())))
        .map(|kb| kb / 1024)
        .unwrap_or(0)
}

fn worker_main() {
    install_hook();
    let stdin = std::io::stdin();
    let stdout = std::io::stdout();
    let mut linters = std::collections::HashMap::new();
    for line in stdin.lock().lines() {
        let Ok(line) = line else { break };
        if line.trim().is_empty() {
            continue;
        }
        let v: Value = serde_json::from_str(&line).unwrap_or(Value::Null);
        let mut res = run_item(&mut linters, &v);
        res["rss_mb"] = json!(proc_status_mb("VmRSS:"));
        res["hwm_mb"] = json!(proc_status_mb("VmHWM:"));
        let mut o = stdout.lock();
        let _ = writeln!(o, "{}", res);
        let _ = o.flush();
    }
}

// ---------------------------------------------------------------- parent: child management
struct Worker {
    child: Child,
    stdin: ChildStdin,
    rx: Receiver<String>,
}
impl Drop for Worker {
    fn drop(&mut self) {
        let _ = self.child.kill();
        let _ = self.child.wait();
    }
}

/// Memory-hungry items (deep nesting: measured 11 GB for 64 nested subqueries in fix mode, 2.4 GB
/// for 64 nested CASEs; large files) share `HEAVY_MAX` slots so that the check does not exhaust
/// the machine: weight 4 = runs alone among the heavy ones.
static HEAVY: Mutex<usize> = Mutex::new(0);
const HEAVY_MAX: usize = 4;
struct HeavyGuard(usize);
impl HeavyGuard {
    fn acquire(weight: usize) -> HeavyGuard {
        loop {
            {
                let mut g = HEAVY.lock().unwrap();
                if *g + weight <= HEAVY_MAX {
                    *g += weight;
                    return HeavyGuard(weight);
                }
            }
            std::thread::sleep(Duration::from_millis(20));
        }
    }
}
impl Drop for HeavyGuard {
    fn drop(&mut self) {
        *HEAVY.lock().unwrap() -= self.0;
    }
}
fn nest_params(it: &Item) -> Option<(usize, usize)> {
    let rest = it.origin.strip_prefix("nest")?;
    let (k, d) = rest.split_once('x')?;
    Some((k.parse().ok()?, d.parse().ok()?))
}
fn heavy_weight(it: &Item) -> usize {
    match nest_params(it) {
        Some((2, d)) if d >= 40 && it.fix => 4,
        Some((2, d)) if d >= 24 => 2,
        Some((3, d)) if d >= 40 => 2,
        Some((_, d)) if d >= 32 => 1,
        _ => {
            if it.sql.len() > 6000 {
                1
            } else {
                0
            }
        }
    }
}

fn spawn_worker() -> Worker {
    let exe = std::env::current_exe().expect("current_exe");
    // address-space limit: a runaway allocation aborts the worker instead of endangering the machine
    let limit_kb: u64 = std::env::var("SQV_C03_VMEM_KB").ok().and_then(|s| s.parse().ok()).unwrap_or(16_000_000);
    let mut child = Command::new("sh")
        .arg("-c")
        .arg(format!("ulimit -v {}; exec \"$0\" c03 --worker", limit_kb))
        .arg(exe)
        .stdin(Stdio::piped())
        .stdout(Stdio::piped())
        .stderr(Stdio::null())
        .spawn()
        .expect("spawn worker");
    let stdin = child.stdin.take().unwrap();
    let stdout = child.stdout.take().unwrap();
    let (tx, rx) = channel();
    std::thread::spawn(move || {
        for line in BufReader::new(stdout).lines() {
            let Ok(line) = line else { break };
            if tx.send(line).is_err() {
                break;
            }
        }
    });
    Worker { child, stdin, rx }
}

enum Outcome {
    Done(Value),
    Died(String),
    Timeout,
}

fn run_in_child(w: &mut Option<Worker>, it: &Item, timeout: Duration) -> Outcome {
    if w.is_none() {
        *w = Some(spawn_worker());
    }
    let wk = w.as_mut().unwrap();
    let line = json!({"dialect":it.dialect,"rules":it.rules,"fix":it.fix,"sql":it.sql}).to_string();
    if writeln!(wk.stdin, "{}", line).and_then(|_| wk.stdin.flush()).is_err() {
        let st = wk.child.wait().map(|s| format!("{}", s)).unwrap_or_else(|_| "?".into());
        *w = None;
        return Outcome::Died(st);
    }
    match wk.rx.recv_timeout(timeout) {
        Ok(l) => match serde_json::from_str::<Value>(&l) {
            Ok(v) => {
                // sqruff keeps memory of earlier lints alive (measured: ~2 GB per deeply nested file);
                // that is not a crash of this run, so start a fresh worker rather than let it add up
                if v["rss_mb"].as_u64().unwrap_or(0) > 400 {
                    drop(w.take());
                }
                Outcome::Done(v)
            }
            Err(_) => Outcome::Died(format!("garbled worker output: {}", trunc(&l, 80))),
        },
        Err(RecvTimeoutError::Timeout) => {
            let _ = wk.child.kill();
            let _ = wk.child.wait();
            *w = None;
            Outcome::Timeout
        }
        Err(RecvTimeoutError::Disconnected) => {
            let st = wk.child.wait().map(|s| format!("{}", s)).unwrap_or_else(|_| "?".into());
            *w = None;
            Outcome::Died(st)
        }
    }
}

fn djb(s: &str) -> String {
    let mut h: u64 = 0xcbf29ce484222325;
    for b in s.as_bytes() {
        h ^= *b as u64;
        h = h.wrapping_mul(0x100000001b3);
    }
    format!("{:012x}", h & 0xffff_ffff_ffff)
}

fn observe(w: &mut Option<Worker>, it: &Item, timeout: Duration, last_try: bool, buf: &mut Buf) {
    buf.count(if last_try { "runs_retried" } else { "runs" }, 1);
    if !last_try {
        buf.count(if it.fix { "runs_fix" } else { "runs_lint" }, 1);
    }
    let wt = heavy_weight(it);
    let _guard = if wt > 0 { Some(HeavyGuard::acquire(wt)) } else { None };
    let outcome = run_in_child(w, it, timeout);
    drop(_guard);
    match outcome {
        Outcome::Done(v) => {
            buf.lines.push(json!({"t":"hwm","mb":v["hwm_mb"].as_u64().unwrap_or(0)}));
            if it.origin.ends_with("[reference undefined in dialect]") {
                buf.count("grammar_sentences_aimed_at_undefined_reference", 1);
            }
            if v["r"] == "ok" {
                buf.direct(it.cls, true, "", "", Value::Null);
                if v["unexp"].as_u64().unwrap_or(0) > 0 {
                    buf.count("runs_with_rule_panic_reported_as_violation", 1);
                }
                if v["parse_errs"].as_u64().unwrap_or(0) > 0 {
                    buf.count("runs_with_parse_error_violation", 1);
                } else if it.cls == "grammar-path" || it.cls == "grammar-path-rich" {
                    // the synthesised complete sentence is grammatical for the real parser: it did reach its target node
                    buf.count("grammar_complete_sentences_parsed_without_error", 1);
                }
                if it.cls == "grammar-path" || it.cls == "grammar-path-rich" {
                    buf.count("grammar_complete_sentences", 1);
                }
                if v["changed"].as_bool().unwrap_or(false) {
                    buf.count("runs_fix_changed_text", 1);
                }
                let ms = v["ms"].as_u64().unwrap_or(0);
                if ms > 5000 {
                    buf.count("runs_over_5s", 1);
                }
                buf.lines.push(json!({"t":"ms","ms":ms,"len":it.sql.len()}));
            } else {
                let key = v["key"].as_str().unwrap_or("panic@?").to_string();
                let msg = format!("uncaught panic at {} ({}): {}", v["loc"].as_str().unwrap_or("?"), v["stage"].as_str().unwrap_or("?"), v["msg"].as_str().unwrap_or(""));
                buf.count("uncaught_panics", 1);
                if it.cls == "grammar-path" || it.cls == "grammar-path-rich" {
                    buf.count("grammar_complete_sentences", 1);
                }
                if it.origin.ends_with("[reference undefined in dialect]") {
                    // precision of the synthesis: a sentence aimed at a reference the dialect does not define must abort in Dialect::ref
                    buf.count("grammar_sentences_aimed_at_undefined_reference_that_abort", 1);
                }
                buf.direct(it.cls, false, &key, &msg, it.input());
            }
        }
        Outcome::Died(st) if !last_try && st.contains("signal: 9") => {
            // SIGKILL is never sqruff's own abort (that would be SIGABRT/SIGSEGV): the kernel's OOM killer
            // on a shared machine. Retry alone at the end; a second kill is reported.
            buf.count("sigkill_first_attempt", 1);
            buf.lines.push(json!({"t":"retry"}));
        }
        Outcome::Died(st) => {
            buf.count("aborts", 1);
            // an abort whose cause is a dangling grammar reference cannot be told apart here by message;
            // key by exit status + dialect + first word so that each abort class is distinct
            let first = it.sql.split_whitespace().take(2).collect::<Vec<_>>().join("_");
            let key = format!("abort:{}:{}:{}", st.replace(' ', "_"), it.dialect, djb(&first));
            buf.direct(it.cls, false, &key, &format!("worker process died ({})", st), it.input());
        }
        Outcome::Timeout if !last_try => {
            // The machine is shared: retry alone, later, with a longer limit before calling it non-termination.
            buf.count("timeouts_first_attempt", 1);
            buf.lines.push(json!({"t":"retry"}));
        }
        Outcome::Timeout => {
            buf.count("timeouts", 1);
            let key = format!("timeout:{}:{}", it.dialect, djb(&it.sql));
            buf.direct(it.cls, false, &key, &format!("no result after {} s", timeout.as_secs()), it.input());
        }
    }
}

// ---------------------------------------------------------------- generators
fn token_bounds(dialect: &str, sql: &str, linters: &mut std::collections::HashMap<String, Linter>) -> Vec<(usize, usize)> {
    let l = linters.entry(dialect.to_string()).or_insert_with(|| mk_linter(dialect, "core"));
    let tables = Tables::default();
    let r = catch(|| l.config().get_dialect().lexer().lex(&tables, StringOrTemplate::String(sql)));
    let mut out = vec![];
    if let Ok(Ok((toks, _))) = r {
        let mut pos = 0usize;
        for t in toks {
            let n = t.raw().len();
            if n > 0 && pos + n <= sql.len() {
                out.push((pos, pos + n));
            }
            pos += n;
        }
    }
    out
}

const JUNK: &[&str] = &[
    "@", "$", "\\", "'", "\"", "`", "é", "日本", "\u{0}", "\u{7}", "\t", "\r", "\r\n", "/*", "*/", "--", "#", "{{", "}}", "{%", "%}", "?", ":x", "$1", "[", "]", "(", ")", ";", ",", ".", "..", "::", "||",
    "'unterminated", "\"unterminated", "/* unterminated", "\u{feff}", "\u{a0}", "\u{2028}", "𝒳", "0x", "1e", "1.2.3", "e'", "$$", "$tag$",
];
const STMT_KW: &[&str] = &[
    "SELECT", "INSERT", "UPDATE", "DELETE", "CREATE", "ALTER", "DROP", "MERGE", "WITH", "SET", "USE", "GRANT", "REVOKE", "TRUNCATE", "EXPLAIN", "DESCRIBE", "BEGIN", "COMMIT", "ROLLBACK", "DECLARE",
    "CALL", "COPY", "SHOW", "VALUES", "TABLE", "FROM", "WHERE", "GROUP BY", "ORDER BY", "JOIN", "ON", "AS", "CASE", "WHEN", "END", "UNION", "OVER", "PARTITION BY", "INTO", "IF", "NOT", "EXISTS",
];
const SQLFLUFF_LINES: &[&str] = &[
    "-- sqlfluff:dialect:ansi",
    "-- sqlfluff:rules:LT01",
    "-- sqlfluff:exclude_rules:CP01",
    "-- sqlfluff",
    "-- sqlfluff:",
    "-- sqlfluff:max_line_length:120",
    "-- sqlfluff:indentation:tab_space_size:2",
    "-- sqlfluff:templater:raw",
    "-- sqlfluffxyz",
    "-- sqlfluff:rules:capitalisation.keywords:capitalisation_policy:upper",
];

fn nested(depth: usize, kind: usize) -> String {
    match kind {
        0 => format!("SELECT {}1{} FROM t\n", "(".repeat(depth), ")".repeat(depth)),
        1 => format!("SELECT {}x{} FROM t\n", "f(".repeat(depth), ")".repeat(depth)),
        2 => {
            let mut s = String::from("SELECT a FROM t");
            for i in 0..depth {
                s = format!("SELECT a FROM ({}) AS s{}", s, i);
            }
            s + "\n"
        }
        3 => format!("SELECT {}1{} FROM t\n", "CASE WHEN a THEN ".repeat(depth), " END".repeat(depth)),
        4 => format!("SELECT {}\n", "(".repeat(depth)),
        5 => format!("SELECT 1 {}\n", ")".repeat(depth)),
        6 => format!("SELECT a FROM t WHERE {}a = 1{}\n", "(".repeat(depth), ")".repeat(depth)),
        7 => format!("SELECT {}1{}\n", "[".repeat(depth), "]".repeat(depth)),
        _ => format!("SELECT a{} FROM t\n", "[1]".repeat(depth)),
    }
}

fn corrupt(rng: &mut Rng, sql: &str, toks: &[(usize, usize)], keywords: &[String]) -> String {
    if toks.is_empty() {
        return format!("{}{}", JUNK[rng.below(JUNK.len())], sql);
    }
    // work on a vector of token strings
    let mut v: Vec<String> = toks.iter().map(|(a, b)| sql[*a..*b].to_string()).collect();
    let n_edits = rng.range(1, 5);
    for _ in 0..n_edits {
        if v.is_empty() {
            break;
        }
        let i = rng.below(v.len());
        match rng.below(8) {
            0 => {
                v.remove(i);
            }
            1 => {
                let x = v[i].clone();
                v.insert(i, x);
            }
            2 => {
                let j = rng.below(v.len());
                v.swap(i, j);
            }
            3 => v.insert(i, JUNK[rng.below(JUNK.len())].to_string()),
            4 => v.insert(i, format!(" {} ", STMT_KW[rng.below(STMT_KW.len())])),
            5 => {
                if !keywords.is_empty() {
                    v.insert(i, format!(" {} ", keywords[rng.below(keywords.len())]))
                }
            }
            6 => v.truncate(i),
            _ => v.insert(i, format!("\n{}\n", SQLFLUFF_LINES[rng.below(SQLFLUFF_LINES.len())])),
        }
    }
    v.concat()
}

pub fn dialect_keywords(dialect: &str) -> Vec<String> {
    let l = mk_linter(dialect, "core");
    let d = l.config().get_dialect();
    let mut ks: Vec<String> = d.sets("reserved_keywords").into_iter().chain(d.sets("unreserved_keywords")).map(|s| s.to_string()).collect();
    ks.sort();
    ks.dedup();
    ks
}

fn build_items(args: &Args, out: &mut Out) -> Vec<Item> {
    let thorough = args.thorough();
    let mut rng = Rng::new(args.seed);
    let mut items: Vec<Item> = vec![];
    let corpus = corpus();
    let mut lex_linters = std::collections::HashMap::new();
    let mut push = |cls: &'static str, dialect: &str, rules: &str, fix: bool, sql: String, origin: String| {
        // the property quantifies over inputs up to 20 kB
        if sql.len() <= 20 * 1024 {
            items.push(Item { cls, dialect: dialect.to_string(), rules: rules.to_string(), fix, sql, origin });
        }
    };

    // 0. regression corpus (minimised earlier failures) — runs first
    for d in DIALECTS {
        push("regression", d, "all", true, "-- sqlfluff:dialect:ansi\nSELECT 1\n".into(), "inline-config".into());
        push("regression", d, "core", false, "SELECT 1\n-- sqlfluff:rules:LT01\n".into(), "inline-config".into());
        push("regression", d, "all", true, "CREATE TABLE t (a int)\n".into(), "create-table".into());
        push("regression", d, "all", true, "".into(), "empty".into());
        push("regression", d, "all", true, "\n".into(), "newline".into());
        push("regression", d, "all", true, "SELECT @x, b FROM t\n".into(), "unlexable".into());
        push("regression", d, "CV06,CV07", true, "(\nSELECT 1\n);\n".into(), "create-after-at-offset-0".into());
        push("regression", d, "convention", false, "()".into(), "cv07-empty-brackets".into());
        push("regression", d, "all", true, "SELECT 1;\n()\n".into(), "cv07-empty-brackets".into());
        push("regression", d, "AM04", false, "WITH a AS (SELECT * FROM a AS x) SELECT * FROM a AS y\n".into(), "am04-self-referencing-cte".into());
        push("regression", d, "all", true, "WITH a AS (SELECT * FROM b AS x), b AS (SELECT * FROM a AS z) SELECT * FROM a AS y\n".into(), "am04-self-referencing-cte".into());
    }

    // 1. corpus under its own dialect: all+fix for every file; other selections/modes rotate
    for (i, f) in corpus.iter().enumerate() {
        push("corpus", &f.dialect, "all", true, f.text.clone(), f.name.clone());
        let nsel = if thorough { SELECTIONS.len() } else { 1 };
        for k in 0..nsel {
            let sel = SELECTIONS[(i + k) % SELECTIONS.len()];
            push("corpus", &f.dialect, sel, (i + k) % 2 == 0, f.text.clone(), f.name.clone());
            if thorough {
                push("corpus", &f.dialect, sel, (i + k) % 2 == 1, f.text.clone(), f.name.clone());
            }
        }
    }
    // 2. cross-dialect corpus
    let n_cross = if thorough { 12 } else { 1 };
    for f in corpus.iter() {
        for _ in 0..n_cross {
            let d = DIALECTS[rng.below(DIALECTS.len())];
            if d == f.dialect {
                continue;
            }
            let sel = if rng.chance(1, 2) { "all" } else { SELECTIONS[rng.below(SELECTIONS.len())] };
            push("cross-dialect", d, sel, rng.chance(2, 3), f.text.clone(), f.name.clone());
        }
    }
    // 3. rule fixture snippets (ansi unless the file name names a dialect)
    let snippets = rule_snippets();
    for (i, (name, text)) in snippets.iter().enumerate() {
        if !thorough && i % 2 == 1 {
            continue;
        }
        let d = if thorough { DIALECTS[i % DIALECTS.len()] } else { "ansi" };
        push("rule-snippets", d, "all", true, text.clone(), name.clone());
    }
    if args.extra.iter().any(|a| a == "--subset") {
        // checked-profile pass of the quick tier: regression, corpus (own dialect), rule fixtures
        return items;
    }
    // 4. exhaustive single-token deletions / duplications on small files
    let mut small: Vec<&CorpusFile> = corpus.iter().filter(|f| f.text.len() < 400).collect();
    rng.shuffle(&mut small);
    let mut per_dialect: std::collections::HashMap<String, usize> = Default::default();
    let cap = if thorough { 12 } else { 2 };
    let mut n_small_files = 0;
    for f in small {
        let c = per_dialect.entry(f.dialect.clone()).or_default();
        if *c >= cap {
            continue;
        }
        let toks = token_bounds(&f.dialect, &f.text, &mut lex_linters);
        if toks.is_empty() || toks.len() > 40 {
            continue;
        }
        *c += 1;
        n_small_files += 1;
        for (k, (a, b)) in toks.iter().enumerate() {
            let del = format!("{}{}", &f.text[..*a], &f.text[*b..]);
            let dup = format!("{}{}{}", &f.text[..*b], &f.text[*a..*b], &f.text[*b..]);
            let sel = if k % 3 == 0 { "all" } else { SELECTIONS[k % SELECTIONS.len()] };
            push("token-delete", &f.dialect, sel, true, del, format!("{}#del{}", f.name, k));
            push("token-duplicate", &f.dialect, sel, true, dup, format!("{}#dup{}", f.name, k));
        }
    }
    out.stat(json!({"small_files_exhaustively_mutated": n_small_files}));
    // 5. seeded multi-token corruptions with junk characters / keywords / config lines
    let n_corrupt = if thorough { 12000 } else { 1500 };
    let mut kw_cache: std::collections::HashMap<String, Vec<String>> = Default::default();
    for d in DIALECTS {
        kw_cache.insert(d.to_string(), dialect_keywords(d));
    }
    let mid: Vec<&CorpusFile> = corpus.iter().filter(|f| f.text.len() < 3000).collect();
    for _ in 0..n_corrupt {
        let f = mid[rng.below(mid.len())];
        let d = if rng.chance(4, 5) { f.dialect.as_str() } else { DIALECTS[rng.below(DIALECTS.len())] };
        let toks = token_bounds(&f.dialect, &f.text, &mut lex_linters);
        let sql = corrupt(&mut rng, &f.text, &toks, &kw_cache[d]);
        let cls = if sql.contains("-- sqlfluff") { "corrupt+config-line" } else { "corrupt" };
        let sel = if rng.chance(1, 2) { "all" } else { SELECTIONS[rng.below(SELECTIONS.len())] };
        push(cls, d, sel, rng.chance(3, 4), sql, f.name.clone());
    }
    // 6. every keyword of each dialect as statement opener
    let mut n_kw = 0;
    for d in DIALECTS {
        let ks = &kw_cache[d];
        for (i, k) in ks.iter().enumerate() {
            n_kw += 1;
            let variants: Vec<String> = vec![
                format!("{} t (a int)\n", k),
                format!("{};\n", k),
                format!("{} TABLE t (a int);\n", k),
                format!("SELECT {} FROM t\n", k),
                format!("CREATE {} t AS SELECT 1\n", k),
                format!("{} a, b FROM t WHERE {} c\n", k, k),
            ];
            if thorough {
                for v in variants {
                    push("keyword", d, "all", true, v, k.clone());
                }
            } else {
                let v = variants[i % variants.len()].clone();
                push("keyword", d, "all", i % 2 == 0, v, k.clone());
            }
        }
    }
    out.stat(json!({"dialect_keywords": n_kw}));
    // 7. '-- sqlfluff' lines at every line position of small files
    for d in DIALECTS {
        for (i, l) in SQLFLUFF_LINES.iter().enumerate() {
            let base = ["SELECT a FROM t\n", "SELECT a,\n    b\nFROM t\nWHERE a = 1\n", ""][i % 3];
            let lines: Vec<&str> = base.lines().collect();
            for at in 0..=lines.len() {
                let mut v: Vec<String> = lines.iter().map(|s| s.to_string()).collect();
                v.insert(at, l.to_string());
                let sql = v.join("\n") + if i % 2 == 0 { "\n" } else { "" };
                push("config-line", d, SELECTIONS[(i + at) % SELECTIONS.len()], at % 2 == 0, sql, l.to_string());
            }
        }
    }
    // 8. junk stream
    for d in DIALECTS {
        for (i, j) in JUNK.iter().enumerate() {
            push("junk", d, "all", true, j.to_string(), "junk".into());
            push("junk", d, "all", i % 2 == 0, format!("SELECT a{} FROM t\n", j), "junk".into());
            if thorough {
                push("junk", d, "all", true, format!("{}SELECT a FROM t", j), "junk".into());
                push("junk", d, "core", false, format!("SELECT a FROM t {}", j), "junk".into());
                push("junk", d, "layout", true, format!("SELECT a FROM t\n{}\n", j), "junk".into());
            }
        }
        for s in ["   ", "\n\n\n", "\t", ";", ";;", "SELECT", "select\r\n1\r\n", "SELECT 1 -- c", "/**/", "SELECT\u{a0}1"] {
            push("junk", d, "all", true, s.to_string(), "tiny".into());
        }
    }
    // 9. bracket nesting to 64
    let depths: Vec<usize> = if thorough { (1..=64).collect() } else { vec![1, 2, 3, 8, 16, 32, 48, 64] };
    for (di, d) in DIALECTS.iter().enumerate() {
        for &depth in &depths {
            for kind in 0..9 {
                if !thorough && (kind + depth + di) % 3 != 0 && !(*d == "ansi" && depth == 64) {
                    continue;
                }
                // nested subqueries / CASEs are cubic in time and memory (64 subqueries in fix mode: 11 GB, 10 s):
                // thorough runs them at every 8th depth
                if thorough && (kind == 2 || kind == 3) && depth > 8 && depth % 8 != 0 {
                    continue;
                }
                // deep nested subqueries in fix mode: ansi only in quick tier, every 4th dialect in thorough
                // (the construct is the same ANSI grammar in every dialect); the others are linted
                let fix = !(kind == 2 && depth >= 40) || *d == "ansi" || (thorough && di % 4 == 0);
                push("nesting", d, if kind % 2 == 0 { "all" } else { "layout" }, fix, nested(depth, kind), format!("nest{}x{}", kind, depth));
            }
        }
    }
    // 10. large files up to 20 kB (concatenated corpus files of the dialect)
    let n_large = if thorough { 6 } else { 1 };
    for d in DIALECTS {
        let fs: Vec<&CorpusFile> = corpus.iter().filter(|f| f.dialect == d).collect();
        if fs.is_empty() {
            continue;
        }
        for k in 0..n_large {
            let mut s = String::new();
            let mut tries = 0;
            while s.len() < 19 * 1024 && tries < 400 {
                tries += 1;
                let f = fs[rng.below(fs.len())];
                if s.len() + f.text.len() + 2 > 20 * 1024 {
                    continue;
                }
                s.push_str(f.text.trim_end());
                if !f.text.trim_end().ends_with(';') {
                    s.push(';');
                }
                s.push('\n');
            }
            push("large", d, if k % 2 == 0 { "all" } else { "core" }, k % 3 != 2, s, format!("large{}", k));
        }
        // one long single line and one file of many tiny statements
        push("large", d, "all", true, format!("SELECT {} FROM t\n", (0..2500).map(|i| format!("c{}", i)).collect::<Vec<_>>().join(", ")), "wide".into());
        push("large", d, "layout", true, "select 1;\n".repeat(1900), "many".into());
    }
    // 12. noqa directives next to rule-less violations: unparsable or malformed statements (parse errors and malformed
    //     directives are violations without a rule) carrying every directive form, line- and block-comment style
    {
        let defects = [
            "SELECT 1 2 3", "SELECT a FROM t WHERE", "SELECT FROM WHERE", "SELECT a,, b FROM t", "SELECT (a FROM t", "SELECT a FROM t)",
            "INSERT INTO", "CREATE TABLE t (", "SELECT a FROM t GROUP", "SELEC a FROM t", "SELECT a FROM t ORDER BY", "WITH x AS SELECT 1",
            "SELECT a  from t", "SeLeCt  1 from tBl",
        ];
        let directives = [
            "noqa", "noqa: LT01", "noqa: LT01,CP01", "noqa: PRS", "noqa: disable=all", "noqa: enable=all", "noqa: disable=LT01", "noqa: enable=LT01,CP01",
            "noqa:", "noqa?", "noqa: disable=", "noqa: enable= ,", "noqa: ,", "noqa:LT01 ", "NOQA", "noqa : LT01", "some text -- noqa: LT01",
        ];
        let n = if thorough { 4000 } else { 500 };
        for i in 0..n {
            let d = if i % 3 == 0 { DIALECTS[rng.below(DIALECTS.len())] } else { "ansi" };
            let mut sql = String::new();
            for _ in 0..rng.range(1, 4) {
                let stmt = defects[rng.below(defects.len())];
                let dir = directives[rng.below(directives.len())];
                match rng.below(6) {
                    0 => sql.push_str(&format!("{} -- {}\n", stmt, dir)),
                    1 => sql.push_str(&format!("{} /* {} */\n", stmt, dir)),
                    2 => sql.push_str(&format!("/* {} */ {} -- {}\n", dir, stmt, directives[rng.below(directives.len())])),
                    3 => sql.push_str(&format!("-- {}\n{}\n", dir, stmt)),
                    4 => sql.push_str(&format!("{}; -- {}\n", stmt, dir)),
                    _ => sql.push_str(&format!("{}\n", stmt)),
                }
            }
            let sel = ["all", "core", "LT01", "layout", "CP01,LT01"][rng.below(5)];
            push("noqa-on-defect", d, sel, rng.chance(1, 2), sql, "noqa-on-defect".into());
        }
    }
    // 13. common table expressions that refer to themselves or to each other (directly, through a sibling, through a
    //     derived table; aliased or not; wildcard, qualified wildcard or named columns): query analysis follows such references
    {
        let n = if thorough { 3000 } else { 400 };
        let names = ["a", "b", "c", "nums"];
        for i in 0..n {
            let d = if i % 2 == 0 { DIALECTS[rng.below(DIALECTS.len())] } else { "ansi" };
            let k = rng.range(1, 3);
            let src = |rng: &mut Rng, own: usize| -> String {
                // a source for a CTE body: itself, another CTE, a base table, or a derived table over one of those
                let t = match rng.below(5) {
                    0 | 1 => names[own].to_string(),
                    2 => names[rng.below(k)].to_string(),
                    3 => "base_t".to_string(),
                    _ => format!("(SELECT * FROM {})", names[rng.below(k)]),
                };
                match rng.below(4) {
                    0 => format!("{} AS x", t),
                    1 => format!("{} x", t),
                    _ => if t.starts_with('(') { format!("{} AS d", t) } else { t },
                }
            };
            let cols = |rng: &mut Rng| -> &'static str { ["*", "x.*", "a, b", "*, 1 AS one", "x.a", "1 AS n"][rng.below(6)] };
            let mut ctes = vec![];
            for j in 0..k {
                let body = if rng.chance(1, 4) {
                    format!("SELECT {} FROM {} UNION ALL SELECT {} FROM {}", cols(&mut rng), src(&mut rng, j), cols(&mut rng), src(&mut rng, j))
                } else if rng.chance(1, 5) {
                    format!("SELECT {} FROM {} JOIN {} ON 1 = 1", cols(&mut rng), src(&mut rng, j), src(&mut rng, j))
                } else {
                    format!("SELECT {} FROM {}", cols(&mut rng), src(&mut rng, j))
                };
                ctes.push(format!("{} AS ({})", names[j], body));
            }
            let rec = if rng.chance(1, 3) { "RECURSIVE " } else { "" };
            let own = rng.below(k);
            let main_src = src(&mut rng, own);
            let sql = format!("WITH {}{}\nSELECT {} FROM {}\n", rec, ctes.join(",\n"), cols(&mut rng), main_src);
            let sel = ["all", "ambiguous", "AM04", "structure", "references", "aliasing", "core"][rng.below(7)];
            push("cte-cycles", d, sel, rng.chance(1, 2), sql, "cte-cycles".into());
        }
    }
    // 14. odd comment shapes (the noqa scan and the lexer's comment cutting see every comment before any rule runs) and
    //     scripting blocks nested in one another (the fixtures only have flat scripts)
    {
        let comments = ["/*/", "/**/", "/*", "*/", "/* */", "/*/ noqa */", "/*/\n * text\n */", "/* noqa */", "/*noqa*/", "/*\n*/", "--", "-- ", "/* a */ /* b */", "/*/*/",
                        "/* /* nested */ */", "-- noqa: /*", "/* -- noqa */", "#", "# noqa", "/*/ noqa: disable=all", "/* noqa: enable=all */*/", "--noqa:*/", "/*\n\n*/", "/* \r\n */"];
        for d in DIALECTS {
            for (i, c) in comments.iter().enumerate() {
                push("comment-shapes", d, if i % 2 == 0 { "all" } else { "core" }, i % 3 != 0, format!("{}\n", c), "comment-shapes".into());
                push("comment-shapes", d, "all", i % 2 == 0, format!("SELECT a {} FROM t\n", c), "comment-shapes".into());
                push("comment-shapes", d, "core", i % 2 == 1, format!("{}\nSELECT a FROM t\n{}", c, c), "comment-shapes".into());
            }
            let blocks: [(&str, &str); 6] = [("IF TRUE THEN", "END IF;"), ("LOOP", "END LOOP;"), ("REPEAT", "UNTIL TRUE END REPEAT;"), ("WHILE TRUE DO", "END WHILE;"),
                                             ("BEGIN", "END;"), ("FOR r IN (SELECT 1) DO", "END FOR;")];
            for (k, (oa, ca)) in blocks.iter().enumerate() {
                for (j, (ob, cb)) in blocks.iter().enumerate() {
                    push("nested-blocks", d, if (k + j) % 2 == 0 { "all" } else { "core" }, (k + j) % 3 != 0, format!("{oa}\n  {ob}\n    SELECT 1;\n  {cb}\n  SELECT 2;\n{ca}\n"), "nested-blocks".into());
                }
                push("nested-blocks", d, "all", true, format!("{oa}\n  {oa}\n    {oa}\n      SELECT 1;\n    {ca}\n  {ca}\n{ca}\nSELECT 3;\n"), "nested-blocks".into());
            }
        }
    }
    // 11. grammar-driven sentences: for every grammar node reachable from FileSegment in each dialect, a shortest
    //     token sequence that leads the parser to it (complete / cut after the node / foreign token at the node)
    let mut gstats = vec![];
    for d in DIALECTS {
        let gs = c03g::sentences(d);
        let mut n_used = 0usize;
        for (i, s) in gs.sentences.iter().enumerate() {
            // every sentence in both tiers (measured: ~55k short texts add ~20 s to the quick run)
            n_used += 1;
            let cls = match s.variant {
                0 => "grammar-path",
                1 => "grammar-path-cut",
                2 => "grammar-path-foreign",
                _ => "grammar-path-rich",
            };
            // the parser decides these; rules ride along: mostly the cheap selection, all+fix for every 8th
            let (sel, fix) = if thorough { (SELECTIONS[i % SELECTIONS.len()], i % 2 == 0) } else if i % 8 == 0 { ("all", true) } else { ("core", i % 2 == 1) };
            let origin = if s.dangling { format!("{} [reference undefined in dialect]", s.origin) } else { s.origin.clone() };
            push(cls, d, sel, fix, s.sql.clone(), origin);
        }
        gstats.push(json!({"dialect": d, "grammar_nodes": gs.n_nodes, "reachable": gs.n_reachable, "targets": gs.n_targets, "targets_without_sentence": gs.n_no_sentence,
                           "leaves_without_sample_token": gs.n_leaf_no_sample, "reference_sites_undefined_in_dialect": gs.n_dangling_sites,
                           "sentences": gs.sentences.len(), "sentences_run": n_used, "reference_sites_targeted": gs.n_ref_sites}));
    }
    out.stat(json!({"grammar_sentences": gstats}));
    items
}

// ---------------------------------------------------------------- main
pub fn main(args: &Args) {
    if args.extra.iter().any(|a| a == "--worker") {
        worker_main();
        return;
    }
    silence_panics();
    if let Some(d) = args.flag("--grammar-sentences") {
        // inspection aid: print the synthesised sentences of one dialect
        let gs = c03g::sentences(&d);
        let linter = mk_linter(&d, "core");
        for s in &gs.sentences {
            // first column: does the real parser accept the text ('ok'), report it unparsable ('unparsable'), or abort ('PANIC')
            let st = match catch(|| linter.lint_string(&s.sql, None, false).violations.iter().filter(|v| v.rule.is_none()).count()) {
                Ok(0) => "ok",
                Ok(_) => "unparsable",
                Err(_) => "PANIC",
            };
            print!("{}\t{}\t{}", st, s.origin, s.sql);
        }
        eprintln!(
            "{}: nodes {} reachable {} targets {} (no sentence {}, leaves without sample {}, dangling sites {}) sentences {}",
            gs.dialect, gs.n_nodes, gs.n_reachable, gs.n_targets, gs.n_no_sentence, gs.n_leaf_no_sample, gs.n_dangling_sites, gs.sentences.len()
        );
        return;
    }
    let mut out = Out::new(&args.out);
    let timeout = Duration::from_secs(std::env::var("SQV_C03_TIMEOUT").ok().and_then(|s| s.parse().ok()).unwrap_or(60));

    let items: Vec<Item> = if let Some(path) = args.flag("--replay-input") {
        let v: Value = serde_json::from_str(&std::fs::read_to_string(path).unwrap()).unwrap();
        let v = if v.get("input").is_some() { v["input"].clone() } else { v };
        if v.get("kernel").is_some() {
            c03k::replay(&v, &mut out);
            out.finish();
            return;
        }
        vec![Item {
            cls: "replay",
            dialect: v["dialect"].as_str().unwrap_or("ansi").into(),
            rules: v["rules"].as_str().unwrap_or("all").into(),
            fix: v["fix"].as_bool().unwrap_or(true),
            sql: v["sql"].as_str().unwrap_or("").into(),
            origin: "replay".into(),
        }]
    } else {
        // kernel correspondence cases first (in-process; cheap)
        if !args.extra.iter().any(|a| a == "--subset") {
            c03k::kernel_cases(args, &mut out);
        }
        build_items(args, &mut out)
    };

    // distribution of the inputs
    let mut sizes = [0usize; 6];
    for it in &items {
        let b = match it.sql.len() {
            0..=15 => 0,
            16..=127 => 1,
            128..=1023 => 2,
            1024..=4095 => 3,
            4096..=12287 => 4,
            _ => 5,
        };
        sizes[b] += 1;
    }
    out.stat(json!({"items": items.len(), "size_hist_bytes": {"<16":sizes[0],"<128":sizes[1],"<1k":sizes[2],"<4k":sizes[3],"<12k":sizes[4],"<=20k":sizes[5]},
                    "timeout_s": timeout.as_secs()}));

    // Children are single-threaded; one manager thread per child. Big items first so the tail is short.
    let mut order: Vec<usize> = (0..items.len()).collect();
    order.sort_by_key(|&i| std::cmp::Reverse(if items[i].cls == "regression" { usize::MAX } else { items[i].sql.len() }));
    let ordered: Vec<&Item> = order.iter().map(|&i| &items[i]).collect();
    let ms_all: Mutex<Vec<u64>> = Mutex::new(vec![]);
    let retry: Mutex<Vec<Item>> = Mutex::new(vec![]);
    let hwm: Mutex<u64> = Mutex::new(0);
    par_run(
        &mut out,
        &ordered,
        || None::<Worker>,
        |w, it, buf| {
            observe(w, it, timeout, false, buf);
            // strip the timing records into the shared vector
            let mut keep = vec![];
            for l in std::mem::take(&mut buf.lines) {
                if l["t"] == "ms" {
                    ms_all.lock().unwrap().push(l["ms"].as_u64().unwrap_or(0));
                } else if l["t"] == "hwm" {
                    let mut g = hwm.lock().unwrap();
                    *g = (*g).max(l["mb"].as_u64().unwrap_or(0));
                } else if l["t"] == "retry" {
                    retry.lock().unwrap().push((*it).clone());
                } else {
                    keep.push(l);
                }
            }
            buf.lines = keep;
        },
    );
    // second chance for timeouts: one at a time, five times the limit
    let retry = retry.into_inner().unwrap();
    {
        let mut w = None::<Worker>;
        for it in &retry {
            let mut buf = Buf::default();
            observe(&mut w, it, timeout * 5, true, &mut buf);
            buf.lines.retain(|l| l["t"] != "ms" && l["t"] != "hwm");
            out.absorb(buf);
        }
    }
    out.stat(json!({"worker_peak_rss_mb": *hwm.lock().unwrap()}));
    let mut ms = ms_all.into_inner().unwrap();
    ms.sort();
    if !ms.is_empty() {
        out.stat(json!({"lint_ms": {"p50": ms[ms.len()/2], "p99": ms[ms.len()*99/100], "max": ms[ms.len()-1], "total_s": ms.iter().sum::<u64>()/1000}}));
    }
    out.finish();
}
