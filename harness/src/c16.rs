//! C16 — capitalisation fixes change only letter case and reach the policy.
//! Only CP01..CP05 selected; dialect × per-kind policy × ignore_words × (corpus | case scrambles).
//! * direct: fix_string = source up to ASCII case; lint(fix) reports no CP violation; fix(fix) = fix;
//!   quoted identifiers / string literals / comments byte-identical.
//! * every direct observation is made through each public way of fixing a text, not only `lint_string`:
//!   `lint_paths` on a file and on a directory (the code path of `sqruff fix <file|dir>`),
//!   `render_string` + `lint_rendered`, `lint_string_wrapped`; fix, lint-of-fix and fix-of-fix all go
//!   through the same entry point.
//! * group `call`: every recorded call of `handle_segment` (hook in cp01.rs: raw, policy, policy
//!   list name, memory before/after, result) replayed on the Gallina `handle`.
use std::collections::BTreeSet;

use serde_json::{Value, json};
use sqruff_lib::core::config::FluffConfig;
use sqruff_lib::core::linter::core::Linter;
use sqruff_lib::rules::capitalisation::cp01::verif_hook::{CAPS_LOG, CapsCall};
use sqruff_lib_core::parser::segments::base::Tables;

use crate::common::*;

static GLOBAL_SEEN: std::sync::OnceLock<std::sync::Mutex<std::collections::HashSet<u64>>> = std::sync::OnceLock::new();

const POLICIES: [&str; 5] = ["consistent", "upper", "lower", "capitalise", "pascal"];
/// (config section, policy key)
const KINDS: [(&str, &str); 5] = [
    ("capitalisation.keywords", "capitalisation_policy"),
    ("capitalisation.identifiers", "extended_capitalisation_policy"),
    ("capitalisation.functions", "extended_capitalisation_policy"),
    ("capitalisation.literals", "capitalisation_policy"),
    ("capitalisation.types", "extended_capitalisation_policy"),
];

struct Item {
    cls: &'static str,
    dialect: String,
    config: String,
    sql: String,
    /// entry points exercised besides `lint_string`
    entries: Vec<Entry>,
}

/// The public ways of linting / fixing one text (`crates/lib/src/core/linter/core.rs`).
#[derive(Clone, Copy, PartialEq, Eq, Debug)]
enum Entry {
    /// `Linter::lint_string`
    Str,
    /// `Linter::lint_paths(vec![file])` — `sqruff fix file.sql`
    PathsFile,
    /// `Linter::lint_paths(vec![dir])`, the directory holds a second file (both go through the rayon pool)
    PathsDir,
    /// `Linter::render_string` + `Linter::lint_rendered`
    Rendered,
    /// `Linter::lint_string_wrapped`
    Wrapped,
}
const ALT_ENTRIES: [Entry; 4] = [Entry::PathsFile, Entry::PathsDir, Entry::Rendered, Entry::Wrapped];
impl Entry {
    fn name(self) -> &'static str {
        match self {
            Entry::Str => "lint_string",
            Entry::PathsFile => "lint_paths-file",
            Entry::PathsDir => "lint_paths-dir",
            Entry::Rendered => "render_string+lint_rendered",
            Entry::Wrapped => "lint_string_wrapped",
        }
    }
    fn from_name(s: &str) -> Option<Entry> {
        std::iter::once(Entry::Str).chain(ALT_ENTRIES).find(|e| e.name() == s)
    }
}

/// Per-thread scratch directory for the path based entry points.
struct Scratch {
    dir: std::path::PathBuf,
}
fn scratch_base() -> std::path::PathBuf {
    // scratch lives under <verif>/.cache (SQV_SCRATCH is set by bin/vlib.py), not under /tmp
    std::env::var("SQV_SCRATCH").map(std::path::PathBuf::from).unwrap_or_else(|_| std::env::temp_dir()).join(format!("sqv-c16-{}", std::process::id()))
}
impl Scratch {
    fn new() -> Scratch {
        static N: std::sync::atomic::AtomicUsize = std::sync::atomic::AtomicUsize::new(0);
        let dir = scratch_base().join(format!("t{}", N.fetch_add(1, std::sync::atomic::Ordering::SeqCst)));
        std::fs::create_dir_all(dir.join("d")).expect("scratch dir");
        Scratch { dir }
    }
}

fn mk_config(dialect: &str, pol: &[&str; 5], ignore: &[Option<String>; 5]) -> String {
    let mut s = format!("[sqruff]\ndialect = {}\nrules = CP01,CP02,CP03,CP04,CP05\n", dialect);
    for (i, (sec, key)) in KINDS.iter().enumerate() {
        s.push_str(&format!("[sqruff:rules:{}]\n{} = {}\n", sec, key, pol[i]));
        if let Some(w) = &ignore[i] {
            s.push_str(&format!("ignore_words = {}\n", w));
        }
    }
    s
}

fn fnv(s: &str) -> u32 {
    let mut h: u32 = 0x811c9dc5;
    for b in s.as_bytes() {
        h ^= *b as u32;
        h = h.wrapping_mul(0x01000193);
    }
    h
}

// ---------------------------------------------------------------- generators
fn scramble(rng: &mut Rng, sql: &str) -> (String, &'static str) {
    let mode = rng.below(5);
    let mut out = String::with_capacity(sql.len());
    match mode {
        0 => (sql.to_ascii_uppercase(), "scramble-upper"),
        1 => (sql.to_ascii_lowercase(), "scramble-lower"),
        2 => {
            for c in sql.chars() {
                out.push(if c.is_ascii_alphabetic() && rng.chance(1, 2) { if c.is_ascii_lowercase() { c.to_ascii_uppercase() } else { c.to_ascii_lowercase() } } else { c });
            }
            (out, "scramble-per-char")
        }
        _ => {
            // per word: upper / lower / Capitalised / camelCase / as is
            let mut word = String::new();
            let flush = |rng: &mut Rng, word: &mut String, out: &mut String| {
                if word.is_empty() {
                    return;
                }
                let w = std::mem::take(word);
                let r = match rng.below(6) {
                    0 => w.to_ascii_uppercase(),
                    1 => w.to_ascii_lowercase(),
                    2 => {
                        let mut cs = w.chars();
                        let f = cs.next().unwrap();
                        format!("{}{}", f.to_ascii_uppercase(), cs.as_str().to_ascii_lowercase())
                    }
                    3 => {
                        let mut cs = w.chars();
                        let f = cs.next().unwrap();
                        let rest: String = cs.enumerate().map(|(i, c)| if i % 3 == 2 { c.to_ascii_uppercase() } else { c.to_ascii_lowercase() }).collect();
                        format!("{}{}", f.to_ascii_lowercase(), rest)
                    }
                    _ => w,
                };
                out.push_str(&r);
            };
            for c in sql.chars() {
                if c.is_ascii_alphanumeric() || c == '_' {
                    word.push(c);
                } else {
                    flush(rng, &mut word, &mut out);
                    out.push(c);
                }
            }
            flush(rng, &mut word, &mut out);
            (out, if mode == 3 { "scramble-per-word" } else { "scramble-per-word-2" })
        }
    }
}

fn words_of(sql: &str) -> Vec<String> {
    let mut set = BTreeSet::new();
    for w in sql.split(|c: char| !(c.is_ascii_alphanumeric() || c == '_')) {
        if !w.is_empty() && w.len() < 24 && w.chars().next().unwrap().is_ascii_alphabetic() {
            set.insert(w.to_ascii_lowercase());
        }
    }
    set.into_iter().collect()
}

fn gen_policies(rng: &mut Rng, k: usize) -> [&'static str; 5] {
    if k < POLICIES.len() {
        [POLICIES[k]; 5]
    } else {
        let mut p = ["consistent"; 5];
        for x in p.iter_mut() {
            *x = POLICIES[rng.below(POLICIES.len())];
        }
        p
    }
}

fn gen_ignore(rng: &mut Rng, sql: &str) -> [Option<String>; 5] {
    let mut ig: [Option<String>; 5] = Default::default();
    if rng.chance(1, 2) {
        return ig;
    }
    let ws = words_of(sql);
    if ws.is_empty() {
        return ig;
    }
    for x in ig.iter_mut() {
        if rng.chance(1, 2) {
            let n = rng.range(1, 3);
            let mut picked: Vec<String> = (0..n).map(|_| ws[rng.below(ws.len())].clone()).collect();
            if rng.chance(1, 3) {
                picked[0] = picked[0].to_ascii_uppercase(); // the config lower-cases them
            }
            *x = Some(picked.join(","));
        }
    }
    ig
}

/// hand-written statements mixing the five element kinds, awkward identifiers included
const SNIPPETS: &[&str] = &[
    "SELECT Ab, a_, AB FROM t\n",
    "select Ab, a_, FooBar, x1 from Tbl where a_ is NULL and b = True\n",
    "SeLeCt Sum(a), count(b), COALESCE(c, 1) fRoM t gRoUp By a\n",
    "CREATE TABLE t (a int, b VARCHAR(10), c Timestamp, d Double Precision)\n",
    "select cast(a as INT), cast(b as varchar(3)), Cast(c AS Date) from t\n",
    "SELECT \"MiXed\", 'LiTeRaL', `Back`, a -- CoMMent Select\nFROM t /* BLOCK select */\n",
    "select a, B, c_D, _e, f_, G1 from t1 JOIN t2 on t1.a = T2.a\n",
    "SELECT null, NULL, Null, true, FALSE, False FROM t\n",
    "select current_date, CURRENT_TIMESTAMP, Current_Time from t\n",
    "SELECT a FROM t WHERE a IN (1, 2) AND b LIKE 'x' or c between 1 AND 2\n",
    "select * from t order by a ASC, b desc NULLS first\n",
    "INSERT INTO t (A, b) VALUES (1, 'x')\n",
    "select date_part('year', d), EXTRACT(Year FROM d), dateadd(DAY, 1, d) from t\n",
];

// ---------------------------------------------------------------- run one item
fn ascii_lower(s: &str) -> Vec<u8> {
    s.bytes().map(|b| b.to_ascii_lowercase()).collect()
}

fn case_name(s: &str) -> Option<&'static str> {
    match s {
        "upper" => Some("Upper"),
        "lower" => Some("Lower"),
        "capitalise" => Some("Capitalise"),
        "pascal" => Some("Pascal"),
        _ => None,
    }
}
fn g_mem(refuted: &[&'static str], latest: &Option<String>) -> Option<String> {
    let has = |n: &str| g_bool(refuted.contains(&n));
    if refuted.iter().any(|r| case_name(r).is_none()) {
        return None;
    }
    let lt = match latest {
        None => "None".to_string(),
        Some(l) => format!("(Some {})", case_name(l)?),
    };
    Some(format!("(mkm {} {} {} {} {})", has("upper"), has("lower"), has("capitalise"), has("pascal"), lt))
}
fn g_policy(p: &str) -> String {
    match p {
        "consistent" => "Consistent".into(),
        other => match case_name(other) {
            Some(c) => format!("(Concrete {})", c),
            None => "OtherPolicy".into(),
        },
    }
}

type Viol = (String, usize, usize);

fn viols(f: &sqruff_lib::core::linter::linted_file::LintedFile) -> Vec<Viol> {
    f.violations.iter().filter_map(|v| v.rule.as_ref().map(|r| (r.code.to_string(), v.line_no, v.line_pos))).collect()
}

/// Lint (`fix = false`) or fix (`fix = true`) `sql` through the public entry point `entry`:
/// the resulting text (`fix_string`) and the rule violations reported.
fn run_entry(entry: Entry, linter: &mut Linter, sc: &Scratch, sql: &str, fix: bool) -> Result<(String, Vec<Viol>), String> {
    let never = |_: &std::path::Path| false;
    catch(move || match entry {
        Entry::Str => {
            let f = linter.lint_string(sql, None, fix);
            let vs = viols(&f);
            (f.fix_string(), vs)
        }
        Entry::Wrapped => {
            let r = linter.lint_string_wrapped(sql, fix);
            let f = r.paths.into_iter().flat_map(|d| d.files.into_iter()).next().expect("lint_string_wrapped returned no file");
            let vs = viols(&f);
            (f.fix_string(), vs)
        }
        Entry::Rendered => {
            let rendered = linter.render_string(sql, "<string>".to_string(), linter.config()).expect("render_string");
            let f = linter.lint_rendered(rendered, fix);
            let vs = viols(&f);
            (f.fix_string(), vs)
        }
        Entry::PathsFile => {
            let path = sc.dir.join("q.sql");
            std::fs::write(&path, sql).expect("write scratch file");
            let r = linter.lint_paths(vec![path], fix, &never);
            let f = r.paths.into_iter().flat_map(|d| d.files.into_iter()).next().expect("lint_paths returned no file");
            let vs = viols(&f);
            (f.fix_string(), vs)
        }
        Entry::PathsDir => {
            // two files in one directory argument: both are linted by the same Linter on the rayon pool
            let dir = sc.dir.join("d");
            std::fs::write(dir.join("main.sql"), sql).expect("write scratch file");
            std::fs::write(dir.join("other.sql"), sql.to_ascii_uppercase()).expect("write scratch file");
            let r = linter.lint_paths(vec![dir], fix, &never);
            let f = r.paths.into_iter().flat_map(|d| d.files.into_iter()).find(|f| f.path.ends_with("main.sql")).expect("lint_paths(dir) did not return main.sql");
            let vs = viols(&f);
            (f.fix_string(), vs)
        }
    })
}

/// Source slices of the leaves the property protects (comments, anything holding a quote character).
fn protected_slices(linter: &Linter, sql: &str) -> Option<Vec<(std::ops::Range<usize>, String)>> {
    catch(|| {
        let tables = Tables::default();
        let parsed = linter.parse_string(&tables, sql, None).ok()?;
        let tree = parsed.tree?;
        let mut v = vec![];
        for seg in tree.get_raw_segments() {
            let raw = seg.raw();
            let protected = seg.is_comment() || raw.contains('\'') || raw.contains('"') || raw.contains('`');
            if !protected {
                continue;
            }
            if let Some(pm) = seg.get_position_marker() {
                v.push((pm.source_slice.clone(), raw.to_string()));
            }
        }
        Some(v)
    })
    .ok()
    .flatten()
}

fn run_one(it: &Item, sc: &Scratch, out: &mut Buf) {
    out.count("files", 1);
    if it.sql.contains('\r') {
        out.count("skipped_cr", 1);
        return;
    }
    let mut linter = match catch(|| Linter::new(FluffConfig::from_source(&it.config, None), None, None, true)) {
        Ok(l) => l,
        Err(_) => {
            out.count("config_rejected", 1);
            return;
        }
    };
    let mut protected: Option<Option<Vec<(std::ops::Range<usize>, String)>>> = None;
    let mut reference: Option<String> = None;
    for entry in std::iter::once(Entry::Str).chain(it.entries.iter().copied()) {
        // `@entry` marks the observations made through another entry point than lint_string
        let at = if entry == Entry::Str { String::new() } else { format!("@{}", entry.name()) };
        out.count(&format!("entry_runs_{}", entry.name()), 1);
        let (fixed, log) = match observe(it, entry, &at, &mut linter, sc, &mut protected, out) {
            Some(x) => x,
            None => continue,
        };
        match &reference {
            None if entry == Entry::Str => reference = Some(fixed),
            Some(r) if *r != fixed => out.count("entry_fix_text_differs_from_lint_string", 1),
            _ => {}
        }
        correspond(it, entry, &log, out);
    }
}

/// The property observed through one entry point: fix, then lint and fix the result again through the same entry point.
fn observe(it: &Item, entry: Entry, at: &str, linter: &mut Linter, sc: &Scratch, protected: &mut Option<Option<Vec<(std::ops::Range<usize>, String)>>>, out: &mut Buf) -> Option<(String, Vec<CapsCall>)> {
    let input = json!({"dialect": it.dialect, "config": it.config, "sql": it.sql, "entry": entry.name()});
    let key_of = |what: &str| format!("c16-{}{}:{}:{:08x}", what, at, it.dialect, fnv(&format!("{}|{}", it.config, it.sql)));
    // ---- first fix, with the recorder on (it only sees calls made on this thread: not those of lint_paths' pool)
    CAPS_LOG.with(|l| *l.borrow_mut() = Some(Vec::new()));
    let r1 = run_entry(entry, linter, sc, &it.sql, true);
    let log: Vec<CapsCall> = CAPS_LOG.with(|l| l.borrow_mut().take()).unwrap_or_default();
    let (fixed, vs1) = match r1 {
        Ok(x) => x,
        Err(msg) => {
            out.count(&format!("panics{}", at), 1);
            let _ = msg; // crashes are C03's subject
            return None;
        }
    };
    out.count("handle_segment_calls", log.len());
    if fixed != it.sql {
        out.count(&format!("files_changed_by_fix{}", at), 1);
    }
    if !vs1.is_empty() {
        out.count(&format!("files_with_cp_violations{}", at), 1);
    }
    // ---- direct observations
    let case_only = ascii_lower(&fixed) == ascii_lower(&it.sql);
    out.direct(
        &format!("fix-changes-only-ascii-case{}", at),
        case_only,
        &key_of("case"),
        &format!(
            "{}: fix_string differs from the source by more than ASCII letter case (first difference at byte {:?}); fixed text: {:?}",
            entry.name(),
            ascii_lower(&fixed).iter().zip(ascii_lower(&it.sql).iter()).position(|(a, b)| a != b),
            trunc(&fixed, 300)
        ),
        input.clone(),
    );
    match run_entry(entry, linter, sc, &fixed, false) {
        Ok((_, vs)) => {
            let left: Vec<Viol> = vs.into_iter().filter(|v| v.0.starts_with("CP")).collect();
            out.direct(&format!("lint-of-fix-is-clean{}", at), left.is_empty(), &key_of("relint"), &format!("{}: linting the fixed text still reports {:?}; fixed text: {:?}", entry.name(), left, trunc(&fixed, 300)), input.clone());
        }
        Err(_) => out.count(&format!("relint_panicked{}", at), 1),
    }
    match run_entry(entry, linter, sc, &fixed, true) {
        Ok((fixed2, _)) => out.direct(&format!("fix-is-idempotent{}", at), fixed2 == fixed, &key_of("refix"), &format!("{}: fixing the fixed text changes it again: {:?} -> {:?}", entry.name(), trunc(&fixed, 200), trunc(&fixed2, 200)), input.clone()),
        Err(_) => out.count(&format!("refix_panicked{}", at), 1),
    }
    if case_only {
        // quoted identifiers, string literals, comments: byte-identical at the same offsets
        let prot = protected.get_or_insert_with(|| protected_slices(linter, &it.sql));
        if let Some(prot) = prot {
            let mut bad = vec![];
            for (sl, raw) in prot.iter() {
                if sl.end <= it.sql.len() && sl.end <= fixed.len() && it.sql.as_bytes()[sl.clone()] != fixed.as_bytes()[sl.clone()] {
                    bad.push(raw.clone());
                }
            }
            out.count("protected_leaves_checked", prot.len());
            out.direct(&format!("quoted-and-comments-untouched{}", at), bad.is_empty(), &key_of("protected"), &format!("{}: quoted identifier / literal / comment changed by the fix: {:?}", entry.name(), bad), input.clone());
        }
    }
    Some((fixed, log))
}

/// Correspondence: every recorded `handle_segment` call of the first fix replayed on the model.
fn correspond(it: &Item, entry: Entry, log: &[CapsCall], out: &mut Buf) {
    let input = json!({"dialect": it.dialect, "config": it.config, "sql": it.sql, "entry": entry.name()});
    // ---- correspondence: every recorded call
    let mut seen = BTreeSet::new();
    let mut prev_after: Option<(Vec<&'static str>, Option<String>)> = None;
    for c in log {
        if std::env::var("SQV_C16_DEBUG").is_ok() {
            eprintln!("CALL raw={:?} policy={} name={} before={:?}/{:?} after={:?}/{:?} fixed={:?}", c.raw, c.policy, c.policy_name, c.refuted_before, c.latest_before, c.refuted_after, c.latest_after, c.fixed);
        }
        // memory threads from call to call within a crawl; a new crawl starts empty
        let fresh = c.refuted_before.is_empty() && c.latest_before.is_none();
        let threaded = fresh || prev_after.as_ref().is_some_and(|(r, l)| r == &c.refuted_before && l == &c.latest_before);
        out.hyp("H_memory_threads", "blocking", threaded, json!({"input": input, "raw": c.raw, "before": c.refuted_before, "previous_after": prev_after.as_ref().map(|p| p.0.clone())}));
        prev_after = Some((c.refuted_after.clone(), c.latest_after.clone()));
        if c.description.as_deref() == Some("<panicked>") {
            // the rule body panicked inside handle_segment (caught by Rule::crawl and reported as a violation: C03's
            // subject); the call only explains the memory the next call starts from
            out.count("handle_segment_calls_that_panicked", 1);
            continue;
        }
        if !c.raw.is_ascii() || c.fixed.as_ref().is_some_and(|f| !f.is_ascii()) {
            out.count("non_ascii_calls_excluded", 1);
            continue;
        }
        let (Some(mb), Some(ma)) = (g_mem(&c.refuted_before, &c.latest_before), g_mem(&c.refuted_after, &c.latest_after)) else {
            out.count("calls_with_unknown_case_names", 1);
            continue;
        };
        let name = match c.policy_name.as_str() {
            "capitalisation_policy" => "Basic",
            "extended_capitalisation_policy" => "Extended",
            _ => {
                out.count("calls_with_unknown_policy_name", 1);
                continue;
            }
        };
        let args = g_tuple(&[name.to_string(), g_policy(&c.policy), mb, g_str(&c.raw), g_bool(c.templated)]);
        let exp = g_tuple(&[ma, g_opt(c.fixed.as_ref().map(|f| g_str(f)))]);
        if !seen.insert((args.clone(), exp.clone())) {
            continue;
        }
        // the same call shows up in many files: keep one correspondence case per distinct (args, expected)
        {
            use std::hash::{Hash, Hasher};
            let mut h = std::collections::hash_map::DefaultHasher::new();
            (&args, &exp).hash(&mut h);
            let fresh = GLOBAL_SEEN.get_or_init(Default::default).lock().unwrap().insert(h.finish());
            out.count("distinct_calls_seen_again_in_another_file", if fresh { 0 } else { 1 });
            if !fresh {
                continue;
            }
        }
        let cls = if c.policy == "consistent" { if name == "Basic" { "consistent-basic" } else { "consistent-extended" } } else { "concrete" };
        out.case(
            "call",
            cls,
            c.fixed.is_some(),
            args,
            exp,
            json!({"input": input, "call": {"raw": c.raw, "policy": c.policy, "policy_name": c.policy_name, "refuted_before": c.refuted_before, "latest_before": c.latest_before, "refuted_after": c.refuted_after, "latest_after": c.latest_after, "fixed": c.fixed}}),
        );
    }
}

pub fn main(args: &Args) {
    silence_panics();
    let mut out = Out::new(&args.out);
    let mut rng = Rng::new(args.seed);
    let mut items: Vec<Item> = vec![];
    if let Some(path) = args.flag("--replay-input") {
        let j: Value = serde_json::from_str(&std::fs::read_to_string(path).unwrap()).unwrap();
        let j = if j.get("input").is_some() { j["input"].clone() } else { j };
        // a replay goes through the recorded entry point (all of them when none is recorded) besides lint_string
        let entries: Vec<Entry> = match j["entry"].as_str().and_then(Entry::from_name) {
            Some(Entry::Str) => vec![],
            Some(e) => vec![e],
            None => ALT_ENTRIES.to_vec(),
        };
        items.push(Item { cls: "replay", dialect: j["dialect"].as_str().unwrap_or("ansi").to_string(), config: j["config"].as_str().unwrap_or("").to_string(), sql: j["sql"].as_str().unwrap_or("").to_string(), entries });
    } else {
        let none: [Option<String>; 5] = Default::default();
        // hand-written statements × every uniform policy × a few dialects, plus mixed policies
        for (i, s) in SNIPPETS.iter().enumerate() {
            for k in 0..POLICIES.len() + 2 {
                let pol = gen_policies(&mut rng, k);
                for d in ["ansi", DIALECTS[(i + k) % DIALECTS.len()]] {
                    items.push(Item { cls: "snippet", dialect: d.to_string(), config: mk_config(d, &pol, &none), sql: s.to_string(), entries: vec![] });
                }
                let ig = gen_ignore(&mut rng, s);
                items.push(Item { cls: "snippet-ignore-words", dialect: "ansi".into(), config: mk_config("ansi", &pol, &ig), sql: s.to_string(), entries: vec![] });
            }
        }
        let corpus = corpus();
        let (n_plain, n_scr) = if args.thorough() { (corpus.len(), 6000) } else { (140, 420) };
        let mut idx: Vec<usize> = (0..corpus.len()).collect();
        rng.shuffle(&mut idx);
        for &i in idx.iter().take(n_plain) {
            let f = &corpus[i];
            if f.text.len() > 5000 {
                continue;
            }
            let k = rng.below(POLICIES.len() + 4);
            let pol = gen_policies(&mut rng, k);
            let ig = gen_ignore(&mut rng, &f.text);
            items.push(Item { cls: "corpus", dialect: f.dialect.clone(), config: mk_config(&f.dialect, &pol, &ig), sql: f.text.clone(), entries: vec![] });
        }
        for _ in 0..n_scr {
            let f = &corpus[rng.below(corpus.len())];
            if f.text.len() > 5000 {
                continue;
            }
            let (sql, cls) = scramble(&mut rng, &f.text);
            let k = rng.below(POLICIES.len() + 4);
            let pol = gen_policies(&mut rng, k);
            let ig = gen_ignore(&mut rng, &sql);
            let d = if rng.chance(1, 6) { DIALECTS[rng.below(DIALECTS.len())].to_string() } else { f.dialect.clone() };
            items.push(Item { cls, dialect: d.clone(), config: mk_config(&d, &pol, &ig), sql, entries: vec![] });
        }
    }
    if args.flag("--replay-input").is_none() {
        // every input goes through every public entry point (lint_string first: it feeds the recorder)
        for it in items.iter_mut() {
            it.entries = ALT_ENTRIES.to_vec();
        }
    }
    par_run(&mut out, &items, Scratch::new, |sc, it, buf| {
        run_one(it, sc, buf);
        buf.count(&format!("items_{}", it.cls), 1);
    });
    let _ = std::fs::remove_dir_all(scratch_base());
    out.finish();
}
