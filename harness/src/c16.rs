//! C16 — not built yet.
use crate::common::*;

pub fn main(_args: &Args) {
    eprintln!("c16: not built yet");
    std::process::exit(2);
}
