//! C16 — capitalisation fixes change only letter case and reach the policy.
//! Only CP01..CP05 selected; dialect × per-kind policy × ignore_words × (corpus | case scrambles).
//! * direct: fix_string = source up to ASCII case; lint(fix) reports no CP violation; fix(fix) = fix;
//!   quoted identifiers / string literals / comments byte-identical.
//! * every direct observation is made through each public way of fixing a text, not only `lint_string`:
//!   `lint_paths` on a file and on a directory (the code path of `sqruff fix <file|dir>`),
//!   `render_string` + `lint_rendered`, `lint_string_wrapped`; fix, lint-of-fix and fix-of-fix all go
//!   through the same entry point.
//! * the command line is an entry point too: the `sqruff` binary built from the tree (`--sqruff <bin>`) is run as
//!   `sqruff fix --force <paths>` / `sqruff lint <paths>` / `sqruff fix -` over several shapes of the path
//!   argument list (one file, a directory, file + directory, an already clean argument next to dirty ones,
//!   a directory without SQL files, the working directory, stdin), configuration through `.sqruff` or `--config`.
//! * "reaches the policy" is read independently of the tool's own lint: `scope` walks the parse tree and lists,
//!   per element kind, the tokens the kind's policy applies to (crawled segment kinds, the documented
//!   exemptions, the exact-word ignore list, anchored ignore regexes). `policy-reached`: in the fixed text every
//!   such token is written in the configured case. `scope-visited`: during a lint every such token is handed to
//!   `handle_segment` (recorder), and no exempt token is (`H_exempt_tokens_not_visited`).
//! * group `crawl`: the calls of one whole crawl of one rule against the Gallina `trace` over the scope tokens
//!   (ties the ignore_words guard of `RuleCP01::eval` and the visiting set to the `pass` the theorems are about).
//! * group `call`: every recorded call of `handle_segment` (hook in cp01.rs: raw, policy, policy
//!   list name, memory before/after, result) replayed on the Gallina `handle`.
use std::collections::BTreeSet;

use serde_json::{Value, json};
use sqruff_lib::core::config::FluffConfig;
use sqruff_lib::core::linter::core::Linter;
use sqruff_lib::rules::capitalisation::cp01::verif_hook::{CAPS_LOG, CapsCall};
use sqruff_lib_core::parser::segments::base::Tables;

use crate::common::*;

static GLOBAL_SEEN: std::sync::OnceLock<std::sync::Mutex<std::collections::HashSet<u64>>> = std::sync::OnceLock::new();

const POLICIES: [&str; 5] = ["consistent", "upper", "lower", "capitalise", "pascal"];
/// (config section, policy key)
const KINDS: [(&str, &str); 5] = [
    ("capitalisation.keywords", "capitalisation_policy"),
    ("capitalisation.identifiers", "extended_capitalisation_policy"),
    ("capitalisation.functions", "extended_capitalisation_policy"),
    ("capitalisation.literals", "capitalisation_policy"),
    ("capitalisation.types", "extended_capitalisation_policy"),
];

struct Item {
    cls: &'static str,
    dialect: String,
    config: String,
    sql: String,
    /// entry points exercised besides `lint_string`
    entries: Vec<Entry>,
    /// counters of a placeholder-templated source (shorter, equal, longer values; leading placeholders)
    templ: Option<[usize; 4]>,
}

/// The public ways of linting / fixing one text (`crates/lib/src/core/linter/core.rs`).
#[derive(Clone, Copy, PartialEq, Eq, Debug)]
enum Entry {
    /// `Linter::lint_string`
    Str,
    /// `Linter::lint_paths(vec![file])` — `sqruff fix file.sql`
    PathsFile,
    /// `Linter::lint_paths(vec![dir])`, the directory holds a second file (both go through the rayon pool)
    PathsDir,
    /// `Linter::render_string` + `Linter::lint_rendered`
    Rendered,
    /// `Linter::lint_string_wrapped`
    Wrapped,
    /// the `sqruff` binary: `sqruff fix --force <args>` / `sqruff lint <args>`; index into `CLI_SHAPES`
    Cli(usize),
}
/// Shapes of the command line's path arguments. The scenario directory holds `top.sql` and `d1/main.sql` (the text
/// under test), `d1/other.sql` (the same text in upper case), `clean/ok.sql` (a text that already follows the
/// policy: the library's fix of the source) and `empty/readme.txt` (a directory without SQL files).
/// (name, arguments, configuration passed with `--config` instead of `.sqruff` in the working directory)
const CLI_SHAPES: [(&str, &[&str], bool); 10] = [
    ("cli-file", &["top.sql"], false),
    ("cli-file-config-flag", &["top.sql"], true),
    ("cli-dir", &["d1"], false),
    ("cli-file+dir", &["top.sql", "d1"], false),
    ("cli-clean-dir+dir+file", &["clean", "d1", "top.sql"], false),
    ("cli-file+clean-file", &["top.sql", "clean/ok.sql"], true),
    ("cli-dir+dir-without-sql", &["d1", "empty"], false),
    ("cli-dir-without-sql+file", &["empty", "top.sql"], false),
    ("cli-working-directory", &["."], false),
    ("cli-stdin", &["-"], false),
];
const ALT_ENTRIES: [Entry; 4] = [Entry::PathsFile, Entry::PathsDir, Entry::Rendered, Entry::Wrapped];
impl Entry {
    fn name(self) -> &'static str {
        match self {
            Entry::Str => "lint_string",
            Entry::PathsFile => "lint_paths-file",
            Entry::PathsDir => "lint_paths-dir",
            Entry::Rendered => "render_string+lint_rendered",
            Entry::Wrapped => "lint_string_wrapped",
            Entry::Cli(i) => CLI_SHAPES[i].0,
        }
    }
    fn from_name(s: &str) -> Option<Entry> {
        std::iter::once(Entry::Str).chain(ALT_ENTRIES).chain((0..CLI_SHAPES.len()).map(Entry::Cli)).find(|e| e.name() == s)
    }
}

/// Per-thread scratch directory for the path based entry points.
struct Scratch {
    dir: std::path::PathBuf,
    /// the `sqruff` binary built from the tree (`--sqruff`), if given
    sqruff: Option<std::path::PathBuf>,
}
fn scratch_base() -> std::path::PathBuf {
    // scratch lives under <verif>/.cache (SQV_SCRATCH is set by bin/vlib.py), not under /tmp
    std::env::var("SQV_SCRATCH").map(std::path::PathBuf::from).unwrap_or_else(|_| std::env::temp_dir()).join(format!("sqv-c16-{}", std::process::id()))
}
impl Scratch {
    fn new(sqruff: Option<std::path::PathBuf>) -> Scratch {
        static N: std::sync::atomic::AtomicUsize = std::sync::atomic::AtomicUsize::new(0);
        let dir = scratch_base().join(format!("t{}", N.fetch_add(1, std::sync::atomic::Ordering::SeqCst)));
        std::fs::create_dir_all(dir.join("d")).expect("scratch dir");
        Scratch { dir, sqruff }
    }
}

/// per kind: `ignore_words`, `ignore_words_regex`
#[derive(Default, Clone)]
struct Ignore {
    words: [Option<String>; 5],
    regex: [Option<String>; 5],
}

fn mk_config(dialect: &str, pol: &[&str; 5], ignore: &Ignore) -> String {
    let mut s = format!("[sqruff]\ndialect = {}\nrules = CP01,CP02,CP03,CP04,CP05\n", dialect);
    for (i, (sec, key)) in KINDS.iter().enumerate() {
        s.push_str(&format!("[sqruff:rules:{}]\n{} = {}\n", sec, key, pol[i]));
        if let Some(w) = &ignore.words[i] {
            s.push_str(&format!("ignore_words = {}\n", w));
        }
        if let Some(w) = &ignore.regex[i] {
            s.push_str(&format!("ignore_words_regex = {}\n", w));
        }
    }
    s
}

fn fnv(s: &str) -> u32 {
    let mut h: u32 = 0x811c9dc5;
    for b in s.as_bytes() {
        h ^= *b as u32;
        h = h.wrapping_mul(0x01000193);
    }
    h
}

// ---------------------------------------------------------------- generators
fn scramble(rng: &mut Rng, sql: &str) -> (String, &'static str) {
    let mode = rng.below(5);
    let mut out = String::with_capacity(sql.len());
    match mode {
        0 => (sql.to_ascii_uppercase(), "scramble-upper"),
        1 => (sql.to_ascii_lowercase(), "scramble-lower"),
        2 => {
            for c in sql.chars() {
                out.push(if c.is_ascii_alphabetic() && rng.chance(1, 2) { if c.is_ascii_lowercase() { c.to_ascii_uppercase() } else { c.to_ascii_lowercase() } } else { c });
            }
            (out, "scramble-per-char")
        }
        _ => {
            // per word: upper / lower / Capitalised / camelCase / as is
            let mut word = String::new();
            let flush = |rng: &mut Rng, word: &mut String, out: &mut String| {
                if word.is_empty() {
                    return;
                }
                let w = std::mem::take(word);
                let r = match rng.below(6) {
                    0 => w.to_ascii_uppercase(),
                    1 => w.to_ascii_lowercase(),
                    2 => {
                        let mut cs = w.chars();
                        let f = cs.next().unwrap();
                        format!("{}{}", f.to_ascii_uppercase(), cs.as_str().to_ascii_lowercase())
                    }
                    3 => {
                        let mut cs = w.chars();
                        let f = cs.next().unwrap();
                        let rest: String = cs.enumerate().map(|(i, c)| if i % 3 == 2 { c.to_ascii_uppercase() } else { c.to_ascii_lowercase() }).collect();
                        format!("{}{}", f.to_ascii_lowercase(), rest)
                    }
                    _ => w,
                };
                out.push_str(&r);
            };
            for c in sql.chars() {
                if c.is_ascii_alphanumeric() || c == '_' {
                    word.push(c);
                } else {
                    flush(rng, &mut word, &mut out);
                    out.push(c);
                }
            }
            flush(rng, &mut word, &mut out);
            (out, if mode == 3 { "scramble-per-word" } else { "scramble-per-word-2" })
        }
    }
}

fn words_of(sql: &str) -> Vec<String> {
    let mut set = BTreeSet::new();
    for w in sql.split(|c: char| !(c.is_ascii_alphanumeric() || c == '_')) {
        if !w.is_empty() && w.len() < 24 && w.chars().next().unwrap().is_ascii_alphabetic() {
            set.insert(w.to_ascii_lowercase());
        }
    }
    set.into_iter().collect()
}

fn gen_policies(rng: &mut Rng, k: usize) -> [&'static str; 5] {
    if k < POLICIES.len() {
        [POLICIES[k]; 5]
    } else {
        let mut p = ["consistent"; 5];
        for x in p.iter_mut() {
            *x = POLICIES[rng.below(POLICIES.len())];
        }
        p
    }
}

/// the words of the text as written (case kept)
fn words_cased(sql: &str) -> Vec<String> {
    let mut set = BTreeSet::new();
    for w in sql.split(|c: char| !(c.is_ascii_alphanumeric() || c == '_')) {
        if !w.is_empty() && w.len() < 24 && w.chars().next().unwrap().is_ascii_alphabetic() {
            set.insert(w.to_string());
        }
    }
    set.into_iter().collect()
}

/// A part of a word: a piece between underscores, or its first / last two or three characters. An ignore list
/// holding such a part must not exempt the whole word.
fn fragment(rng: &mut Rng, w: &str) -> String {
    let pieces: Vec<&str> = w.split('_').filter(|p| !p.is_empty()).collect();
    let f = match rng.below(3) {
        0 if pieces.len() > 1 => pieces[rng.below(pieces.len())].to_string(),
        1 if w.len() > 3 => w[..rng.range(2, 3)].to_string(),
        _ if w.len() > 3 => w[w.len() - rng.range(2, 3)..].to_string(),
        _ => w.to_string(),
    };
    if f.chars().next().is_some_and(|c| c.is_ascii_alphabetic()) { f } else { w.to_string() }
}

/// words the configuration parser does not read as a string
fn odd_config_word(w: &str) -> bool {
    w.parse::<f64>().is_ok() || ["none", "true", "false"].iter().any(|k| w.eq_ignore_ascii_case(k))
}

fn gen_ignore(rng: &mut Rng, sql: &str) -> Ignore {
    let mut ig = Ignore::default();
    if rng.chance(1, 2) {
        return ig;
    }
    let ws = words_of(sql);
    let wc = words_cased(sql);
    if ws.is_empty() {
        return ig;
    }
    for i in 0..5 {
        if rng.chance(1, 2) {
            let n = rng.range(1, 3);
            // whole words of the text, or parts of its words
            let mut picked: Vec<String> = (0..n)
                .map(|_| {
                    let w = ws[rng.below(ws.len())].clone();
                    if rng.chance(1, 3) { fragment(rng, &w) } else { w }
                })
                .filter(|w| !odd_config_word(w))
                .collect();
            if picked.is_empty() {
                continue;
            }
            if rng.chance(1, 3) {
                picked[0] = picked[0].to_ascii_uppercase(); // the config lower-cases them
            }
            ig.words[i] = Some(picked.join(","));
        }
        if rng.chance(1, 5) {
            // anchored regular expressions over a word (or a part of one) as written in the text
            let n = rng.range(1, 2);
            let picked: Vec<String> = (0..n)
                .map(|_| {
                    let w = wc[rng.below(wc.len())].clone();
                    let w = if rng.chance(1, 2) { fragment(rng, &w) } else { w };
                    match rng.below(3) {
                        0 => format!("^{}", w),
                        1 => format!("{}$", w),
                        _ => format!("^{}$", w),
                    }
                })
                .collect();
            ig.regex[i] = Some(picked.join(","));
        }
    }
    ig
}

/// hand-written statements mixing the five element kinds, awkward identifiers included
const SNIPPETS: &[&str] = &[
    "SELECT Ab, a_, AB FROM t\n",
    "select Ab, a_, FooBar, x1 from Tbl where a_ is NULL and b = True\n",
    "SeLeCt Sum(a), count(b), COALESCE(c, 1) fRoM t gRoUp By a\n",
    "CREATE TABLE t (a int, b VARCHAR(10), c Timestamp, d Double Precision)\n",
    "select cast(a as INT), cast(b as varchar(3)), Cast(c AS Date) from t\n",
    "SELECT \"MiXed\", 'LiTeRaL', `Back`, a -- CoMMent Select\nFROM t /* BLOCK select */\n",
    "select a, B, c_D, _e, f_, G1 from t1 JOIN t2 on t1.a = T2.a\n",
    "SELECT null, NULL, Null, true, FALSE, False FROM t\n",
    "select current_date, CURRENT_TIMESTAMP, Current_Time from t\n",
    "SELECT a FROM t WHERE a IN (1, 2) AND b LIKE 'x' or c between 1 AND 2\n",
    "select * from t order by a ASC, b desc NULLS first\n",
    "INSERT INTO t (A, b) VALUES (1, 'x')\n",
    "select date_part('year', d), EXTRACT(Year FROM d), dateadd(DAY, 1, d) from t\n",
    // string literals with a prefix letter, both cases of the prefix (a dialect that does not know the form sees a word and a string)
    "select b'ab', B'ab', r'x', R'x', x'1f', X'1F', e'a', E'a', n'a', N'a', rb'q', Br'q' from t\n",
    "SELECT B\"ab\", R\"x\", b\"c\" FROM t WHERE a = X'00' AND b = E'\\n'\n",
];

// ---------------------------------------------------------------- run one item
fn ascii_lower(s: &str) -> Vec<u8> {
    s.bytes().map(|b| b.to_ascii_lowercase()).collect()
}

fn case_name(s: &str) -> Option<&'static str> {
    match s {
        "upper" => Some("Upper"),
        "lower" => Some("Lower"),
        "capitalise" => Some("Capitalise"),
        "pascal" => Some("Pascal"),
        _ => None,
    }
}
fn g_mem(refuted: &[&'static str], latest: &Option<String>) -> Option<String> {
    let has = |n: &str| g_bool(refuted.contains(&n));
    if refuted.iter().any(|r| case_name(r).is_none()) {
        return None;
    }
    let lt = match latest {
        None => "None".to_string(),
        Some(l) => format!("(Some {})", case_name(l)?),
    };
    Some(format!("(mkm {} {} {} {} {})", has("upper"), has("lower"), has("capitalise"), has("pascal"), lt))
}
fn g_policy(p: &str) -> String {
    match p {
        "consistent" => "Consistent".into(),
        other => match case_name(other) {
            Some(c) => format!("(Concrete {})", c),
            None => "OtherPolicy".into(),
        },
    }
}

type Viol = (String, usize, usize);

fn viols(f: &sqruff_lib::core::linter::linted_file::LintedFile) -> Vec<Viol> {
    f.violations.iter().filter_map(|v| v.rule.as_ref().map(|r| (r.code.to_string(), v.line_no, v.line_pos))).collect()
}


// ---------------------------------------------------------------- which tokens a policy applies to
/// An `ignore_words_regex` entry of the shapes the generator writes (the regex engine is not re-implemented).
#[derive(Clone, Debug)]
enum SimpleRe {
    Prefix(String),
    Suffix(String),
    Exact(String),
}
impl SimpleRe {
    fn parse(s: &str) -> Option<SimpleRe> {
        let body = s.trim_start_matches('^').trim_end_matches('$');
        if body.is_empty() || !body.chars().all(|c| c.is_ascii_alphanumeric() || c == '_') {
            return None;
        }
        match (s.starts_with('^'), s.ends_with('$')) {
            (true, true) if s.len() == body.len() + 2 => Some(SimpleRe::Exact(body.into())),
            (true, false) if s.len() == body.len() + 1 => Some(SimpleRe::Prefix(body.into())),
            (false, true) if s.len() == body.len() + 1 => Some(SimpleRe::Suffix(body.into())),
            _ => None,
        }
    }
    fn is_match(&self, raw: &str) -> bool {
        match self {
            SimpleRe::Prefix(p) => raw.starts_with(p.as_str()),
            SimpleRe::Suffix(p) => raw.ends_with(p.as_str()),
            SimpleRe::Exact(p) => raw == p,
        }
    }
}

/// What the configuration says about one element kind.
#[derive(Clone, Debug, Default)]
struct KindCfg {
    policy: String,
    /// `ignore_words`, lower-cased
    words: Vec<String>,
    regex: Vec<SimpleRe>,
}

/// Reads the configuration text back (the format `mk_config` writes; replays carry only the text).
/// `None`: a value this reading does not cover (the scope observations are then skipped and counted).
fn parse_cfg(config: &str) -> Option<[KindCfg; 5]> {
    let mut out: [KindCfg; 5] = Default::default();
    for k in out.iter_mut() {
        k.policy = "consistent".into();
    }
    let mut cur: Option<usize> = None;
    for line in config.lines() {
        let line = line.trim();
        if let Some(sec) = line.strip_prefix('[').and_then(|l| l.strip_suffix(']')) {
            cur = sec.strip_prefix("sqruff:rules:").and_then(|name| KINDS.iter().position(|(s, _)| *s == name));
            // the placeholder templater's section (style and parameter values) says nothing about the rules
            if cur.is_none() && sec != "sqruff" && sec != "sqruff:templater:placeholder" {
                return None;
            }
            continue;
        }
        let Some(i) = cur else { continue };
        let Some((key, val)) = line.split_once('=') else { continue };
        let (key, val) = (key.trim(), val.trim());
        if key == KINDS[i].1 {
            out[i].policy = val.to_string();
        } else if key == "ignore_words" {
            if val.parse::<f64>().is_ok() {
                return None;
            }
            if val.eq_ignore_ascii_case("none") {
                continue;
            }
            out[i].words = val.split(',').map(|w| w.to_lowercase()).collect();
        } else if key == "ignore_words_regex" {
            if val.eq_ignore_ascii_case("none") {
                continue;
            }
            for r in val.split(',') {
                out[i].regex.push(SimpleRe::parse(r)?);
            }
        } else {
            return None;
        }
    }
    Some(out)
}

/// One token a kind's policy applies to.
#[derive(Clone, Debug)]
struct Tok {
    raw: String,
    templated: bool,
    /// its lower-cased text is on the kind's `ignore_words`
    ignored_word: bool,
    /// it matches one of the kind's `ignore_words_regex`
    ignored_regex: bool,
}
impl Tok {
    fn exempt(&self) -> bool {
        self.ignored_word || self.ignored_regex
    }
}

use sqruff_lib_core::dialects::syntax::SyntaxKind;
use sqruff_lib_core::parser::segments::base::ErasedSegment;

/// The element kinds, read off the parse tree (kind index as in `KINDS`), in crawl order:
/// * keywords: segments of kind keyword, binary_operator, date_part;
/// * identifiers: naked_identifier, properties_naked_identifier (sparksql keeps the case-sensitive table
///   property `enableChangeDataFeed`);
/// * functions: function_name_identifier, bare_function;
/// * literals: null_literal, boolean_literal;
///   (a quoted function name, BigQuery's `` `project.dataset.fn`(x) ``, is a quoted identifier: out of scope);
///   — for these four not directly inside a data type (data_type, datetime_type_identifier, primitive_type: the
///   types policy's domain), inside a naked identifier, or inside a qualified (multi-part) function name;
/// * types: the leaf children of data_type / primitive_type / datetime_type_identifier nodes other than symbols,
///   identifiers, quoted identifiers (a quoted user-defined type name) and quoted literals.
/// `ignore_words` exempts a token whose lower-cased text is on the list, `ignore_words_regex` one that matches;
/// the types rule reads neither list.
/// Does the token come out of a placeholder's value? Read off the templater's slice table (`sliced_file`), not
/// through `is_templated` / `is_source_slice_literal` (the code under observation).
fn in_placeholder(seg: &ErasedSegment) -> bool {
    let Some(pm) = seg.get_position_marker() else { return false };
    let ts = &pm.templated_slice;
    pm.templated_file.sliced_file.iter().any(|s| s.slice_type != "literal" && s.templated_slice.start < ts.end && ts.start < s.templated_slice.end)
}

fn scope(tree: &ErasedSegment, dialect: &str, cfg: &[KindCfg; 5]) -> [Vec<Tok>; 5] {
    const CRAWLED: [&[SyntaxKind]; 4] = [
        &[SyntaxKind::Keyword, SyntaxKind::BinaryOperator, SyntaxKind::DatePart],
        &[SyntaxKind::NakedIdentifier, SyntaxKind::PropertiesNakedIdentifier],
        &[SyntaxKind::FunctionNameIdentifier, SyntaxKind::BareFunction],
        &[SyntaxKind::NullLiteral, SyntaxKind::BooleanLiteral],
    ];
    const TYPE_NODES: [SyntaxKind; 3] = [SyntaxKind::PrimitiveType, SyntaxKind::DatetimeTypeIdentifier, SyntaxKind::DataType];
    fn tok(seg: &ErasedSegment, k: &KindCfg, lists: bool) -> Tok {
        let raw = seg.raw().to_string();
        Tok {
            templated: in_placeholder(seg),
            ignored_word: lists && k.words.contains(&raw.to_lowercase()),
            ignored_regex: lists && k.regex.iter().any(|r| r.is_match(&raw)),
            raw,
        }
    }
    fn walk(seg: &ErasedSegment, parent: Option<&ErasedSegment>, dialect: &str, cfg: &[KindCfg; 5], out: &mut [Vec<Tok>; 5]) {
        let ty = seg.get_type();
        for (k, kinds) in CRAWLED.iter().enumerate() {
            if !kinds.contains(&ty) {
                continue;
            }
            let Some(parent) = parent else { continue };
            let pty = parent.get_type();
            if k == 1 && dialect == "sparksql" && pty == SyntaxKind::PropertyNameIdentifier && seg.raw() == "enableChangeDataFeed" {
                continue;
            }
            if TYPE_NODES.contains(&pty) || pty == SyntaxKind::NakedIdentifier {
                continue;
            }
            if pty == SyntaxKind::FunctionName && parent.segments().len() != 1 {
                continue;
            }
            if k == 2 && seg.raw().starts_with(['`', '"']) {
                continue; // a quoted function name is a quoted identifier
            }
            out[k].push(tok(seg, &cfg[k], true));
        }
        if TYPE_NODES.contains(&ty) {
            for child in seg.segments() {
                let cty = child.get_type();
                if cty == SyntaxKind::Symbol || cty == SyntaxKind::Identifier || cty == SyntaxKind::QuotedIdentifier || cty == SyntaxKind::QuotedLiteral || !child.segments().is_empty() {
                    continue;
                }
                out[4].push(tok(child, &cfg[4], false));
            }
        }
        for child in seg.segments() {
            walk(child, Some(seg), dialect, cfg, out);
        }
    }
    let mut out: [Vec<Tok>; 5] = Default::default();
    walk(tree, None, dialect, cfg, &mut out);
    out
}

/// kind index of a recorded call: the rule's element name, and for the two rules that share one the segment kind
fn kind_of_call(c: &CapsCall) -> Option<usize> {
    match c.elem.as_str() {
        "Unquoted identifiers" => Some(1),
        "Function names" => Some(2),
        "Datatypes" => Some(4),
        "Boolean/null literals" => Some(3),
        "Keywords" => Some(if c.seg_type == "null_literal" || c.seg_type == "boolean_literal" { 3 } else { 0 }),
        _ => None,
    }
}

/// The four concrete cases on an ASCII token (`None`: not ASCII, or not a concrete policy name).
fn apply_case(policy: &str, raw: &str) -> Option<String> {
    if !raw.is_ascii() {
        return None;
    }
    Some(match policy {
        "upper" => raw.to_ascii_uppercase(),
        "lower" => raw.to_ascii_lowercase(),
        "capitalise" => {
            let mut cs = raw.chars();
            match cs.next() {
                Some(f) => format!("{}{}", f.to_ascii_uppercase(), cs.as_str().to_ascii_lowercase()),
                None => String::new(),
            }
        }
        "pascal" => {
            let mut prev = false;
            raw.chars()
                .map(|c| {
                    let r = if c.is_ascii_alphanumeric() && !prev { c.to_ascii_uppercase() } else { c };
                    prev = c.is_ascii_alphanumeric();
                    r
                })
                .collect()
        }
        _ => return None,
    })
}

// ---------------------------------------------------------------- placeholder-templated sources
/// (style, the character that must not occur in the text before templatising, positional)
const PH_STYLES: [(&str, char, bool); 9] = [
    ("colon", ':', false),
    ("numeric_colon", ':', false),
    ("pyformat", '%', false),
    ("dollar", '$', false),
    ("numeric_dollar", '$', false),
    ("question_mark", '?', true),
    ("percent", '%', true),
    ("ampersand", '&', false),
    ("ampersand", '&', false),
];

/// What `templatise` did to a text.
struct Templated {
    sql: String,
    style: &'static str,
    params: Vec<(String, String)>,
    /// placeholders whose value is shorter / as long as / longer than the placeholder text
    shorter: usize,
    equal: usize,
    longer: usize,
    /// placeholders that are the first token of their syntax element (select element, from element, expression ...)
    leading: usize,
}

/// Turn `text` into a source for the placeholder templater that renders back to `text`: whole tokens (naked
/// identifiers, integer literals, simple quoted strings, function names and — `keywords` — any word) found by the
/// dialect's own lexer/parser are replaced by placeholders of a random style whose parameter value is the token's
/// text. Names are short or long, so values are shorter, as long as, or longer than the placeholder; any token can
/// go, so placeholders start, sit inside and end syntax elements, with tokens to re-case before and after them.
fn templatise(rng: &mut Rng, linter: &Linter, text: &str, density: (usize, usize), keywords: bool) -> Option<Templated> {
    if !text.is_ascii() || text.contains('\r') {
        return None;
    }
    let styles: Vec<&(&str, char, bool)> = PH_STYLES.iter().filter(|s| !text.contains(s.1)).collect();
    if styles.is_empty() {
        return None;
    }
    let &&(style, _, positional) = rng.pick(&styles);
    let numeric = style.starts_with("numeric");
    let tree = parse_tree(linter, text)?;
    let mut out = String::new();
    let mut params = vec![];
    let (mut shorter, mut equal, mut longer, mut leading) = (0, 0, 0, 0);
    let mut pos = 0usize;
    let mut n = 0usize;
    // first leaves of the syntax elements (any node with more than one code leaf)
    let mut firsts: std::collections::HashSet<usize> = Default::default();
    fn mark(seg: &ErasedSegment, firsts: &mut std::collections::HashSet<usize>) {
        if seg.segments().is_empty() {
            return;
        }
        let leaves: Vec<ErasedSegment> = seg.get_raw_segments().into_iter().filter(|l| l.is_code()).collect();
        if leaves.len() > 1 {
            if let Some(pm) = leaves[0].get_position_marker() {
                firsts.insert(pm.source_slice.start);
            }
        }
        for c in seg.segments() {
            mark(c, firsts);
        }
    }
    mark(&tree, &mut firsts);
    for leaf in tree.get_raw_segments() {
        let Some(pm) = leaf.get_position_marker() else { continue };
        let sl = pm.source_slice.clone();
        if sl.start < pos || sl.end > text.len() || sl.is_empty() || text.get(sl.clone()) != Some(leaf.raw().as_str()) {
            continue;
        }
        let raw = &text[sl.clone()];
        let word = raw.bytes().all(|b| b.is_ascii_alphanumeric() || b == b'_') && !raw.as_bytes()[0].is_ascii_digit();
        let eligible = match leaf.get_type() {
            SyntaxKind::NakedIdentifier | SyntaxKind::FunctionNameIdentifier => word,
            SyntaxKind::NumericLiteral => raw.len() <= 9 && raw.bytes().all(|b| b.is_ascii_digit()) && (raw.len() == 1 || !raw.starts_with('0')),
            SyntaxKind::QuotedLiteral => raw.len() > 2 && raw.starts_with('\'') && raw.ends_with('\'') && raw[1..raw.len() - 1].bytes().all(|b| b.is_ascii_alphanumeric() || b == b'_'),
            SyntaxKind::Keyword | SyntaxKind::NullLiteral | SyntaxKind::BooleanLiteral | SyntaxKind::DataTypeIdentifier => keywords && word,
            _ => false,
        };
        // values the ini reader would turn into something else
        let ini_odd = ["true", "false", "none"].contains(&raw.to_ascii_lowercase().as_str());
        // the placeholder regexes look at the neighbouring characters
        let before_ok = sl.start == 0 || !matches!(text.as_bytes()[sl.start - 1], b'a'..=b'z' | b'A'..=b'Z' | b'0'..=b'9' | b'_' | b'\\' | b':' | b'&' | b'$' | b'%');
        let after_ok = sl.end == text.len() || !matches!(text.as_bytes()[sl.end], b'a'..=b'z' | b'A'..=b'Z' | b'0'..=b'9' | b'_' | b':' | b'}');
        if !eligible || ini_odd || !before_ok || !after_ok || !rng.chance(density.0, density.1) {
            continue;
        }
        n += 1;
        let name = if positional || numeric {
            n.to_string()
        } else {
            match rng.below(4) {
                0 => format!("p{}", n),
                1 => format!("v{}", n),
                2 => format!("param_{}", n),
                _ => format!("a_rather_long_parameter_name_{}", n),
            }
        };
        let braces = rng.chance(1, 2);
        let ph = match style {
            "colon" | "numeric_colon" => format!(":{}", name),
            "pyformat" => format!("%({})s", name),
            "dollar" | "numeric_dollar" => if braces { format!("${{{}}}", name) } else { format!("${}", name) },
            "question_mark" => "?".to_string(),
            "percent" => "%s".to_string(),
            _ => if braces { format!("&{{{}}}", name) } else { format!("&{}", name) },
        };
        match raw.len().cmp(&ph.len()) {
            std::cmp::Ordering::Less => shorter += 1,
            std::cmp::Ordering::Equal => equal += 1,
            std::cmp::Ordering::Greater => longer += 1,
        }
        if firsts.contains(&sl.start) {
            leading += 1;
        }
        out.push_str(&text[pos..sl.start]);
        out.push_str(&ph);
        params.push((name, raw.to_string()));
        pos = sl.end;
    }
    out.push_str(&text[pos..]);
    if n == 0 {
        return None;
    }
    Some(Templated { sql: out, style, params, shorter, equal, longer, leading })
}

/// The configuration text with the placeholder templater switched on; `None` when the ini reader does not hand
/// every parameter value back as written (the text is all a replay or the command line gets).
fn templated_config(config: &str, t: &Templated) -> Option<String> {
    let head = "rules = CP01,CP02,CP03,CP04,CP05\n";
    let at = config.find(head)? + head.len();
    let mut s = format!("{}templater = placeholder\n{}[sqruff:templater:placeholder]\nparam_style = {}\n", &config[..at], &config[at..], t.style);
    for (k, v) in &t.params {
        s.push_str(&format!("{} = {}\n", k, v));
    }
    let cfg = catch(|| FluffConfig::from_source(&s, None)).ok()?;
    let m = cfg.raw.get("templater")?.as_map()?.get("placeholder")?.as_map()?;
    for (k, v) in &t.params {
        let x = m.get(k.as_str())?;
        let back = match (x.as_string(), x.as_int()) {
            (Some(s), None) => s.to_string(),
            (None, Some(i)) => i.to_string(),
            _ => return None,
        };
        if back != *v {
            return None;
        }
    }
    Some(s)
}

fn parse_tree(linter: &Linter, sql: &str) -> Option<ErasedSegment> {
    catch(|| {
        let tables = Tables::default();
        linter.parse_string(&tables, sql, None).ok()?.tree
    })
    .ok()
    .flatten()
}

/// What one run through an entry point gave.
struct EntryOut {
    /// the text after the run (`fix_string`, or the file's content after `sqruff fix`)
    text: String,
    viols: Vec<Viol>,
    /// command line only: the copies of the text under test did not all end up the same (names and texts)
    copies_differ: Option<String>,
}
fn entry_out(f: sqruff_lib::core::linter::linted_file::LintedFile) -> EntryOut {
    let viols = viols(&f);
    EntryOut { text: f.fix_string(), viols, copies_differ: None }
}

/// Lint (`fix = false`) or fix (`fix = true`) `sql` through the public entry point `entry`:
/// the resulting text (`fix_string`) and the rule violations reported.
/// `clean`: a text that already follows the policy under `config` (only the command line scenarios use it).
fn run_entry(entry: Entry, linter: &mut Linter, sc: &Scratch, config: &str, clean: Option<&str>, sql: &str, fix: bool) -> Result<EntryOut, String> {
    let never = |_: &std::path::Path| false;
    if let Entry::Cli(shape) = entry {
        return cli_entry(shape, sc, config, clean.unwrap_or(""), sql, fix);
    }
    catch(move || match entry {
        Entry::Str => entry_out(linter.lint_string(sql, None, fix)),
        Entry::Wrapped => {
            let r = linter.lint_string_wrapped(sql, fix);
            let f = r.paths.into_iter().flat_map(|d| d.files.into_iter()).next().expect("lint_string_wrapped returned no file");
            entry_out(f)
        }
        Entry::Rendered => {
            let rendered = linter.render_string(sql, "<string>".to_string(), linter.config()).expect("render_string");
            entry_out(linter.lint_rendered(rendered, fix))
        }
        Entry::PathsFile => {
            let path = sc.dir.join("q.sql");
            std::fs::write(&path, sql).expect("write scratch file");
            let r = linter.lint_paths(vec![path], fix, &never);
            let f = r.paths.into_iter().flat_map(|d| d.files.into_iter()).next().expect("lint_paths returned no file");
            entry_out(f)
        }
        Entry::PathsDir => {
            // two files in one directory argument: both are linted by the same Linter on the rayon pool
            let dir = sc.dir.join("d");
            std::fs::write(dir.join("main.sql"), sql).expect("write scratch file");
            std::fs::write(dir.join("other.sql"), sql.to_ascii_uppercase()).expect("write scratch file");
            let r = linter.lint_paths(vec![dir], fix, &never);
            let f = r.paths.into_iter().flat_map(|d| d.files.into_iter()).find(|f| f.path.ends_with("main.sql")).expect("lint_paths(dir) did not return main.sql");
            entry_out(f)
        }
        Entry::Cli(_) => unreachable!(),
    })
}

/// `sqruff fix --force <args>` / `sqruff lint <args>` of the binary built from the tree, in a fresh scenario directory.
fn cli_entry(shape: usize, sc: &Scratch, config: &str, clean: &str, sql: &str, fix: bool) -> Result<EntryOut, String> {
    use std::io::Write;
    use std::process::{Command, Stdio};
    let (_, paths, config_flag) = CLI_SHAPES[shape];
    let bin = sc.sqruff.as_ref().ok_or("no sqruff binary")?;
    let dir = sc.dir.join("cli");
    let _ = std::fs::remove_dir_all(&dir);
    let io = |e: std::io::Error| format!("scenario directory: {e}");
    for d in ["d1", "clean", "empty"] {
        std::fs::create_dir_all(dir.join(d)).map_err(io)?;
    }
    std::fs::write(dir.join(if config_flag { "cfg.ini" } else { ".sqruff" }), config).map_err(io)?;
    std::fs::write(dir.join("top.sql"), sql).map_err(io)?;
    std::fs::write(dir.join("d1/main.sql"), sql).map_err(io)?;
    std::fs::write(dir.join("d1/other.sql"), sql.to_ascii_uppercase()).map_err(io)?;
    std::fs::write(dir.join("clean/ok.sql"), clean).map_err(io)?;
    std::fs::write(dir.join("empty/readme.txt"), "no SQL here\n").map_err(io)?;
    let stdin = paths == ["-"];
    let mut cmd = Command::new(bin);
    cmd.current_dir(&dir).env("RUST_BACKTRACE", "0").env("NO_COLOR", "1").env("RAYON_NUM_THREADS", "2").env_remove("GITHUB_ACTIONS");
    cmd.arg(if fix { "fix" } else { "lint" });
    if fix && !stdin {
        cmd.arg("--force");
    }
    if config_flag {
        cmd.args(["--config", "cfg.ini"]);
    }
    cmd.args(paths).stdout(Stdio::piped()).stderr(Stdio::piped()).stdin(if stdin { Stdio::piped() } else { Stdio::null() });
    let mut child = cmd.spawn().map_err(|e| format!("spawn: {e}"))?;
    if stdin {
        if let Some(mut si) = child.stdin.take() {
            let _ = si.write_all(sql.as_bytes());
        }
    }
    let o = child.wait_with_output().map_err(|e| format!("wait: {e}"))?;
    let (stdout, stderr) = (String::from_utf8_lossy(&o.stdout).to_string(), String::from_utf8_lossy(&o.stderr).to_string());
    if o.status.code().is_none_or(|c| c > 1) {
        return Err(format!("sqruff ended with {:?}: {}", o.status, trunc(&stderr, 300)));
    }
    // the copies of the text under test that the arguments cover
    let mut mains: Vec<&str> = vec![];
    if paths.contains(&"top.sql") || paths.contains(&".") {
        mains.push("top.sql");
    }
    if paths.contains(&"d1") || paths.contains(&".") {
        mains.push("d1/main.sql");
    }
    // violations of those copies in the human format: `== [path] FAIL`, `L:  1 | P:  1 | CP01 | ...`
    let mut vs: Vec<Viol> = vec![];
    let mut on_main = false;
    for line in stderr.lines() {
        if let Some(rest) = line.strip_prefix("== [") {
            let name = rest.rsplit_once("] ").map(|x| x.0).unwrap_or(rest);
            on_main = stdin || mains.iter().any(|m| name.ends_with(m));
        } else if let Some(rest) = line.strip_prefix("L:") {
            let parts: Vec<&str> = rest.splitn(4, " | ").collect();
            if on_main && parts.len() >= 3 && parts[1].starts_with("P:") {
                vs.push((parts[2].trim().to_string(), parts[0].trim().parse().unwrap_or(0), parts[1][2..].trim().parse().unwrap_or(0)));
            }
        }
    }
    let mut texts: Vec<(String, String)> = vec![];
    if stdin {
        // `sqruff fix -` prints the fixed text and a line break
        let t = if fix { stdout.strip_suffix('\n').unwrap_or(&stdout).to_string() } else { sql.to_string() };
        texts.push(("<stdin>".into(), t));
    } else {
        for m in &mains {
            texts.push((m.to_string(), std::fs::read_to_string(dir.join(m)).map_err(io)?));
        }
    }
    let copies_differ = if texts.iter().any(|t| t.1 != texts[0].1) { Some(format!("{:?}", texts.iter().map(|t| (t.0.clone(), trunc(&t.1, 200))).collect::<Vec<_>>())) } else { None };
    // a copy the command left unfixed is what the property is judged on
    let text = texts.iter().find(|t| t.1 == sql).or(texts.first()).map(|t| t.1.clone()).unwrap_or_default();
    Ok(EntryOut { text, viols: vs, copies_differ })
}

/// Source slices of the leaves the property protects (comments, anything holding a quote character).
fn protected_slices(linter: &Linter, sql: &str) -> Option<Vec<(std::ops::Range<usize>, String)>> {
    catch(|| {
        let tables = Tables::default();
        let parsed = linter.parse_string(&tables, sql, None).ok()?;
        let tree = parsed.tree?;
        let mut v = vec![];
        for seg in tree.get_raw_segments() {
            let raw = seg.raw();
            // a placeholder is as untouchable as a quoted leaf: re-casing its name changes the parameter it reads
            let protected = seg.is_comment() || raw.contains('\'') || raw.contains('"') || raw.contains('`') || in_placeholder(&seg);
            if !protected {
                continue;
            }
            if let Some(pm) = seg.get_position_marker() {
                v.push((pm.source_slice.clone(), raw.to_string()));
            }
        }
        Some(v)
    })
    .ok()
    .flatten()
}

/// Scope tokens of the texts of one item (source, fixed texts), computed once per distinct text.
struct Scopes<'a> {
    cfgs: Option<&'a [KindCfg; 5]>,
    dialect: &'a str,
    by_text: std::collections::HashMap<String, Option<std::rc::Rc<[Vec<Tok>; 5]>>>,
}
impl Scopes<'_> {
    fn of(&mut self, linter: &Linter, sql: &str) -> Option<std::rc::Rc<[Vec<Tok>; 5]>> {
        let cfgs = self.cfgs?;
        if let Some(x) = self.by_text.get(sql) {
            return x.clone();
        }
        let sc = parse_tree(linter, sql).and_then(|tree| catch(|| scope(&tree, self.dialect, cfgs)).ok()).map(std::rc::Rc::new);
        self.by_text.insert(sql.to_string(), sc.clone());
        sc
    }
}

fn run_one(it: &Item, sc: &Scratch, out: &mut Buf) {
    out.count("files", 1);
    if it.sql.contains('\r') {
        out.count("skipped_cr", 1);
        return;
    }
    let mut linter = match catch(|| Linter::new(FluffConfig::from_source(&it.config, None), None, None, true)) {
        Ok(l) => l,
        Err(_) => {
            out.count("config_rejected", 1);
            return;
        }
    };
    let cfgs = parse_cfg(&it.config);
    if cfgs.is_none() {
        out.count("configurations_outside_the_scope_reading", 1);
    }
    let mut scopes = Scopes { cfgs: cfgs.as_ref(), dialect: &it.dialect, by_text: Default::default() };
    let mut protected: Option<Option<Vec<(std::ops::Range<usize>, String)>>> = None;
    let mut reference: Option<String> = None;
    for entry in std::iter::once(Entry::Str).chain(it.entries.iter().copied()) {
        // `@entry` marks the observations made through another entry point than lint_string
        let at = if entry == Entry::Str { String::new() } else { format!("@{}", entry.name()) };
        if let Entry::Cli(_) = entry {
            // the command line scenarios need the binary, and a text that already follows the policy
            if sc.sqruff.is_none() || reference.is_none() {
                out.count("cli_entries_skipped", 1);
                continue;
            }
        }
        out.count(&format!("entry_runs_{}", entry.name()), 1);
        if entry == Entry::Str {
            scope_visited(it, &linter, &mut scopes, out);
        }
        let clean = reference.clone();
        let (fixed, log) = match observe(it, entry, &at, &mut linter, sc, clean.as_deref(), &mut scopes, &mut protected, out) {
            Some(x) => x,
            None => continue,
        };
        match &reference {
            None if entry == Entry::Str => reference = Some(fixed),
            Some(r) if *r != fixed => out.count("entry_fix_text_differs_from_lint_string", 1),
            _ => {}
        }
        correspond(it, entry, &log, out);
    }
}

const KIND_NAMES: [&str; 5] = ["keywords", "identifiers", "functions", "literals", "types"];
/// option list of the `consistent` policy per kind (`cap_policy_name` of the rule as configured)
const KIND_EXTENDED: [bool; 5] = [false, true, false, false, true];

/// Every token a kind's policy applies to is handed to `handle_segment` during a lint of the source, and no exempt
/// token is; the calls of each rule's crawl are a correspondence case for the Gallina `trace`.
fn scope_visited(it: &Item, linter: &Linter, scopes: &mut Scopes, out: &mut Buf) {
    let Some(cfgs) = scopes.cfgs else { return };
    let Some(sc) = scopes.of(linter, &it.sql) else {
        out.count("scope_source_not_parsed", 1);
        return;
    };
    let input = json!({"dialect": it.dialect, "config": it.config, "sql": it.sql, "entry": Entry::Str.name()});
    CAPS_LOG.with(|l| *l.borrow_mut() = Some(Vec::new()));
    let r = catch(|| linter.lint_string(&it.sql, None, false));
    let log: Vec<CapsCall> = CAPS_LOG.with(|l| l.borrow_mut().take()).unwrap_or_default();
    if r.is_err() {
        out.count("scope_lint_panicked", 1);
        return;
    }
    let mut called: [Vec<&CapsCall>; 5] = Default::default();
    for c in &log {
        match kind_of_call(c) {
            Some(k) => called[k].push(c),
            None => out.count("calls_of_an_unknown_element", 1),
        }
    }
    for k in 0..5 {
        let expected: Vec<&Tok> = sc[k].iter().filter(|t| !t.exempt()).collect();
        out.count("scope_tokens", expected.len());
        out.count("scope_tokens_exempt_by_ignore_words", sc[k].iter().filter(|t| t.ignored_word).count());
        out.count("scope_tokens_exempt_by_ignore_regex", sc[k].iter().filter(|t| t.ignored_regex && !t.ignored_word).count());
        // multiset differences
        let mut need: std::collections::BTreeMap<&str, isize> = Default::default();
        for t in &expected {
            *need.entry(t.raw.as_str()).or_default() += 1;
        }
        for c in &called[k] {
            *need.entry(c.raw.as_str()).or_default() -= 1;
        }
        let missing: Vec<&str> = need.iter().filter(|x| *x.1 > 0).map(|x| *x.0).collect();
        let extra: Vec<&str> = need.iter().filter(|x| *x.1 < 0).map(|x| *x.0).collect();
        out.direct(
            "scope-visited",
            missing.is_empty(),
            &format!("c16-scope-{}:{}:{:08x}", KIND_NAMES[k], it.dialect, fnv(&format!("{}|{}", it.config, it.sql))),
            &format!(
                "the {} policy ({}) never reaches {} of the {} {} it applies to: {:?} are not handed to handle_segment during a lint (ignore_words {:?}, ignore_words_regex {:?})",
                KIND_NAMES[k],
                cfgs[k].policy,
                missing.len(),
                expected.len(),
                KIND_NAMES[k],
                &missing[..missing.len().min(12)],
                cfgs[k].words,
                cfgs[k].regex
            ),
            input.clone(),
        );
        out.hyp("H_exempt_tokens_not_visited", "blocking", extra.is_empty(), json!({"input": input, "kind": KIND_NAMES[k], "visited_although_exempt_or_out_of_scope": &extra[..extra.len().min(12)]}));
        let same_order = expected.len() == called[k].len() && expected.iter().zip(called[k].iter()).all(|(t, c)| t.raw == c.raw);
        if missing.is_empty() && extra.is_empty() && !same_order {
            out.count("scope_same_tokens_in_another_order", 1);
        }
        // ---- the whole crawl against the Gallina trace
        let toks: Vec<&Tok> = sc[k].iter().collect();
        let ascii = toks.iter().all(|t| t.raw.is_ascii()) && cfgs[k].words.iter().all(|w| w.is_ascii()) && called[k].iter().all(|c| c.raw.is_ascii() && c.fixed.as_ref().is_none_or(|f| f.is_ascii()));
        let panicked = called[k].iter().any(|c| c.description.as_deref() == Some("<panicked>"));
        if toks.is_empty() || toks.len() > 250 || !ascii || panicked || !cfgs[k].regex.is_empty() || !same_order && (missing.is_empty() && extra.is_empty()) {
            out.count("crawls_not_compared_with_the_model", 1);
            continue;
        }
        let words: Vec<String> = if k == 4 { vec![] } else { cfgs[k].words.clone() };
        let args = g_tuple(&[
            (if KIND_EXTENDED[k] { "Extended" } else { "Basic" }).to_string(),
            g_policy(&cfgs[k].policy),
            g_list(words.iter().map(|w| g_str(w))),
            g_list(toks.iter().map(|t| g_pair(&g_str(&t.raw), &g_bool(t.templated)))),
        ]);
        let exp = g_list(called[k].iter().map(|c| g_pair(&g_str(&c.raw), &g_opt(c.fixed.as_ref().map(|f| g_str(f))))));
        {
            use std::hash::{Hash, Hasher};
            let mut h = std::collections::hash_map::DefaultHasher::new();
            ("crawl", &args, &exp).hash(&mut h);
            if !GLOBAL_SEEN.get_or_init(Default::default).lock().unwrap().insert(h.finish()) {
                out.count("crawls_seen_again_in_another_file", 1);
                continue;
            }
        }
        let cls = format!("crawl-{}-{}", KIND_NAMES[k], if cfgs[k].policy == "consistent" { "consistent" } else { "concrete" });
        out.case(
            "crawl",
            &cls,
            called[k].iter().any(|c| c.fixed.is_some()) || toks.iter().any(|t| t.ignored_word),
            args,
            exp,
            json!({"input": input, "kind": KIND_NAMES[k], "policy": cfgs[k].policy, "ignore_words": words, "tokens": toks.iter().map(|t| t.raw.clone()).collect::<Vec<_>>(),
                   "calls": called[k].iter().map(|c| json!([c.raw, c.fixed])).collect::<Vec<_>>()}),
        );
    }
}

/// "Reaches the policy", read off the fixed text: every token a kind's policy applies to is written in the
/// configured case (concrete policies); under `consistent` all of them are written in one of the kind's cases.
fn policy_reached(it: &Item, entry: Entry, at: &str, fixed: &str, linter: &Linter, scopes: &mut Scopes, input: &Value, out: &mut Buf) {
    let Some(cfgs) = scopes.cfgs else { return };
    if it.sql.to_ascii_lowercase().contains("noqa") {
        out.count("policy_reached_skipped_noqa", 1);
        return;
    }
    let Some(sc) = scopes.of(linter, fixed) else {
        out.count("policy_reached_fixed_text_not_parsed", 1);
        return;
    };
    let mut bad: Vec<String> = vec![];
    let mut n = 0;
    for k in 0..5 {
        let toks: Vec<&Tok> = sc[k].iter().filter(|t| !t.exempt() && !t.templated && !t.raw.is_empty() && t.raw.is_ascii()).collect();
        n += toks.len();
        let policy = cfgs[k].policy.as_str();
        if policy == "consistent" {
            let opts: &[&str] = if KIND_EXTENDED[k] { &["upper", "lower", "pascal", "capitalise"] } else { &["upper", "lower", "capitalise"] };
            let fits = |c: &str| toks.iter().all(|t| apply_case(c, &t.raw).as_deref() == Some(t.raw.as_str()));
            if !opts.iter().any(|c| fits(c)) {
                let mut raws: Vec<&str> = toks.iter().map(|t| t.raw.as_str()).collect();
                raws.dedup();
                bad.push(format!("{}: no single case of {:?} fits all of {:?}", KIND_NAMES[k], opts, &raws[..raws.len().min(12)]));
            }
        } else if apply_case(policy, "a").is_some() {
            let off: Vec<&str> = toks.iter().filter(|t| apply_case(policy, &t.raw).as_deref() != Some(t.raw.as_str())).map(|t| t.raw.as_str()).collect();
            if !off.is_empty() {
                bad.push(format!("{} not in {} case: {:?}", KIND_NAMES[k], policy, &off[..off.len().min(12)]));
            }
        }
    }
    out.count("policy_reached_tokens_checked", n);
    out.direct(
        &format!("policy-reached{}", at),
        bad.is_empty(),
        &format!("c16-reach{}:{}:{:08x}", at, it.dialect, fnv(&format!("{}|{}", it.config, it.sql))),
        &format!("{}: the fixed text does not follow the configured policy: {}; fixed text: {:?}", entry.name(), bad.join("; "), trunc(fixed, 300)),
        input.clone(),
    );
}

/// The property observed through one entry point: fix, then lint and fix the result again through the same entry point.
#[allow(clippy::too_many_arguments)]
fn observe(it: &Item, entry: Entry, at: &str, linter: &mut Linter, sc: &Scratch, clean: Option<&str>, scopes: &mut Scopes, protected: &mut Option<Option<Vec<(std::ops::Range<usize>, String)>>>, out: &mut Buf) -> Option<(String, Vec<CapsCall>)> {
    let input = json!({"dialect": it.dialect, "config": it.config, "sql": it.sql, "entry": entry.name()});
    let key_of = |what: &str| format!("c16-{}{}:{}:{:08x}", what, at, it.dialect, fnv(&format!("{}|{}", it.config, it.sql)));
    // ---- first fix, with the recorder on (it only sees calls made on this thread: not those of lint_paths' pool)
    CAPS_LOG.with(|l| *l.borrow_mut() = Some(Vec::new()));
    let r1 = run_entry(entry, linter, sc, &it.config, clean, &it.sql, true);
    let log: Vec<CapsCall> = CAPS_LOG.with(|l| l.borrow_mut().take()).unwrap_or_default();
    let (fixed, vs1) = match r1 {
        Ok(x) => {
            if let Entry::Cli(_) = entry {
                out.direct(&format!("cli-copies-agree{}", at), x.copies_differ.is_none(), &key_of("copies"), &format!("{}: the copies of one text under one configuration were not fixed to the same text: {}", entry.name(), x.copies_differ.clone().unwrap_or_default()), input.clone());
            }
            (x.text, x.viols)
        }
        Err(msg) => {
            out.count(&format!("panics{}", at), 1);
            let _ = msg; // crashes are C03's subject
            return None;
        }
    };
    out.count("handle_segment_calls", log.len());
    if fixed != it.sql {
        out.count(&format!("files_changed_by_fix{}", at), 1);
    }
    if !vs1.is_empty() {
        out.count(&format!("files_with_cp_violations{}", at), 1);
    }
    // ---- direct observations
    let case_only = ascii_lower(&fixed) == ascii_lower(&it.sql);
    out.direct(
        &format!("fix-changes-only-ascii-case{}", at),
        case_only,
        &key_of("case"),
        &format!(
            "{}: fix_string differs from the source by more than ASCII letter case (first difference at byte {:?}); fixed text: {:?}",
            entry.name(),
            ascii_lower(&fixed).iter().zip(ascii_lower(&it.sql).iter()).position(|(a, b)| a != b),
            trunc(&fixed, 300)
        ),
        input.clone(),
    );
    match run_entry(entry, linter, sc, &it.config, clean, &fixed, false) {
        Ok(o) => {
            let left: Vec<Viol> = o.viols.into_iter().filter(|v| v.0.starts_with("CP")).collect();
            out.direct(&format!("lint-of-fix-is-clean{}", at), left.is_empty(), &key_of("relint"), &format!("{}: linting the fixed text still reports {:?}; fixed text: {:?}", entry.name(), &left[..left.len().min(10)], trunc(&fixed, 300)), input.clone());
        }
        Err(_) => out.count(&format!("relint_panicked{}", at), 1),
    }
    match run_entry(entry, linter, sc, &it.config, clean, &fixed, true) {
        Ok(o) => out.direct(&format!("fix-is-idempotent{}", at), o.text == fixed, &key_of("refix"), &format!("{}: fixing the fixed text changes it again: {:?} -> {:?}", entry.name(), trunc(&fixed, 200), trunc(&o.text, 200)), input.clone()),
        Err(_) => out.count(&format!("refix_panicked{}", at), 1),
    }
    if case_only {
        // quoted identifiers, string literals, comments: byte-identical at the same offsets
        let prot = protected.get_or_insert_with(|| protected_slices(linter, &it.sql));
        if let Some(prot) = prot {
            let mut bad = vec![];
            for (sl, raw) in prot.iter() {
                if sl.end <= it.sql.len() && sl.end <= fixed.len() && it.sql.as_bytes()[sl.clone()] != fixed.as_bytes()[sl.clone()] {
                    bad.push(raw.clone());
                }
            }
            out.count("protected_leaves_checked", prot.len());
            out.direct(&format!("quoted-and-comments-untouched{}", at), bad.is_empty(), &key_of("protected"), &format!("{}: quoted identifier / literal / comment / placeholder changed by the fix (rendered text of the leaf): {:?}", entry.name(), bad), input.clone());
        }
        policy_reached(it, entry, at, &fixed, linter, scopes, &input, out);
    }
    Some((fixed, log))
}

/// Correspondence: every recorded `handle_segment` call of the first fix replayed on the model.
fn correspond(it: &Item, entry: Entry, log: &[CapsCall], out: &mut Buf) {
    let input = json!({"dialect": it.dialect, "config": it.config, "sql": it.sql, "entry": entry.name()});
    // ---- correspondence: every recorded call
    let mut seen = BTreeSet::new();
    let mut prev_after: Option<(Vec<&'static str>, Option<String>)> = None;
    for c in log {
        if std::env::var("SQV_C16_DEBUG").is_ok() {
            eprintln!("CALL raw={:?} policy={} name={} before={:?}/{:?} after={:?}/{:?} fixed={:?}", c.raw, c.policy, c.policy_name, c.refuted_before, c.latest_before, c.refuted_after, c.latest_after, c.fixed);
        }
        // memory threads from call to call within a crawl; a new crawl starts empty
        let fresh = c.refuted_before.is_empty() && c.latest_before.is_none();
        let threaded = fresh || prev_after.as_ref().is_some_and(|(r, l)| r == &c.refuted_before && l == &c.latest_before);
        out.hyp("H_memory_threads", "blocking", threaded, json!({"input": input, "raw": c.raw, "before": c.refuted_before, "previous_after": prev_after.as_ref().map(|p| p.0.clone())}));
        prev_after = Some((c.refuted_after.clone(), c.latest_after.clone()));
        if c.description.as_deref() == Some("<panicked>") {
            // the rule body panicked inside handle_segment (caught by Rule::crawl and reported as a violation: C03's
            // subject); the call only explains the memory the next call starts from
            out.count("handle_segment_calls_that_panicked", 1);
            continue;
        }
        if !c.raw.is_ascii() || c.fixed.as_ref().is_some_and(|f| !f.is_ascii()) {
            out.count("non_ascii_calls_excluded", 1);
            continue;
        }
        let (Some(mb), Some(ma)) = (g_mem(&c.refuted_before, &c.latest_before), g_mem(&c.refuted_after, &c.latest_after)) else {
            out.count("calls_with_unknown_case_names", 1);
            continue;
        };
        let name = match c.policy_name.as_str() {
            "capitalisation_policy" => "Basic",
            "extended_capitalisation_policy" => "Extended",
            _ => {
                out.count("calls_with_unknown_policy_name", 1);
                continue;
            }
        };
        let args = g_tuple(&[name.to_string(), g_policy(&c.policy), mb, g_str(&c.raw), g_bool(c.templated)]);
        let exp = g_tuple(&[ma, g_opt(c.fixed.as_ref().map(|f| g_str(f)))]);
        if !seen.insert((args.clone(), exp.clone())) {
            continue;
        }
        // the same call shows up in many files: keep one correspondence case per distinct (args, expected)
        {
            use std::hash::{Hash, Hasher};
            let mut h = std::collections::hash_map::DefaultHasher::new();
            (&args, &exp).hash(&mut h);
            let fresh = GLOBAL_SEEN.get_or_init(Default::default).lock().unwrap().insert(h.finish());
            out.count("distinct_calls_seen_again_in_another_file", if fresh { 0 } else { 1 });
            if !fresh {
                continue;
            }
        }
        let cls = if c.policy == "consistent" { if name == "Basic" { "consistent-basic" } else { "consistent-extended" } } else { "concrete" };
        out.case(
            "call",
            cls,
            c.fixed.is_some(),
            args,
            exp,
            json!({"input": input, "call": {"raw": c.raw, "policy": c.policy, "policy_name": c.policy_name, "refuted_before": c.refuted_before, "latest_before": c.latest_before, "refuted_after": c.refuted_after, "latest_after": c.latest_after, "fixed": c.fixed}}),
        );
    }
}

pub fn main(args: &Args) {
    silence_panics();
    let mut out = Out::new(&args.out);
    let mut rng = Rng::new(args.seed);
    let mut items: Vec<Item> = vec![];
    if let Some(path) = args.flag("--replay-input") {
        let j: Value = serde_json::from_str(&std::fs::read_to_string(path).unwrap()).unwrap();
        let j = if j.get("input").is_some() { j["input"].clone() } else { j };
        // a replay goes through the recorded entry point (all of them when none is recorded) besides lint_string
        let entries: Vec<Entry> = match j["entry"].as_str().and_then(Entry::from_name) {
            Some(Entry::Str) => vec![],
            Some(e) => vec![e],
            None => ALT_ENTRIES.to_vec(),
        };
        items.push(Item { cls: "replay", dialect: j["dialect"].as_str().unwrap_or("ansi").to_string(), config: j["config"].as_str().unwrap_or("").to_string(), sql: j["sql"].as_str().unwrap_or("").to_string(), entries, templ: None });
    } else {
        let none = Ignore::default();
        // hand-written statements × every uniform policy × a few dialects, plus mixed policies
        for (i, s) in SNIPPETS.iter().enumerate() {
            for k in 0..POLICIES.len() + 2 {
                let pol = gen_policies(&mut rng, k);
                for d in ["ansi", DIALECTS[(i + k) % DIALECTS.len()]] {
                    items.push(Item { cls: "snippet", dialect: d.to_string(), config: mk_config(d, &pol, &none), sql: s.to_string(), entries: vec![], templ: None });
                }
                let ig = gen_ignore(&mut rng, s);
                items.push(Item { cls: "snippet-ignore-words", dialect: "ansi".into(), config: mk_config("ansi", &pol, &ig), sql: s.to_string(), entries: vec![], templ: None });
            }
        }
        let corpus = corpus();
        let (n_plain, n_scr) = if args.thorough() { (corpus.len(), 6000) } else { (140, 420) };
        let mut idx: Vec<usize> = (0..corpus.len()).collect();
        rng.shuffle(&mut idx);
        for &i in idx.iter().take(n_plain) {
            let f = &corpus[i];
            if f.text.len() > 5000 {
                continue;
            }
            let k = rng.below(POLICIES.len() + 4);
            let pol = gen_policies(&mut rng, k);
            let ig = gen_ignore(&mut rng, &f.text);
            items.push(Item { cls: "corpus", dialect: f.dialect.clone(), config: mk_config(&f.dialect, &pol, &ig), sql: f.text.clone(), entries: vec![], templ: None });
        }
        for _ in 0..n_scr {
            let f = &corpus[rng.below(corpus.len())];
            if f.text.len() > 5000 {
                continue;
            }
            let (sql, cls) = scramble(&mut rng, &f.text);
            let k = rng.below(POLICIES.len() + 4);
            let pol = gen_policies(&mut rng, k);
            let ig = gen_ignore(&mut rng, &sql);
            let d = if rng.chance(1, 6) { DIALECTS[rng.below(DIALECTS.len())].to_string() } else { f.dialect.clone() };
            items.push(Item { cls, dialect: d.clone(), config: mk_config(&d, &pol, &ig), sql, entries: vec![], templ: None });
        }
    }
    if args.flag("--replay-input").is_none() {
        // ---- placeholder-templated sources: the statements and corpus files above with tokens turned into placeholders
        // (templater = placeholder). What `fix` writes is the *source* (placeholders kept); every clause is observed on it,
        // re-rendered and re-linted under the same configuration.
        let corpus = corpus();
        let mut plain: std::collections::HashMap<String, Option<Linter>> = Default::default();
        let n_templ = if args.thorough() { 3000 } else { 330 };
        let mut made = 0;
        let mut tries = 0;
        while made < n_templ && tries < n_templ * 6 {
            tries += 1;
            // one in three from the hand-written statements, the others from the corpus (half of them case-scrambled)
            let (text, dialect, base): (String, String, &'static str) = if rng.chance(1, 3) {
                let i = rng.below(SNIPPETS.len());
                let d = if rng.chance(1, 2) { "ansi" } else { DIALECTS[rng.below(DIALECTS.len())] };
                (SNIPPETS[i].to_string(), d.to_string(), "snippet")
            } else {
                let f = &corpus[rng.below(corpus.len())];
                if f.text.len() > 3000 {
                    continue;
                }
                if rng.chance(1, 2) { (scramble(&mut rng, &f.text).0, f.dialect.clone(), "scramble") } else { (f.text.clone(), f.dialect.clone(), "corpus") }
            };
            let linter = plain.entry(dialect.clone()).or_insert_with(|| catch(|| Linter::new(FluffConfig::from_source(&format!("[sqruff]\ndialect = {}\n", dialect), None), None, None, true)).ok());
            let Some(linter) = linter else { continue };
            let density = *rng.pick(&[(1usize, 8usize), (1, 3), (2, 3)]);
            let keywords = rng.chance(1, 4);
            let Some(t) = templatise(&mut rng, linter, &text, density, keywords) else { continue };
            let k = rng.below(POLICIES.len() + 4);
            let pol = gen_policies(&mut rng, k);
            let ig = if rng.chance(1, 3) { gen_ignore(&mut rng, &text) } else { Ignore::default() };
            let Some(config) = templated_config(&mk_config(&dialect, &pol, &ig), &t) else { continue };
            let cls = match (base, keywords) {
                ("snippet", false) => "templated-snippet",
                ("snippet", true) => "templated-snippet-keywords",
                ("scramble", false) => "templated-scramble",
                ("scramble", true) => "templated-scramble-keywords",
                (_, false) => "templated-corpus",
                (_, true) => "templated-corpus-keywords",
            };
            items.push(Item { cls, dialect, config, sql: t.sql, entries: vec![], templ: Some([t.shorter, t.equal, t.longer, t.leading]) });
            made += 1;
        }
    }
    let sqruff = args.flag("--sqruff").map(std::path::PathBuf::from);
    if args.flag("--replay-input").is_none() {
        // every input goes through every public entry point (lint_string first: it feeds the recorder);
        // one input in three (every input in the thorough tier) also through two shapes of the command line
        for it in items.iter_mut() {
            it.entries = ALT_ENTRIES.to_vec();
            if sqruff.is_some() && (args.thorough() || rng.chance(1, 3)) {
                let a = rng.below(CLI_SHAPES.len());
                let b = (a + 1 + rng.below(CLI_SHAPES.len() - 1)) % CLI_SHAPES.len();
                it.entries.extend([Entry::Cli(a), Entry::Cli(b)]);
            }
        }
    }
    par_run(&mut out, &items, || Scratch::new(sqruff.clone()), |sc, it, buf| {
        run_one(it, sc, buf);
        buf.count(&format!("items_{}", it.cls), 1);
        if let Some([shorter, equal, longer, leading]) = it.templ {
            buf.count("templated_sources", 1);
            buf.count("placeholders_value_shorter_than_placeholder", shorter);
            buf.count("placeholders_value_as_long_as_placeholder", equal);
            buf.count("placeholders_value_longer_than_placeholder", longer);
            buf.count("placeholders_leading_a_syntax_element", leading);
        }
    });
    let _ = std::fs::remove_dir_all(scratch_base());
    out.finish();
}
