//! C16 — capitalisation fixes change only letter case and reach the policy.
//! Only CP01..CP05 selected; dialect × per-kind policy × ignore_words × (corpus | case scrambles).
//! * direct: fix_string = source up to ASCII case; lint(fix) reports no CP violation; fix(fix) = fix;
//!   quoted identifiers / string literals / comments byte-identical.
//! * group `call`: every recorded call of `handle_segment` (hook in cp01.rs: raw, policy, policy
//!   list name, memory before/after, result) replayed on the Gallina `handle`.
use std::collections::BTreeSet;

use serde_json::{Value, json};
use sqruff_lib::core::config::FluffConfig;
use sqruff_lib::core::linter::core::Linter;
use sqruff_lib::rules::capitalisation::cp01::verif_hook::{CAPS_LOG, CapsCall};
use sqruff_lib_core::parser::segments::base::Tables;

use crate::common::*;

static GLOBAL_SEEN: std::sync::OnceLock<std::sync::Mutex<std::collections::HashSet<u64>>> = std::sync::OnceLock::new();

const POLICIES: [&str; 5] = ["consistent", "upper", "lower", "capitalise", "pascal"];
/// (config section, policy key)
const KINDS: [(&str, &str); 5] = [
    ("capitalisation.keywords", "capitalisation_policy"),
    ("capitalisation.identifiers", "extended_capitalisation_policy"),
    ("capitalisation.functions", "extended_capitalisation_policy"),
    ("capitalisation.literals", "capitalisation_policy"),
    ("capitalisation.types", "extended_capitalisation_policy"),
];

struct Item {
    cls: &'static str,
    dialect: String,
    config: String,
    sql: String,
}

fn mk_config(dialect: &str, pol: &[&str; 5], ignore: &[Option<String>; 5]) -> String {
    let mut s = format!("[sqruff]\ndialect = {}\nrules = CP01,CP02,CP03,CP04,CP05\n", dialect);
    for (i, (sec, key)) in KINDS.iter().enumerate() {
        s.push_str(&format!("[sqruff:rules:{}]\n{} = {}\n", sec, key, pol[i]));
        if let Some(w) = &ignore[i] {
            s.push_str(&format!("ignore_words = {}\n", w));
        }
    }
    s
}

fn fnv(s: &str) -> u32 {
    let mut h: u32 = 0x811c9dc5;
    for b in s.as_bytes() {
        h ^= *b as u32;
        h = h.wrapping_mul(0x01000193);
    }
    h
}

// ---------------------------------------------------------------- generators
fn scramble(rng: &mut Rng, sql: &str) -> (String, &'static str) {
    let mode = rng.below(5);
    let mut out = String::with_capacity(sql.len());
    match mode {
        0 => (sql.to_ascii_uppercase(), "scramble-upper"),
        1 => (sql.to_ascii_lowercase(), "scramble-lower"),
        2 => {
            for c in sql.chars() {
                out.push(if c.is_ascii_alphabetic() && rng.chance(1, 2) { if c.is_ascii_lowercase() { c.to_ascii_uppercase() } else { c.to_ascii_lowercase() } } else { c });
            }
            (out, "scramble-per-char")
        }
        _ => {
            // per word: upper / lower / Capitalised / camelCase / as is
            let mut word = String::new();
            let flush = |rng: &mut Rng, word: &mut String, out: &mut String| {
                if word.is_empty() {
                    return;
                }
                let w = std::mem::take(word);
                let r = match rng.below(6) {
                    0 => w.to_ascii_uppercase(),
                    1 => w.to_ascii_lowercase(),
                    2 => {
                        let mut cs = w.chars();
                        let f = cs.next().unwrap();
                        format!("{}{}", f.to_ascii_uppercase(), cs.as_str().to_ascii_lowercase())
                    }
                    3 => {
                        let mut cs = w.chars();
                        let f = cs.next().unwrap();
                        let rest: String = cs.enumerate().map(|(i, c)| if i % 3 == 2 { c.to_ascii_uppercase() } else { c.to_ascii_lowercase() }).collect();
                        format!("{}{}", f.to_ascii_lowercase(), rest)
                    }
                    _ => w,
                };
                out.push_str(&r);
            };
            for c in sql.chars() {
                if c.is_ascii_alphanumeric() || c == '_' {
                    word.push(c);
                } else {
                    flush(rng, &mut word, &mut out);
                    out.push(c);
                }
            }
            flush(rng, &mut word, &mut out);
            (out, if mode == 3 { "scramble-per-word" } else { "scramble-per-word-2" })
        }
    }
}

fn words_of(sql: &str) -> Vec<String> {
    let mut set = BTreeSet::new();
    for w in sql.split(|c: char| !(c.is_ascii_alphanumeric() || c == '_')) {
        if !w.is_empty() && w.len() < 24 && w.chars().next().unwrap().is_ascii_alphabetic() {
            set.insert(w.to_ascii_lowercase());
        }
    }
    set.into_iter().collect()
}

fn gen_policies(rng: &mut Rng, k: usize) -> [&'static str; 5] {
    if k < POLICIES.len() {
        [POLICIES[k]; 5]
    } else {
        let mut p = ["consistent"; 5];
        for x in p.iter_mut() {
            *x = POLICIES[rng.below(POLICIES.len())];
        }
        p
    }
}

fn gen_ignore(rng: &mut Rng, sql: &str) -> [Option<String>; 5] {
    let mut ig: [Option<String>; 5] = Default::default();
    if rng.chance(1, 2) {
        return ig;
    }
    let ws = words_of(sql);
    if ws.is_empty() {
        return ig;
    }
    for x in ig.iter_mut() {
        if rng.chance(1, 2) {
            let n = rng.range(1, 3);
            let mut picked: Vec<String> = (0..n).map(|_| ws[rng.below(ws.len())].clone()).collect();
            if rng.chance(1, 3) {
                picked[0] = picked[0].to_ascii_uppercase(); // the config lower-cases them
            }
            *x = Some(picked.join(","));
        }
    }
    ig
}

/// hand-written statements mixing the five element kinds, awkward identifiers included
const SNIPPETS: &[&str] = &[
    "SELECT Ab, a_, AB FROM t\n",
    "select Ab, a_, FooBar, x1 from Tbl where a_ is NULL and b = True\n",
    "SeLeCt Sum(a), count(b), COALESCE(c, 1) fRoM t gRoUp By a\n",
    "CREATE TABLE t (a int, b VARCHAR(10), c Timestamp, d Double Precision)\n",
    "select cast(a as INT), cast(b as varchar(3)), Cast(c AS Date) from t\n",
    "SELECT \"MiXed\", 'LiTeRaL', `Back`, a -- CoMMent Select\nFROM t /* BLOCK select */\n",
    "select a, B, c_D, _e, f_, G1 from t1 JOIN t2 on t1.a = T2.a\n",
    "SELECT null, NULL, Null, true, FALSE, False FROM t\n",
    "select current_date, CURRENT_TIMESTAMP, Current_Time from t\n",
    "SELECT a FROM t WHERE a IN (1, 2) AND b LIKE 'x' or c between 1 AND 2\n",
    "select * from t order by a ASC, b desc NULLS first\n",
    "INSERT INTO t (A, b) VALUES (1, 'x')\n",
    "select date_part('year', d), EXTRACT(Year FROM d), dateadd(DAY, 1, d) from t\n",
];

// ---------------------------------------------------------------- run one item
fn ascii_lower(s: &str) -> Vec<u8> {
    s.bytes().map(|b| b.to_ascii_lowercase()).collect()
}

fn case_name(s: &str) -> Option<&'static str> {
    match s {
        "upper" => Some("Upper"),
        "lower" => Some("Lower"),
        "capitalise" => Some("Capitalise"),
        "pascal" => Some("Pascal"),
        _ => None,
    }
}
fn g_mem(refuted: &[&'static str], latest: &Option<String>) -> Option<String> {
    let has = |n: &str| g_bool(refuted.contains(&n));
    if refuted.iter().any(|r| case_name(r).is_none()) {
        return None;
    }
    let lt = match latest {
        None => "None".to_string(),
        Some(l) => format!("(Some {})", case_name(l)?),
    };
    Some(format!("(mkm {} {} {} {} {})", has("upper"), has("lower"), has("capitalise"), has("pascal"), lt))
}
fn g_policy(p: &str) -> String {
    match p {
        "consistent" => "Consistent".into(),
        other => match case_name(other) {
            Some(c) => format!("(Concrete {})", c),
            None => "OtherPolicy".into(),
        },
    }
}

fn lint_fix(linter: &Linter, sql: &str) -> Result<(String, Vec<(String, usize, usize)>), String> {
    catch(|| {
        let f = linter.lint_string(sql, None, true);
        let vs: Vec<(String, usize, usize)> = f.violations.iter().filter_map(|v| v.rule.as_ref().map(|r| (r.code.to_string(), v.line_no, v.line_pos))).collect();
        (f.fix_string(), vs)
    })
}

fn run_one(it: &Item, out: &mut Buf) {
    out.count("files", 1);
    let input = json!({"dialect": it.dialect, "config": it.config, "sql": it.sql});
    let key_of = |what: &str| format!("c16-{}:{}:{:08x}", what, it.dialect, fnv(&format!("{}|{}", it.config, it.sql)));
    if it.sql.contains('\r') {
        out.count("skipped_cr", 1);
        return;
    }
    let linter = match catch(|| Linter::new(FluffConfig::from_source(&it.config, None), None, None, true)) {
        Ok(l) => l,
        Err(_) => {
            out.count("config_rejected", 1);
            return;
        }
    };
    // ---- first fix, with the recorder on
    CAPS_LOG.with(|l| *l.borrow_mut() = Some(Vec::new()));
    let r1 = lint_fix(&linter, &it.sql);
    let log: Vec<CapsCall> = CAPS_LOG.with(|l| l.borrow_mut().take()).unwrap_or_default();
    let (fixed, vs1) = match r1 {
        Ok(x) => x,
        Err(msg) => {
            out.count("panics", 1);
            let _ = msg; // crashes are C03's subject
            return;
        }
    };
    out.count("handle_segment_calls", log.len());
    if fixed != it.sql {
        out.count("files_changed_by_fix", 1);
    }
    if !vs1.is_empty() {
        out.count("files_with_cp_violations", 1);
    }
    // ---- direct observations
    let case_only = ascii_lower(&fixed) == ascii_lower(&it.sql);
    out.direct(
        "fix-changes-only-ascii-case",
        case_only,
        &key_of("case"),
        &format!("fix_string differs from the source by more than ASCII letter case (first difference at byte {:?})", ascii_lower(&fixed).iter().zip(ascii_lower(&it.sql).iter()).position(|(a, b)| a != b)),
        input.clone(),
    );
    match catch(|| linter.lint_string(&fixed, None, false)) {
        Ok(f2) => {
            let left: Vec<(String, usize, usize)> = f2.violations.iter().filter_map(|v| v.rule.as_ref().map(|r| (r.code.to_string(), v.line_no, v.line_pos))).filter(|v| v.0.starts_with("CP")).collect();
            out.direct("lint-of-fix-is-clean", left.is_empty(), &key_of("relint"), &format!("linting the fixed text still reports {:?}; fixed text: {:?}", left, trunc(&fixed, 300)), input.clone());
        }
        Err(_) => out.count("relint_panicked", 1),
    }
    match lint_fix(&linter, &fixed) {
        Ok((fixed2, _)) => out.direct("fix-is-idempotent", fixed2 == fixed, &key_of("refix"), &format!("fixing the fixed text changes it again: {:?} -> {:?}", trunc(&fixed, 200), trunc(&fixed2, 200)), input.clone()),
        Err(_) => out.count("refix_panicked", 1),
    }
    if case_only {
        // quoted identifiers, string literals, comments: byte-identical at the same offsets
        let r = catch(|| {
            let tables = Tables::default();
            let parsed = linter.parse_string(&tables, &it.sql, None).ok()?;
            let tree = parsed.tree?;
            let mut bad = vec![];
            let mut n = 0usize;
            for seg in tree.get_raw_segments() {
                let raw = seg.raw();
                let protected = seg.is_comment() || raw.contains('\'') || raw.contains('"') || raw.contains('`');
                if !protected {
                    continue;
                }
                n += 1;
                if let Some(pm) = seg.get_position_marker() {
                    let sl = pm.source_slice.clone();
                    if sl.end <= it.sql.len() && sl.end <= fixed.len() && it.sql.as_bytes()[sl.clone()] != fixed.as_bytes()[sl.clone()] {
                        bad.push(raw.to_string());
                    }
                }
            }
            Some((n, bad))
        });
        if let Ok(Some((n, bad))) = r {
            out.count("protected_leaves_checked", n);
            out.direct("quoted-and-comments-untouched", bad.is_empty(), &key_of("protected"), &format!("quoted identifier / literal / comment changed by the fix: {:?}", bad), input.clone());
        }
    }
    // ---- correspondence: every recorded call
    let mut seen = BTreeSet::new();
    let mut prev_after: Option<(Vec<&'static str>, Option<String>)> = None;
    for c in &log {
        // memory threads from call to call within a crawl; a new crawl starts empty
        let fresh = c.refuted_before.is_empty() && c.latest_before.is_none();
        let threaded = fresh || prev_after.as_ref().is_some_and(|(r, l)| r == &c.refuted_before && l == &c.latest_before);
        out.hyp("H_memory_threads", "blocking", threaded, json!({"input": input, "raw": c.raw, "before": c.refuted_before, "previous_after": prev_after.as_ref().map(|p| p.0.clone())}));
        prev_after = Some((c.refuted_after.clone(), c.latest_after.clone()));
        if !c.raw.is_ascii() || c.fixed.as_ref().is_some_and(|f| !f.is_ascii()) {
            out.count("non_ascii_calls_excluded", 1);
            continue;
        }
        let (Some(mb), Some(ma)) = (g_mem(&c.refuted_before, &c.latest_before), g_mem(&c.refuted_after, &c.latest_after)) else {
            out.count("calls_with_unknown_case_names", 1);
            continue;
        };
        let name = match c.policy_name.as_str() {
            "capitalisation_policy" => "Basic",
            "extended_capitalisation_policy" => "Extended",
            _ => {
                out.count("calls_with_unknown_policy_name", 1);
                continue;
            }
        };
        let args = g_tuple(&[name.to_string(), g_policy(&c.policy), mb, g_str(&c.raw), g_bool(c.templated)]);
        let exp = g_tuple(&[ma, g_opt(c.fixed.as_ref().map(|f| g_str(f)))]);
        if !seen.insert((args.clone(), exp.clone())) {
            continue;
        }
        // the same call shows up in many files: keep one correspondence case per distinct (args, expected)
        {
            use std::hash::{Hash, Hasher};
            let mut h = std::collections::hash_map::DefaultHasher::new();
            (&args, &exp).hash(&mut h);
            let fresh = GLOBAL_SEEN.get_or_init(Default::default).lock().unwrap().insert(h.finish());
            out.count("distinct_calls_seen_again_in_another_file", if fresh { 0 } else { 1 });
            if !fresh {
                continue;
            }
        }
        let cls = if c.policy == "consistent" { if name == "Basic" { "consistent-basic" } else { "consistent-extended" } } else { "concrete" };
        out.case(
            "call",
            cls,
            c.fixed.is_some(),
            args,
            exp,
            json!({"input": input, "call": {"raw": c.raw, "policy": c.policy, "policy_name": c.policy_name, "refuted_before": c.refuted_before, "latest_before": c.latest_before, "refuted_after": c.refuted_after, "latest_after": c.latest_after, "fixed": c.fixed}}),
        );
    }
}

pub fn main(args: &Args) {
    silence_panics();
    let mut out = Out::new(&args.out);
    let mut rng = Rng::new(args.seed);
    let mut items: Vec<Item> = vec![];
    if let Some(path) = args.flag("--replay-input") {
        let j: Value = serde_json::from_str(&std::fs::read_to_string(path).unwrap()).unwrap();
        let j = if j.get("input").is_some() { j["input"].clone() } else { j };
        items.push(Item { cls: "replay", dialect: j["dialect"].as_str().unwrap_or("ansi").to_string(), config: j["config"].as_str().unwrap_or("").to_string(), sql: j["sql"].as_str().unwrap_or("").to_string() });
    } else {
        let none: [Option<String>; 5] = Default::default();
        // hand-written statements × every uniform policy × a few dialects, plus mixed policies
        for (i, s) in SNIPPETS.iter().enumerate() {
            for k in 0..POLICIES.len() + 2 {
                let pol = gen_policies(&mut rng, k);
                for d in ["ansi", DIALECTS[(i + k) % DIALECTS.len()]] {
                    items.push(Item { cls: "snippet", dialect: d.to_string(), config: mk_config(d, &pol, &none), sql: s.to_string() });
                }
                let ig = gen_ignore(&mut rng, s);
                items.push(Item { cls: "snippet-ignore-words", dialect: "ansi".into(), config: mk_config("ansi", &pol, &ig), sql: s.to_string() });
            }
        }
        let corpus = corpus();
        let (n_plain, n_scr) = if args.thorough() { (corpus.len(), 6000) } else { (140, 420) };
        let mut idx: Vec<usize> = (0..corpus.len()).collect();
        rng.shuffle(&mut idx);
        for &i in idx.iter().take(n_plain) {
            let f = &corpus[i];
            if f.text.len() > 5000 {
                continue;
            }
            let k = rng.below(POLICIES.len() + 4);
            let pol = gen_policies(&mut rng, k);
            let ig = gen_ignore(&mut rng, &f.text);
            items.push(Item { cls: "corpus", dialect: f.dialect.clone(), config: mk_config(&f.dialect, &pol, &ig), sql: f.text.clone() });
        }
        for _ in 0..n_scr {
            let f = &corpus[rng.below(corpus.len())];
            if f.text.len() > 5000 {
                continue;
            }
            let (sql, cls) = scramble(&mut rng, &f.text);
            let k = rng.below(POLICIES.len() + 4);
            let pol = gen_policies(&mut rng, k);
            let ig = gen_ignore(&mut rng, &sql);
            let d = if rng.chance(1, 6) { DIALECTS[rng.below(DIALECTS.len())].to_string() } else { f.dialect.clone() };
            items.push(Item { cls, dialect: d.clone(), config: mk_config(&d, &pol, &ig), sql });
        }
    }
    par_run(&mut out, &items, || (), |_, it, buf| {
        let n0 = buf.lines.len();
        run_one(it, buf);
        let _ = n0;
        buf.count(&format!("items_{}", it.cls), 1);
    });
    out.finish();
}
