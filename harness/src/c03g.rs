//! C03 — grammar-driven sentences for the crash search ("syntax a dialect only half supports").
//!
//! The other generator classes start from texts somebody wrote (corpus, fixtures) or from single
//! keywords. A construct that a dialect's grammar mentions but no fixture exercises is reached by
//! none of them: e.g. an optional tail `TO SAVEPOINT <name>` of a transaction statement, whose
//! keyword reference is resolved (lazily, by `Dialect::ref`, which panics when the name is
//! missing) only once the parser has matched the tokens in front of it.
//!
//! This module walks the grammar graph of each dialect (`c14::Graph`, built from the freshly
//! compiled dialect through the `cfg(sqruff_verif)` read accessors) and synthesises, for *every
//! grammar node reachable from `FileSegment`*, a shortest token sequence that leads the parser
//! to that node:
//!
//!  * `min[n]`  — a shortest token sequence matched by node `n` (least fixpoint over the graph;
//!    optional elements are skipped, `one_of` takes its cheapest alternative, leaves take their
//!    raw string or a sample token that the *real* `match_segments` of the leaf accepts);
//!  * a shortest-context derivation tree (Dijkstra from `FileSegment`): an edge parent -> child
//!    carries the tokens the parent needs in front of / behind that child (`Sequence`: `min` of the
//!    required elements before / after; `Bracketed`: plus the brackets; `Ref`/`NodeMatcher`/`one_of`/
//!    `Delimited`: nothing);
//!  * sentence(n) = prefixes along the path ++ body(n) ++ suffixes, where body is `min[n]`, or —
//!    for a reference the dialect does not define — the keyword spelled by the reference name.
//!
//! Variants per target: complete; cut right after the target (`… ;`); the target replaced by a
//! foreign identifier (half-typed statement); complete with every optional element that precedes
//! the target in a sequence of the path present as well (`BEGIN TRANSACTION TO SAVEPOINT x`,
//! `SELECT a FROM x WHERE x GROUP BY 1`).
use std::cmp::Reverse;
use std::collections::{BTreeSet, BinaryHeap, HashMap};

use ahash::AHashMap;
use sqruff_lib_core::dialects::base::Dialect;
use sqruff_lib_core::parser::context::ParseContext;
use sqruff_lib_core::parser::lexer::StringOrTemplate;
use sqruff_lib_core::parser::matchable::{MatchableTrait, MatchableTraitImpl};
use sqruff_lib_core::parser::segments::base::{ErasedSegment, Tables};

use crate::c14::{Graph, Node, dialect_of};
use crate::common::*;

/// Sample raw texts offered to `TypedParser` / `RegexParser` leaves (first accepted one wins).
const LEAF_SAMPLES: &[&str] = &[
    "x", "1", "'a'", "\"a\"", "`a`", "[a]", "1.5", "*", ",", ".", ";", ":", "::", "=", "+", "-", "/", "%", "<", ">", "!", "|", "&", "^", "~", "?", "(", ")", "[", "]", "{", "}", "@a", "@@a", "$1", "$a", ":a",
    "?1", "#a", "$$a$$", "x'00'", "b'0'", "e'a'", "r'a'", "n'a'", "u&'a'", "%s", "%(a)s", "${a}", "{a}", "->", "->>", "=>", "||", "<=>", ":=", "a1", "DAY", "DATE", "INT", "\"\"\"a\"\"\"", "'''a'''", "@", "$", "\\", "..", "#",
    "!=", "<>", "<=", ">=", "&&", "//", "**", "~*", "!~", "@>", "<@", "<<", ">>", "?|", "?&", "#>", "#>>", "#-", "@?", "@@", "-|-", "&<", "&>", "|/", "||/", "<->", "s3://a", "1e3", "0x1", "a.b", "a$b",
];

#[allow(dead_code)]
pub struct Sentence {
    pub sql: String,
    /// description of the targeted node and of the variant
    pub origin: String,
    /// 0 complete, 1 cut after the target, 2 foreign token at the target, 3 complete with the optional elements in
    /// front of the target (in every sequence along the path) present
    pub variant: u8,
    /// the target is a reference (`Ref`) node
    pub is_ref: bool,
    /// the target is a reference to a name the dialect does not define
    pub dangling: bool,
}

pub struct GrammarSentences {
    pub dialect: String,
    pub sentences: Vec<Sentence>,
    pub n_nodes: usize,
    pub n_reachable: usize,
    pub n_targets: usize,
    pub n_no_sentence: usize,
    pub n_leaf_no_sample: usize,
    pub n_dangling_sites: usize,
    /// reachable `Ref` nodes (every `Ref::new` / `Ref::keyword` call site of the grammar is a node of its own)
    pub n_ref_sites: usize,
}

fn keyword_of(name: &str) -> String {
    match name.strip_suffix("KeywordSegment") {
        Some(k) if !k.is_empty() => k.to_uppercase(),
        _ => "x".to_string(),
    }
}

/// Order on candidate token sequences: fewest tokens first; among equally short ones the plainest (an identifier
/// before a number before a quoted literal before a keyword or operator), so that `FROM x` wins over `FROM LOCALTIME`.
fn cost(v: &[String]) -> (usize, usize) {
    let plain = |t: &String| match t.trim_start_matches(GLUE_L).trim_end_matches(GLUE_R) {
        "x" => 0usize,
        "1" => 1,
        "'a'" | "\"a\"" => 2,
        _ => 3,
    };
    (v.len(), v.iter().map(plain).sum())
}

struct Gen<'a> {
    g: &'a Graph,
    /// shortest token sequence per node
    min: Vec<Option<Vec<String>>>,
    leaf: Vec<Option<Vec<String>>>,
}

impl<'a> Gen<'a> {
    fn bracket_texts(&self, n: usize) -> Option<(Vec<String>, Vec<String>)> {
        let (refs, found) = self.g.node_refs(n);
        if !found || refs.len() < 2 {
            return None;
        }
        let s = self.g.deref(refs[0]).and_then(|t| self.min[t].clone())?;
        let e = self.g.deref(refs[1]).and_then(|t| self.min[t].clone())?;
        Some((s, e))
    }
    fn no_gaps(&self, n: usize) -> bool {
        match self.g.handles[n].verif_inner() {
            MatchableTraitImpl::Sequence(q) => !q.allow_gaps,
            _ => false,
        }
    }
    /// what `e` matches when it is present (an optional group has an empty `min`)
    fn present(&self, e: usize) -> Option<Vec<String>> {
        match &self.g.nodes[e] {
            Node::AnyOf { elems, .. } | Node::Delim { elems, .. } => self.cheapest(elems),
            _ => self.min[e].clone(),
        }
    }
    /// `min`, except that the outermost sequence behind `n` (through references and node matchers) has its optional
    /// elements present: `SELECT DISTINCT x` for a select clause whose `min` is `SELECT`
    fn full(&self, n: usize, depth: usize) -> Option<Vec<String>> {
        let g = self.g;
        match &g.nodes[n] {
            Node::Ref { name, .. } if depth < 6 => match g.deref(*name) {
                Some(t) => self.full(t, depth + 1),
                None => self.min[n].clone(),
            },
            Node::NodeM { g: inner, .. } if depth < 6 => self.full(*inner, depth + 1),
            Node::Seq { elems, .. } | Node::Brack { elems, .. } => {
                let mut v = vec![];
                for &e in elems {
                    if self.required(e) {
                        v.extend(self.min[e].clone()?);
                    } else if let Some(p) = self.present(e) {
                        v.extend(p);
                    }
                }
                if matches!(g.nodes[n], Node::Brack { .. }) {
                    let (s, e) = self.bracket_texts(n)?;
                    let mut w = s;
                    w.extend(v);
                    w.extend(e);
                    v = w;
                } else if self.no_gaps(n) {
                    v = glued(v);
                }
                Some(v)
            }
            _ => self.min[n].clone(),
        }
    }
    /// like `seq_min`, but optional elements are present too, and required ones in their `full` form
    fn seq_rich(&self, elems: &[usize]) -> Option<Vec<String>> {
        let mut v = vec![];
        for &e in elems {
            if self.required(e) {
                v.extend(self.full(e, 0).or_else(|| self.min[e].clone())?);
            } else if let Some(p) = self.present(e) {
                v.extend(p);
            }
        }
        Some(v)
    }
    fn required(&self, e: usize) -> bool {
        self.g.optional[e] != Some(true)
    }
    fn seq_min(&self, elems: &[usize]) -> Option<Vec<String>> {
        let mut v = vec![];
        for &e in elems {
            if self.required(e) {
                v.extend(self.min[e].clone()?);
            }
        }
        Some(v)
    }
    fn cheapest(&self, elems: &[usize]) -> Option<Vec<String>> {
        // an alternative that matches nothing is not a match for the real `one_of`: prefer the shortest non-empty one
        let all: Vec<Vec<String>> = elems.iter().filter_map(|&e| self.min[e].clone()).collect();
        all.iter().filter(|v| !v.is_empty()).min_by_key(|v| cost(v)).cloned().or_else(|| all.into_iter().next())
    }
    fn compute(&self, n: usize) -> Option<Vec<String>> {
        let g = self.g;
        match &g.nodes[n] {
            Node::Ref { name, .. } => match g.deref(*name) {
                Some(t) => self.min[t].clone(),
                None => Some(vec![keyword_of(&g.strs[*name])]),
            },
            Node::Seq { elems, .. } => {
                let v = self.seq_min(elems)?;
                Some(if self.no_gaps(n) { glued(v) } else { v })
            }
            Node::Brack { elems, .. } => {
                let (s, e) = self.bracket_texts(n)?;
                let mut v = s;
                v.extend(self.seq_min(elems)?);
                v.extend(e);
                Some(v)
            }
            Node::AnyOf { elems, .. } => {
                if g.optional[n] == Some(true) {
                    return Some(vec![]);
                }
                let times = match g.handles[n].verif_inner() {
                    MatchableTraitImpl::AnyNumberOf(a) => a.min_times.max(1),
                    _ => 1,
                };
                let one = self.cheapest(elems)?;
                let mut v = vec![];
                for _ in 0..times {
                    v.extend(one.iter().cloned());
                }
                Some(v)
            }
            Node::Delim { delim, elems, .. } => {
                if g.optional[n] == Some(true) {
                    return Some(vec![]);
                }
                let nd = match g.handles[n].verif_inner() {
                    MatchableTraitImpl::Delimited(d) => d.min_delimiters,
                    _ => 0,
                };
                let one = self.cheapest(elems)?;
                let mut v = one.clone();
                for _ in 0..nd {
                    v.extend(self.min[*delim].clone()?);
                    v.extend(one.iter().cloned());
                }
                Some(v)
            }
            Node::NodeM { g: inner, .. } => self.min[*inner].clone(),
            Node::Str { .. } | Node::Multi { .. } | Node::Typed { .. } | Node::Regex => self.leaf[n].clone(),
            Node::Meta | Node::Cond | Node::NonCode => Some(vec![]),
            Node::Anything { .. } => Some(vec!["x".into()]),
            Node::Nothing => None,
            Node::BrackSeg => Some(vec!["(".into(), "x".into(), ")".into()]),
        }
    }
    fn fixpoint(&mut self) {
        loop {
            let mut changed = false;
            for n in 0..self.g.nodes.len() {
                if let Some(v) = self.compute(n) {
                    let better = match &self.min[n] {
                        None => true,
                        Some(old) => cost(&v) < cost(old),
                    };
                    if better {
                        self.min[n] = Some(v);
                        changed = true;
                    }
                }
            }
            if !changed {
                break;
            }
        }
    }
    /// derivation edges of `n`: (child, tokens before, tokens after, tokens before when the optional elements in front
    /// of the child are present as well)
    fn edges(&self, n: usize) -> Vec<(usize, Vec<String>, Vec<String>, Vec<String>)> {
        let g = self.g;
        let mut out = vec![];
        match &g.nodes[n] {
            Node::Ref { name, .. } => {
                if let Some(t) = g.deref(*name) {
                    out.push((t, vec![], vec![], vec![]));
                }
            }
            Node::NodeM { g: inner, .. } => out.push((*inner, vec![], vec![], vec![])),
            Node::AnyOf { elems, .. } => {
                for &e in elems {
                    out.push((e, vec![], vec![], vec![]));
                }
            }
            Node::Delim { elems, .. } => {
                for &e in elems {
                    out.push((e, vec![], vec![], vec![]));
                }
            }
            Node::Seq { elems, .. } | Node::Brack { elems, .. } => {
                let (open, close) = if matches!(g.nodes[n], Node::Brack { .. }) {
                    match self.bracket_texts(n) {
                        Some(b) => b,
                        None => return out,
                    }
                } else {
                    (vec![], vec![])
                };
                let tight = self.no_gaps(n);
                for i in 0..elems.len() {
                    let (Some(mut pre), Some(mut post)) = (self.seq_min(&elems[..i]), self.seq_min(&elems[i + 1..])) else { continue };
                    let mut rich = self.seq_rich(&elems[..i]).unwrap_or_else(|| pre.clone());
                    if tight {
                        // the child sits between its neighbours without white space
                        let tighten = |v: Vec<String>| -> Vec<String> {
                            let mut v = glued(v);
                            if let Some(l) = v.last_mut() {
                                *l = glue_right(l);
                            }
                            v
                        };
                        pre = tighten(pre);
                        rich = tighten(rich);
                        post = post.iter().map(|t| glue_left(t)).collect();
                    }
                    let mut p = open.clone();
                    p.extend(pre);
                    let mut r = open.clone();
                    r.extend(rich);
                    let mut s = post;
                    s.extend(close.iter().cloned());
                    out.push((elems[i], p, s, r));
                }
            }
            _ => {}
        }
        out
    }
}

fn lex_single(dialect: &Dialect, tables: &Tables, s: &str) -> Option<Vec<ErasedSegment>> {
    let r = catch(|| dialect.lexer().lex(tables, StringOrTemplate::String(s))).ok()?.ok()?;
    let (toks, errs) = r;
    if !errs.is_empty() {
        return None;
    }
    // exactly one token with text (the lexer appends an end-of-file marker)
    if toks.iter().filter(|t| !t.raw().is_empty()).count() != 1 || toks.first().map(|t| t.raw().as_str() != s).unwrap_or(true) {
        return None;
    }
    Some(toks)
}

/// Tokens of a `Sequence` that does not allow gaps (`>` `=` for ">=", `x` `.` `x`) must be written without
/// white space: a token starting with GLUE_L is glued to its predecessor, one ending with GLUE_R to its successor.
const GLUE_L: char = '\u{1}';
const GLUE_R: char = '\u{2}';
fn glue_left(t: &str) -> String {
    if t.starts_with(GLUE_L) { t.to_string() } else { format!("{}{}", GLUE_L, t) }
}
fn glue_right(t: &str) -> String {
    if t.ends_with(GLUE_R) { t.to_string() } else { format!("{}{}", t, GLUE_R) }
}
/// glue the tokens of `v` to each other
fn glued(v: Vec<String>) -> Vec<String> {
    v.iter().enumerate().map(|(i, t)| if i == 0 { t.clone() } else { glue_left(t) }).collect()
}

pub fn render(tokens: &[String]) -> String {
    let mut s = String::new();
    let mut prev_glue = true;
    for t in tokens {
        if !prev_glue && !t.starts_with(GLUE_L) {
            s.push(' ');
        }
        s.push_str(t.trim_start_matches(GLUE_L).trim_end_matches(GLUE_R));
        prev_glue = t.ends_with(GLUE_R);
    }
    s.push('\n');
    s
}

pub fn sentences(dialect_name: &str) -> GrammarSentences {
    let dialect = dialect_of(dialect_name);
    let g = Graph::build(dialect_name, &dialect);
    let n_nodes = g.nodes.len();
    let tables = Tables::default();
    let cfg: AHashMap<String, bool> = AHashMap::new();

    // leaves: raw strings, or the first sample token the real matcher accepts
    let samples: Vec<(&str, Vec<ErasedSegment>)> = LEAF_SAMPLES.iter().filter_map(|s| lex_single(&dialect, &tables, s).map(|t| (*s, t))).collect();
    let mut leaf: Vec<Option<Vec<String>>> = vec![None; n_nodes];
    let mut n_leaf_no_sample = 0;
    for n in 0..n_nodes {
        match &g.nodes[n] {
            Node::Str { raws } | Node::Multi { raws } => {
                // shortest raw, ties broken alphabetically: deterministic across runs
                let mut rs: Vec<&String> = raws.iter().map(|r| &g.strs[*r]).collect();
                rs.sort_by_key(|r| (r.len(), (*r).clone()));
                leaf[n] = rs.first().map(|r| vec![(*r).clone()]);
            }
            Node::Typed { .. } | Node::Regex => {
                let h = g.handles[n].clone();
                for (s, toks) in &samples {
                    let mut cx = ParseContext::new(&dialect, &cfg);
                    let hit = catch(|| h.match_segments(toks, 0, &mut cx).map(|m| m.has_match()).unwrap_or(false)).unwrap_or(false);
                    if hit {
                        leaf[n] = Some(vec![s.to_string()]);
                        break;
                    }
                }
                if leaf[n].is_none() {
                    n_leaf_no_sample += 1;
                }
            }
            _ => {}
        }
    }

    let mut gen_ = Gen { g: &g, min: vec![None; n_nodes], leaf };
    gen_.fixpoint();

    // Dijkstra over derivation edges from FileSegment
    let mut res = GrammarSentences {
        dialect: dialect_name.to_string(),
        sentences: vec![],
        n_nodes,
        n_reachable: 0,
        n_targets: 0,
        n_no_sentence: 0,
        n_leaf_no_sample,
        n_dangling_sites: 0,
        n_ref_sites: 0,
    };
    let Some(root) = g.deref(0) else { return res };
    let mut dist: Vec<Option<usize>> = vec![None; n_nodes];
    let mut ctx: HashMap<usize, (Vec<String>, Vec<String>, Vec<String>)> = HashMap::new();
    let mut heap = BinaryHeap::new();
    dist[root] = Some(0);
    ctx.insert(root, (vec![], vec![], vec![]));
    heap.push(Reverse((0usize, root)));
    let mut order = vec![];
    let mut done = vec![false; n_nodes];
    while let Some(Reverse((d, n))) = heap.pop() {
        if done[n] {
            continue;
        }
        done[n] = true;
        order.push(n);
        let (pn, sn, rn) = ctx[&n].clone();
        for (c, pre, post, rich) in gen_.edges(n) {
            let nd = d + pre.len() + post.len();
            if dist[c].map(|old| nd < old).unwrap_or(true) && !done[c] {
                dist[c] = Some(nd);
                let mut p = pn.clone();
                p.extend(pre);
                let mut s = post;
                s.extend(sn.iter().cloned());
                let mut r = rn.clone();
                r.extend(rich);
                ctx.insert(c, (p, s, r));
                heap.push(Reverse((nd, c)));
            }
        }
    }
    res.n_reachable = order.len();

    let mut seen: BTreeSet<String> = BTreeSet::new();
    for &n in &order {
        let (is_ref, dangling) = match &g.nodes[n] {
            Node::Ref { name, .. } => (true, g.deref(*name).is_none()),
            _ => (false, false),
        };
        // a node that consumes nothing (meta, conditional, an optional group) is not a target of its own
        if matches!(g.nodes[n], Node::Meta | Node::Cond | Node::NonCode | Node::Nothing) {
            continue;
        }
        res.n_targets += 1;
        if is_ref {
            res.n_ref_sites += 1;
        }
        if dangling {
            res.n_dangling_sites += 1;
        }
        let (p, s, r) = &ctx[&n];
        // body: for an optional group `min` is empty — take what the group matches when present
        let body: Option<Vec<String>> = match &g.nodes[n] {
            Node::AnyOf { elems, .. } | Node::Delim { elems, .. } => gen_.cheapest(elems),
            _ => gen_.min[n].clone(),
        };
        let Some(body) = body else {
            res.n_no_sentence += 1;
            continue;
        };
        let desc = format!("{}#{}", g.describe(n), n);
        let mut emit = |toks: Vec<String>, variant: u8, what: &str| {
            let sql = render(&toks);
            if seen.insert(sql.clone()) {
                res.sentences.push(Sentence { sql, origin: format!("{} {}", desc, what), variant, is_ref, dangling });
            }
        };
        let mut full = p.clone();
        full.extend(body.iter().cloned());
        full.extend(s.iter().cloned());
        emit(full, 0, "complete");
        let mut cut = p.clone();
        cut.extend(body.iter().cloned());
        cut.push(";".into());
        emit(cut, 1, "cut-after");
        let mut foreign = p.clone();
        foreign.push("x".into());
        foreign.extend(s.iter().cloned());
        emit(foreign, 2, "foreign-token");
        if r != p {
            let mut rich = r.clone();
            rich.extend(body.iter().cloned());
            rich.extend(s.iter().cloned());
            emit(rich, 3, "complete, optional elements in front present");
        }
    }
    res
}
