//! C17 — not built yet.
use crate::common::*;

pub fn main(_args: &Args) {
    eprintln!("c17: not built yet");
    std::process::exit(2);
}
