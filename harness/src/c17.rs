//! C17 — clean files are left alone and formatting is stable.
//!
//! Per input: the real fix loop is run with the hook installed and every event is recorded with
//! trees interned to numbers (structure + positions), giving the oracle tables the Gallina loop
//! model is replayed on (group `loop`: which batches were accepted, every pass end, the final
//! tree must be predicted exactly). The mask step of the loop is tied separately (group `mask`): the
//! harness crawls every rule on the initial tree itself and asks the file's IgnoreMask about every
//! result; from that table the model predicts what lint reports per rule and which rule produces the
//! first batch. Direct observations: fix is deterministic (repeat in-process), a file without
//! violations is returned byte-identical (also when it is clean only because noqa directives silence
//! its violations), the first batch of a fix run comes from a rule lint reports, and with the layout
//! rules selected (alone, or mixed with rewriting rules in the classes built for that) fix(fix x) = fix x.
//! The three hypotheses of the idempotence theorem are monitored per input.
//! Classes added later widen the explored space without moving the earlier inputs (own generator states): noqa directives,
//! limits put on an edited line, mixed selections; comments at structural boundaries; every layout option of the
//! configuration file at its non-default values (kept only where the option makes a difference). In the last two groups fix is
//! repeated through `lint_string(fix = true)` with the long-lived and with fresh linters.
use std::cell::RefCell;
use std::collections::HashMap;
use std::rc::Rc;

use serde_json::{Value, json};
use sqruff_lib::core::config::FluffConfig;
use sqruff_lib::core::linter::core::{Linter, verif_hook};
use sqruff_lib::core::rules::base::LintPhase;
use sqruff_lib::core::rules::noqa::IgnoreMask;
use sqruff_lib_core::parser::segments::base::{ErasedSegment, Tables};

use crate::c04::{fnv, perturb};
use crate::common::*;

const LAYOUT: &str = "LT01,LT02,LT03,LT04,LT05,LT06,LT07,LT08,LT09,LT10,LT11,LT12,LT13";
const RULESETS: &[(&str, bool)] = &[
    (LAYOUT, true),
    ("all", false),
    ("core", false),
    (LAYOUT, true),
    ("LT01,LT02,LT12", true),
    ("CP01,CP02,CP03,CP04,CP05,LT01", false),
    ("AL01,AL02,AL05,ST05,ST06,CV06,LT01,LT02", false),
];
const EXTRA: &[&str] = &["", "max_line_length = 60\n", "max_line_length = 120\n"];
/// Selections that contain every layout rule *and* rules that rewrite code (used by the classes added for the
/// interplay "a non-layout rule edits a token in place, a layout rule has to react in the same fix run").
const CONVENTION: &str = "LT01,LT02,LT03,LT04,LT05,LT06,LT07,LT08,LT09,LT10,LT11,LT12,LT13,CV01,CV02,CV03,CV04,CV05,CV06,CV07,CV08,CV09,CV10,CV11";
const REWRITERS: &str = "LT01,LT02,LT03,LT04,LT05,LT06,LT07,LT08,LT09,LT10,LT11,LT12,LT13,AL01,AL02,AL05,AL09,AM01,AM02,CP01,CP02,CP03,CP04,CP05,CV02,CV05,CV11,ST01,ST02,ST08,ST09,RF03";
const MIXED: &[&str] = &["core", CONVENTION, "all", REWRITERS];

/// How the text of an item is derived (with the item's own linter) before it is explored.
#[derive(Clone, Copy, PartialEq, Debug)]
enum Derive {
    None,
    /// `-- noqa: disable=all` in front of the file
    NoqaAll,
    /// `/* noqa: disable=all */` in front of the file
    NoqaAllBlock,
    /// ` -- noqa` at the end of every line lint reports
    NoqaBare,
    /// ` -- noqa: <codes>` at the end of every line lint reports (the codes reported on that line)
    NoqaCodes,
    /// `-- noqa: disable=<codes>` in front, `-- noqa: enable=<codes>` behind (the codes lint reports)
    NoqaRange,
    /// as NoqaCodes but only every other reported line is silenced: the file stays unclean, part of the violations are masked
    NoqaPartial,
    /// `max_line_length` := (length of the k-th line on which lint reports a violation of a non-layout rule (the `fixable`
    /// flag is not looked at: CV05, ST01, … rewrite code without declaring themselves fix-compatible),
    /// or of the longest line when there is none) + d
    LimitAtEdited { d: i64, k: usize, only_edited: bool },
    /// keep the input only if the layout options of its configuration make a difference on it: what lint reports or what
    /// fix returns differs from the same run without them (same dialect, rules and `limit`)
    OptionsMatter { limit: Option<usize> },
}

struct Item {
    cls: &'static str,
    dialect: String,
    rules: String,
    layout: bool,
    extra: String,
    sql: String,
    derive: Derive,
}
fn item_json(it: &Item) -> Value {
    json!({"cls":it.cls,"dialect":it.dialect,"rules":it.rules,"layout":it.layout,"extra":it.extra,"sql":it.sql})
}

/// (line, code) of everything lint reports; code "" for rule-less violations
fn reported(linter: &Linter, sql: &str) -> Option<Vec<(usize, &'static str, bool)>> {
    let l = catch(|| linter.lint_string(sql, None, false)).ok()?;
    Some(l.violations.iter().map(|v| (v.line_no, v.rule.as_ref().map(|r| r.code).unwrap_or(""), v.fixable)).collect())
}

fn before_of(linter: &Linter, sql: &str) -> Option<Vec<(usize, usize, &'static str)>> {
    let l = catch(|| linter.lint_string(sql, None, false)).ok()?;
    Some(l.violations.iter().map(|v| (v.line_no, v.line_pos, v.rule.as_ref().map(|r| r.code).unwrap_or(""))).collect())
}

/// Own light disturbance of layout and capitalisation for the classes added later (independent of `c04::perturb`, so
/// that their inputs do not move when that one is changed): double some spaces, move some commas, flip the case of
/// some words; string literals and comments are left alone.
fn ruffle(rng: &mut Rng, text: &str) -> String {
    if !text.is_ascii() {
        return text.to_string();
    }
    let b = text.as_bytes();
    let mut out = String::with_capacity(b.len() + 32);
    let (mut i, mut quote, mut comment) = (0usize, 0u8, false);
    while i < b.len() {
        let c = b[i];
        if comment {
            comment = c != b'\n';
        } else if quote != 0 {
            if c == quote {
                quote = 0;
            }
        } else if c == b'\'' || c == b'"' || c == b'`' {
            quote = c;
        } else if (c == b'-' && b.get(i + 1) == Some(&b'-')) || c == b'#' || (c == b'/' && b.get(i + 1) == Some(&b'*')) {
            comment = true;
        } else if c == b' ' && rng.chance(1, 7) {
            out.push_str(["  ", "   ", "\n"][rng.below(3)]);
            i += 1;
            continue;
        } else if c == b',' && rng.chance(1, 4) {
            out.push_str([" ,", ",  ", ",\n"][rng.below(3)]);
            i += 1;
            continue;
        } else if c.is_ascii_alphabetic() && (i == 0 || !(b[i - 1].is_ascii_alphanumeric() || b[i - 1] == b'_')) && rng.chance(1, 8) {
            let mut j = i;
            while j < b.len() && (b[j].is_ascii_alphanumeric() || b[j] == b'_') {
                j += 1;
            }
            let w = &text[i..j];
            out.push_str(&if rng.chance(1, 2) { w.to_ascii_uppercase() } else { w.to_ascii_lowercase() });
            i = j;
            continue;
        }
        out.push(c as char);
        i += 1;
    }
    out
}

/// Where a source line ends, seen without parsing: in code (with the last code character and whether the line already
/// carries a line comment), or inside a string / block comment that continues on the next line.
struct LineEnd {
    in_code: bool,
    has_line_comment: bool,
    last_code: u8,
}
fn line_ends(text: &str) -> Vec<LineEnd> {
    let b = text.as_bytes();
    let mut out = vec![];
    let (mut i, mut quote, mut block) = (0usize, 0u8, false);
    let (mut line_comment, mut last_code) = (false, 0u8);
    while i <= b.len() {
        if i == b.len() || b[i] == b'\n' {
            if i < b.len() || !text.ends_with('\n') {
                out.push(LineEnd { in_code: quote == 0 && !block, has_line_comment: line_comment, last_code });
            }
            line_comment = false;
            last_code = 0;
            i += 1;
            continue;
        }
        let c = b[i];
        if line_comment {
        } else if block {
            if c == b'*' && b.get(i + 1) == Some(&b'/') {
                block = false;
                i += 1;
            }
        } else if quote != 0 {
            if c == quote {
                quote = 0;
            }
        } else if c == b'\'' || c == b'"' || c == b'`' {
            quote = c;
            last_code = c;
        } else if (c == b'-' && b.get(i + 1) == Some(&b'-')) || c == b'#' {
            line_comment = true;
        } else if c == b'/' && b.get(i + 1) == Some(&b'*') {
            block = true;
            i += 1;
        } else if !c.is_ascii_whitespace() {
            last_code = c;
        }
        i += 1;
    }
    out
}

/// Comments at structural boundaries: a comment behind the code of a line (block or inline) and / or comment-only lines
/// directly after it, at line ends chosen by `mode`: 0 = any line end (one in three), 1 = every line whose code ends
/// with a closing bracket (or a closing bracket and a comma), 2 = every line whose code ends with a comma, 3 = every
/// line end. Strings and existing comments are left alone; no blank line is added or removed.
pub fn commentate(rng: &mut Rng, text: &str, mode: usize) -> String {
    if !text.is_ascii() {
        return text.to_string();
    }
    let ends = line_ends(text);
    let lines: Vec<&str> = text.split_inclusive('\n').collect();
    let mut out = String::with_capacity(text.len() + 64);
    let mut n = 0usize;
    for (i, l) in lines.iter().enumerate() {
        let body = l.trim_end_matches(['\n', '\r']);
        let nl = &l[body.len()..];
        let Some(e) = ends.get(i) else {
            out.push_str(l);
            continue;
        };
        let code = body.trim_end();
        let closer = e.last_code == b')' || (e.last_code == b',' && code.trim_end_matches(',').trim_end().ends_with(')'));
        let chosen = e.in_code
            && !body.trim().is_empty()
            && match mode {
                0 => rng.chance(1, 3),
                1 => closer,
                2 => e.last_code == b',',
                _ => true,
            };
        if !chosen {
            out.push_str(l);
            continue;
        }
        out.push_str(body);
        let last = nl.is_empty();
        if !e.has_line_comment {
            n += 1;
            match rng.below(if last { 3 } else { 4 }) {
                0 => out.push_str(&format!("  /* c{} */", n)),
                1 => out.push_str(&format!(" -- c{}", n)),
                2 => out.push_str(&format!(" /* c{} */ -- d{}", n, n)),
                _ => {}
            }
        }
        out.push_str(nl);
        if !last {
            let indent = &body[..body.len() - body.trim_start().len()];
            for _ in 0..[0usize, 1, 1, 2, 3][rng.below(5)] {
                n += 1;
                if rng.chance(1, 2) {
                    out.push_str(indent);
                }
                if rng.chance(1, 4) {
                    out.push_str(&format!("/* e{} */", n));
                } else {
                    out.push_str(&format!("-- e{}", n));
                }
                out.push_str(nl);
            }
        }
    }
    out
}

/// Unformatted text: line breaks in code (not behind a line comment, not inside a string or block comment, not at a
/// blank line) become a space, three out of four; the line a rule has to break again keeps what was behind it.
pub fn joinlines(rng: &mut Rng, text: &str) -> String {
    if !text.is_ascii() {
        return text.to_string();
    }
    let ends = line_ends(text);
    let lines: Vec<&str> = text.split_inclusive('\n').collect();
    let mut out = String::with_capacity(text.len());
    let mut joined = false;
    for (i, l) in lines.iter().enumerate() {
        let l = if joined { l.trim_start_matches([' ', '\t']) } else { l };
        let body = l.trim_end_matches(['\n', '\r']);
        let next_blank = lines.get(i + 1).map(|n| n.trim().is_empty()).unwrap_or(true);
        joined = ends.get(i).is_some_and(|e| e.in_code && !e.has_line_comment) && !body.trim().is_empty() && !next_blank && l.len() > body.len() && rng.chance(3, 4);
        if joined {
            out.push_str(body.trim_end());
            out.push(' ');
        } else {
            out.push_str(l);
        }
    }
    out
}

/// The layout options of the configuration file, each with its values other than the default and with what a text has to
/// contain (upper-cased) for the option to have something to act on (candidates are drawn among such texts; whether the
/// option then makes a difference is decided by running lint and fix with and without it).
pub const KNOBS: &[(&str, &str, &[&str], &[&str])] = &[
    ("rules:layout.long_lines", "ignore_comment_lines", &["True"], &["--", "/*"]),
    ("rules:layout.long_lines", "ignore_comment_clauses", &["True"], &["COMMENT"]),
    ("rules:layout.select_targets", "wildcard_policy", &["multiple"], &["*"]),
    ("indentation", "indent_unit", &["tab"], &["\n"]),
    ("indentation", "tab_space_size", &["2", "8"], &["\n"]),
    ("indentation", "indented_joins", &["True"], &["JOIN"]),
    ("indentation", "indented_ctes", &["True"], &["WITH"]),
    ("indentation", "indented_using_on", &["False"], &[" ON ", "USING", "\nON"]),
    ("indentation", "indented_on_contents", &["False"], &[" ON ", "\nON"]),
    ("indentation", "indented_then", &["False"], &["THEN"]),
    ("indentation", "indented_then_contents", &["False"], &["THEN"]),
    ("indentation", "allow_implicit_indents", &["True"], &["WHERE", " ON ", "CASE"]),
    ("indentation", "trailing_comments", &["after"], &["--", "/*"]),
    ("layout:type:comma", "line_position", &["leading"], &[","]),
    ("layout:type:binary_operator", "line_position", &["trailing"], &["+", "-", "*", "/", "||", " AND ", " OR "]),
    ("layout:type:comparison_operator", "line_position", &["trailing"], &["=", "<", ">"]),
];
/// configuration text (behind the `[sqruff]` keys) for a choice of (knob, value index) pairs
pub fn knob_config(limit: Option<usize>, choice: &[(usize, usize)]) -> String {
    let mut out = String::new();
    if let Some(l) = limit {
        out.push_str(&format!("max_line_length = {}\n", l));
    }
    let mut secs: Vec<&str> = vec![];
    for (k, _) in choice {
        if !secs.contains(&KNOBS[*k].0) {
            secs.push(KNOBS[*k].0);
        }
    }
    for s in secs {
        out.push_str(&format!("[sqruff:{}]\n", s));
        for (k, v) in choice {
            if KNOBS[*k].0 == s {
                out.push_str(&format!("{} = {}\n", KNOBS[*k].1, KNOBS[*k].2[*v]));
            }
        }
    }
    out
}

fn append_to_line(sql: &str, line_no: usize, what: &str) -> String {
    let mut out = String::with_capacity(sql.len() + what.len());
    for (i, l) in sql.split_inclusive('\n').enumerate() {
        if i + 1 == line_no {
            let body = l.trim_end_matches(['\n', '\r']);
            out.push_str(body);
            out.push_str(what);
            out.push_str(&l[body.len()..]);
        } else {
            out.push_str(l);
        }
    }
    if line_no > sql.split_inclusive('\n').count() {
        out.push_str(what);
    }
    out
}

/// Silence what lint reports with noqa directives (never looks at what fix does).
/// The line-length limit for `Derive::LimitAtEdited` (from what lint reports with the default limit).
fn derive_limit(linter: &Linter, sql: &str, d: i64, k: usize) -> Option<(i64, bool)> {
    let rep = reported(linter, sql)?;
    let lens: Vec<usize> = sql.lines().map(|l| l.chars().count()).collect();
    let edited: std::collections::BTreeSet<usize> = rep.iter().filter(|r| !r.1.is_empty() && !r.1.starts_with("LT") && r.0 >= 1 && r.0 <= lens.len()).map(|r| r.0).collect();
    let edited: Vec<usize> = edited.into_iter().collect();
    let (l, on_edit) = if edited.is_empty() { (*lens.iter().max()?, false) } else { (lens[edited[k % edited.len()] - 1], true) };
    Some((l as i64 + d, on_edit))
}

fn derive_sql(linter: &Linter, sql: &str, d: Derive) -> Option<String> {
    match d {
        Derive::None | Derive::LimitAtEdited { .. } | Derive::OptionsMatter { .. } => Some(sql.to_string()),
        Derive::NoqaAll => Some(format!("-- noqa: disable=all\n{}", sql)),
        Derive::NoqaAllBlock => Some(format!("/* noqa: disable=all */\n{}", sql)),
        Derive::NoqaRange => {
            let rep = reported(linter, sql)?;
            let codes: std::collections::BTreeSet<&str> = rep.iter().map(|r| r.1).filter(|c| !c.is_empty()).collect();
            if codes.is_empty() {
                return Some(sql.to_string());
            }
            let codes = codes.into_iter().collect::<Vec<_>>().join(",");
            let nl = if sql.ends_with('\n') { "" } else { "\n" };
            Some(format!("-- noqa: disable={}\n{}{}-- noqa: enable={}\n", codes, sql, nl, codes))
        }
        Derive::NoqaBare | Derive::NoqaCodes | Derive::NoqaPartial => {
            let mut cur = sql.to_string();
            // a directive can itself move a violation (line length, trailing comment): a few rounds
            for round in 0..4 {
                let rep = reported(linter, &cur)?;
                let mut by_line: std::collections::BTreeMap<usize, std::collections::BTreeSet<&str>> = Default::default();
                for (l, c, _) in &rep {
                    by_line.entry(*l).or_default().insert(*c);
                }
                if by_line.is_empty() || (d == Derive::NoqaPartial && round > 0) {
                    break;
                }
                for (n, (l, codes)) in by_line.iter().enumerate() {
                    if d == Derive::NoqaPartial && n % 2 == 1 {
                        continue;
                    }
                    let what = if d == Derive::NoqaBare || codes.contains("") || round > 1 {
                        " -- noqa".to_string()
                    } else {
                        format!(" -- noqa: {}", codes.iter().cloned().collect::<Vec<_>>().join(","))
                    };
                    cur = append_to_line(&cur, *l, &what);
                }
            }
            Some(cur)
        }
    }
}
/// how often fix is repeated beyond the two recorded runs (classes added for C17-4 / C17-5, and replays)
fn repeats(cls: &str) -> usize {
    if cls.starts_with("comment-") || cls.starts_with("layout-config") || cls == "replay" { 3 } else { 0 }
}
fn first_diff(a: &str, b: &str) -> usize {
    a.bytes().zip(b.bytes()).position(|(x, y)| x != y).unwrap_or(a.len().min(b.len()))
}
/// `a` from a little before the first byte at which it differs from `b`
fn from_diff(a: &str, b: Option<&String>) -> String {
    let mut at = b.map(|b| first_diff(a, b)).unwrap_or(0).saturating_sub(80);
    while !a.is_char_boundary(at) {
        at -= 1;
    }
    trunc(&a[at..], 240)
}
fn cfg(it: &Item) -> String {
    format!("[sqruff]\ndialect = {}\nrules = {}\n{}", it.dialect, it.rules, it.extra)
}

fn dump(seg: &ErasedSegment, with_pos: bool, o: &mut String) {
    use std::fmt::Write;
    let _ = write!(o, "({:?}", seg.get_type());
    if with_pos {
        if let Some(p) = seg.get_position_marker() {
            let _ = write!(o, "@{}:{}:{}:{}", p.source_slice.start, p.source_slice.end, p.templated_slice.start, p.templated_slice.end);
        }
    }
    if seg.segments().is_empty() {
        let _ = write!(o, " {:?}", seg.raw().as_str());
    } else {
        for c in seg.segments() {
            dump(c, with_pos, o);
        }
    }
    o.push(')');
}

#[derive(Default, Clone, PartialEq)]
struct LoopRec {
    t0: usize,
    fin: usize,
    batches: Vec<(bool, usize, usize, bool)>,
    passends: Vec<(bool, usize, bool)>,
    ctab: Vec<(usize, usize, usize)>,
    ktab: Vec<(usize, usize)>,
    nondet: bool,
    ended: bool,
    final_dump: String,
    final_raw: String,
    unknown_rule: bool,
}

struct Run {
    rec: LoopRec,
    fixed: String,
    source: String,
}

/// one real fix run with the loop recorded
fn fix_rec(linter: &Linter, sql: &str) -> Result<Run, String> {
    let tables = Tables::default();
    let parsed = catch(|| linter.parse_string(&tables, sql, None)).map_err(|m| format!("parse: {}", m))?.map_err(|e| format!("parse: {}", e.value))?;
    if parsed.tree.is_none() {
        return Err("no tree".into());
    }
    let codes: Vec<&'static str> = linter.rules().iter().map(|r| r.code()).collect();
    let source = parsed.templated_file.source_str.clone();
    let rec = Rc::new(RefCell::new(LoopRec::default()));
    let trees: Rc<RefCell<HashMap<String, usize>>> = Rc::new(RefCell::new(HashMap::new()));
    let keys: Rc<RefCell<HashMap<String, usize>>> = Rc::new(RefCell::new(HashMap::new()));
    let (r2, t2, k2) = (rec.clone(), trees.clone(), keys.clone());
    let intern = move |seg: &ErasedSegment, rec: &mut LoopRec| -> usize {
        let mut s = String::new();
        dump(seg, true, &mut s);
        let mut t = t2.borrow_mut();
        let n = t.len();
        let id = *t.entry(s).or_insert(n);
        if id == n {
            let mut k = k2.borrow_mut();
            let nk = k.len();
            let kid = *k.entry(seg.raw().to_string()).or_insert(nk);
            rec.ktab.push((id, kid));
        }
        id
    };
    verif_hook::FIX_HOOK.with(|h| {
        *h.borrow_mut() = Some(Box::new(move |ev| {
            let mut rec = r2.borrow_mut();
            match ev {
                verif_hook::FixEvent::Start { tree, .. } => rec.t0 = intern(tree, &mut rec),
                verif_hook::FixEvent::Batch { phase, pass, rule, before, after, accepted, .. } => {
                    let b = intern(before, &mut rec);
                    let a = intern(after, &mut rec);
                    let Some(ri) = codes.iter().position(|c| *c == rule) else {
                        rec.unknown_rule = true;
                        return;
                    };
                    match rec.ctab.iter().find(|(r, t, _)| *r == ri && *t == b) {
                        Some((_, _, v)) if *v != a => rec.nondet = true,
                        Some(_) => {}
                        None => rec.ctab.push((ri, b, a)),
                    }
                    rec.batches.push((phase == LintPhase::Post, pass, ri, accepted));
                }
                verif_hook::FixEvent::PassEnd { phase, pass, changed } => rec.passends.push((phase == LintPhase::Post, pass, changed)),
                verif_hook::FixEvent::End { tree } => {
                    rec.fin = intern(tree, &mut rec);
                    rec.ended = true;
                    let mut s = String::new();
                    dump(tree, false, &mut s);
                    rec.final_dump = s;
                    rec.final_raw = tree.raw().to_string();
                }
            }
        }))
    });
    let r = catch(|| linter.lint_parsed(&tables, parsed, true));
    verif_hook::FIX_HOOK.with(|h| *h.borrow_mut() = None);
    let linted = r.map_err(|m| format!("lint: {}", m))?;
    let fixed = catch(|| linted.fix_string()).map_err(|m| format!("fix_string: {}", m))?;
    let rec = rec.borrow().clone();
    if !rec.ended {
        return Err("no end event".into());
    }
    Ok(Run { rec, fixed, source })
}

/// The oracle answers of the mask step of the loop on the initial tree: per rule (registry order) the raw results of
/// `Rule::crawl` as (is_masked by the file's IgnoreMask, has fixes). `None` when something panics.
fn mask_table(linter: &Linter, sql: &str) -> Option<Vec<Vec<(bool, bool)>>> {
    let tables = Tables::default();
    let parsed = catch(|| linter.parse_string(&tables, sql, None)).ok()?.ok()?;
    let tree = parsed.tree.clone()?;
    let disable_noqa = linter.config().get("disable_noqa", "core").as_bool().unwrap_or(false);
    let mask = if disable_noqa { None } else { Some(catch(|| IgnoreMask::from_tree(&tree)).ok()?.0) };
    let mut tab = vec![];
    for rule in linter.rules() {
        let errs = catch(|| rule.crawl(&tables, linter.config().get_dialect(), &parsed.templated_file, tree.clone(), linter.config())).ok()?;
        // a result without a rule is the marker `crawl` leaves when the rule body panicked (C03): not a result of the rule
        tab.push(errs.iter().filter(|e| e.rule.is_some()).map(|e| (mask.as_ref().is_some_and(|m| m.is_masked(e)), !e.fixes.is_empty())).collect());
    }
    Some(tab)
}

type Linters = HashMap<String, Linter>;

/// linters are big (a dialect's grammar each): a bounded per-thread cache
fn get_linter(ls: &mut Linters, key: &str, out: &mut Buf) -> bool {
    if ls.contains_key(key) {
        return true;
    }
    if ls.len() >= 24 {
        ls.clear();
    }
    match catch(|| Linter::new(FluffConfig::from_source(key, None), None, None, true)) {
        Ok(l) => {
            ls.insert(key.to_string(), l);
            true
        }
        Err(_) => {
            out.count("config_rejected", 1);
            false
        }
    }
}

fn run_one(ls: &mut Linters, it: &Item, out: &mut Buf) {
    let key = cfg(it);
    if !get_linter(ls, &key, out) {
        return;
    }
    // ---- derived classes: text / limit are built with this item's linter from what lint reports (never from what fix does)
    let derived;
    let mut masked_some = false;
    let (it, key) = if it.derive == Derive::None {
        (it, key)
    } else {
        let linter = &ls[&key];
        let before = reported(linter, &it.sql);
        let Some(sql) = derive_sql(linter, &it.sql, it.derive) else {
            out.count("skipped_panic_or_no_tree (C03)", 1);
            return;
        };
        let mut extra = it.extra.clone();
        if let Derive::LimitAtEdited { d, k, only_edited } = it.derive {
            match derive_limit(linter, &it.sql, d, k) {
                Some((l, on_edit)) if l >= 12 && (on_edit || !only_edited) => {
                    extra = format!("max_line_length = {}\n", l);
                    if on_edit {
                        out.count("limit_put_on_a_line_a_rewriting_rule_reports_on", 1);
                    }
                }
                _ => return,
            }
        }
        if let Derive::OptionsMatter { limit } = it.derive {
            let seen = |l: &Linter| (before_of(l, &it.sql), catch(|| l.lint_string(&it.sql, None, true).fix_string()).ok());
            let with = seen(linter);
            let base = Item { cls: it.cls, dialect: it.dialect.clone(), rules: it.rules.clone(), layout: it.layout, extra: knob_config(limit, &[]), sql: String::new(), derive: Derive::None };
            let base_key = cfg(&base);
            if !get_linter(ls, &base_key, out) {
                return;
            }
            out.count("layout_config_candidates", 1);
            if seen(&ls[&base_key]) == with {
                out.count("layout_config_candidates_dropped (the options make no difference to lint or fix)", 1);
                return;
            }
        }
        masked_some = before.map(|b| !b.is_empty()).unwrap_or(false);
        derived = Item { cls: it.cls, dialect: it.dialect.clone(), rules: it.rules.clone(), layout: it.layout, extra, sql, derive: Derive::None };
        let key = cfg(&derived);
        if !get_linter(ls, &key, out) {
            return;
        }
        (&derived, key)
    };
    let linter = &ls[&key];
    let input = item_json(it);
    out.count("inputs", 1);
    let h = fnv(&format!("{}|{}", key, it.sql));
    let r1 = match fix_rec(linter, &it.sql) {
        Ok(r) => r,
        Err(_) => {
            out.count("skipped_panic_or_no_tree (C03)", 1);
            return;
        }
    };
    let rec = &r1.rec;
    if rec.unknown_rule {
        out.count("skipped_unknown_rule_code", 1);
        return;
    }
    let changed = !rec.batches.iter().all(|b| !b.3);
    if changed {
        out.count("runs_with_accepted_batch", 1);
    }
    if rec.batches.iter().any(|b| !b.3) {
        out.count("runs_with_guard_rejection", 1);
    }
    let n_main = rec.passends.iter().filter(|p| !p.0).count();
    if n_main >= 10 && rec.passends.iter().filter(|p| !p.0).all(|p| p.2) {
        out.count("runs_main_phase_hit_limit", 1);
    }
    if n_main > 2 {
        out.count("runs_with_more_than_two_main_passes", 1);
    }

    // ---- correspondence: the loop model replayed on the recorded oracle answers
    let rules_meta: Vec<(bool, bool)> = linter.rules().iter().map(|r| (r.lint_phase() == LintPhase::Post, r.is_fix_compatible())).collect();
    let args = g_tuple(&[
        g_list(rules_meta.iter().map(|(p, f)| g_tuple(&[g_bool(*p), g_bool(*f)]))),
        g_list(rec.ctab.iter().map(|(r, t, v)| g_tuple(&[g_n(*r), g_n(*t), g_n(*v)]))),
        g_list(rec.ktab.iter().map(|(t, k)| g_tuple(&[g_n(*t), g_n(*k)]))),
        g_n(rec.t0),
    ]);
    let exp = g_tuple(&[
        g_list(rec.batches.iter().map(|(p, n, r, a)| g_tuple(&[g_bool(*p), g_n(*n), g_n(*r), g_bool(*a)]))),
        g_list(rec.passends.iter().map(|(p, n, c)| g_tuple(&[g_bool(*p), g_n(*n), g_bool(*c)]))),
        g_n(rec.fin),
    ]);
    let sample = json!({"input":input,"batches":rec.batches,"passends":rec.passends,"final":rec.fin,"n_rules":rules_meta.len()});
    out.case("loop", it.cls, !rec.batches.is_empty(), args, exp, sample);
    out.hyp("H_det (within a run): the same rule on the same tree gives the same result", "blocking", !rec.nondet, json!({"input":input}));

    // ---- direct: deterministic
    let r2 = fix_rec(linter, &it.sql);
    match &r2 {
        Ok(r2) => {
            out.direct("deterministic", r2.fixed == r1.fixed, &format!("c17-nondet-{:016x}", h), "two in-process fix runs of the same input gave different text", input.clone());
            out.hyp("H_det (across runs): same event stream and final tree", "blocking", r2.rec == r1.rec, json!({"input":input}));
        }
        Err(_) => out.direct("deterministic", false, &format!("c17-nondet-{:016x}", h), "second fix run of the same input panicked", input.clone()),
    }
    // the classes built around positions a rule has to choose among (comments, layout options): fix is repeated through the
    // other public entry point (`lint_string(.., fix = true)`, no hook installed), with the long-lived linter and with
    // fresh ones; every run must give the text of the first
    if repeats(it.cls) > 0 {
        let mut texts: Vec<String> = vec![];
        for k in 0..repeats(it.cls) {
            let fresh = if k % 2 == 1 { catch(|| Linter::new(FluffConfig::from_source(&key, None), None, None, true)).ok() } else { None };
            let l = fresh.as_ref().unwrap_or(linter);
            match catch(|| l.lint_string(&it.sql, None, true).fix_string()) {
                Ok(t) => texts.push(t),
                Err(_) => texts.push("<panic>".into()),
            }
        }
        out.count("inputs_fixed_repeatedly (same linter and fresh linters)", 1);
        let other = texts.iter().find(|t| **t != r1.fixed);
        out.direct(
            "deterministic-repeated",
            other.is_none(),
            &format!("c17-nondet-{:016x}", h),
            &format!("{} fix runs of the same input with the same configuration gave different texts, from byte {} on: {:?} / {:?}", texts.len() + 1, other.map(|o| first_diff(&r1.fixed, o)).unwrap_or(0), from_diff(&r1.fixed, other), from_diff(other.map(|s| s.as_str()).unwrap_or(""), Some(&r1.fixed))),
            input.clone(),
        );
    }

    // ---- direct: clean files are left alone
    let lint0 = catch(|| linter.lint_string(&it.sql, None, false));
    // (the classes added for layout options and comments have no directives: the mask step is not replayed for them)
    if let (Ok(l0), Some(tab)) = (&lint0, if repeats(it.cls) > 0 && it.cls != "replay" { None } else { mask_table(linter, &it.sql) }) {
        // ---- correspondence: the mask step of the loop (group `mask`): from the raw crawl results and the mask's answers
        // the model predicts how many violations of each rule lint reports and which rule produces the first batch
        let reported: Vec<usize> = linter.rules().iter().map(|r| l0.violations.iter().filter(|v| v.rule.as_ref().map(|x| x.code) == Some(r.code())).count()).collect();
        let first = rec.batches.first().map(|b| b.2);
        let args = g_list(tab.iter().map(|es| g_list(es.iter().map(|(m, f)| g_tuple(&[g_bool(*m), g_bool(*f)])))));
        let exp = g_tuple(&[g_list(reported.iter().map(|n| g_n(*n))), g_opt(first.map(g_n))]);
        let n_masked: usize = tab.iter().map(|es| es.iter().filter(|e| e.0).count()).sum();
        if n_masked > 0 {
            out.count("runs_with_masked_results", 1);
            if tab.iter().any(|es| es.iter().any(|e| e.0 && e.1)) {
                out.count("runs_with_masked_results_that_carry_fixes", 1);
            }
        }
        out.case("mask", it.cls, n_masked > 0, args, exp, json!({"input":input,"reported":reported,"first_batch_rule":first,"masked_results":n_masked}));
    }
    if let Ok(l0) = &lint0 {
        // the loop acts on what lint reports and on nothing else: the first batch of a fix run is computed on the tree lint
        // saw, so its rule must be one lint reports a violation of (with or without noqa directives in the file)
        if let Some(b) = rec.batches.first() {
            let code = linter.rules()[b.2].code();
            let ok = l0.violations.iter().any(|v| v.rule.as_ref().map(|r| r.code) == Some(code));
            out.direct("first-batch-reported", ok, &format!("c17-unreported-fix-{:016x}", h), &format!("the first batch of fixes of the fix run comes from {} but lint reports no {} violation on this input (reported: {:?})", code, code, l0.violations.iter().filter_map(|v| v.rule.as_ref().map(|r| r.code)).collect::<std::collections::BTreeSet<_>>()), input.clone());
        }
        if it.cls.starts_with("noqa") {
            out.count("noqa_inputs", 1);
            if l0.violations.is_empty() {
                out.count("noqa_inputs_lint_clean", 1);
                if masked_some {
                    out.count("noqa_inputs_lint_clean_only_because_violations_are_masked", 1);
                }
            } else if masked_some {
                out.count("noqa_inputs_partly_masked", 1);
            }
        }
        if l0.violations.is_empty() {
            out.count("clean_inputs", 1);
            let ok = r1.fixed == r1.source;
            out.direct("clean-untouched", ok, &format!("c17-clean-{:016x}", h), &format!("lint reports nothing but fix changed the text: {:?} -> {:?}", trunc(&r1.source, 200), trunc(&r1.fixed, 200)), input.clone());
            out.hyp("clean input: no batch in the loop (premise of C17_clean)", "blocking", rec.batches.is_empty(), json!({"input":input}));
            if r1.source != it.sql {
                out.count("clean_inputs_with_cr_newlines (compared after newline normalisation)", 1);
            }
        }
    }

    // ---- direct: formatting is stable (layout rule selections only)
    if it.layout {
        let r3 = fix_rec(linter, &r1.fixed);
        match r3 {
            Ok(r3) => {
                out.count("idempotence_checked", 1);
                let idem = r3.fixed == r1.fixed;
                // the hypotheses of C17_idempotent_decomposition, to locate the cause
                let tables = Tables::default();
                let reparsed = catch(|| linter.parse_string(&tables, &r1.fixed, None)).ok().and_then(|p| p.ok()).and_then(|p| p.tree);
                let (h_reparse, h_lossless) = match &reparsed {
                    Some(t) => {
                        let mut s = String::new();
                        dump(t, false, &mut s);
                        (s == rec.final_dump, t.raw().as_str() == r1.fixed)
                    }
                    None => (false, false),
                };
                let last = |post: bool| rec.passends.iter().filter(|p| p.0 == post).last().map(|p| !p.2).unwrap_or(false);
                let h_conv = last(false) && last(true) && r3.rec.batches.is_empty();
                out.hyp("H_reparse: re-parsing the fixed text gives the final tree (kinds and raws)", "diagnostic", h_reparse, json!({"input":input}));
                out.hyp("H_lossless: the re-parsed fixed text reads as the fixed text", "diagnostic", h_lossless, json!({"input":input}));
                out.hyp("H_converged: both phases exit by no-change and the second run has no batch", "diagnostic", h_conv, json!({"input":input}));
                let cause = if !h_conv { "H_converged fails" } else if !h_reparse { "H_reparse fails" } else { "hypotheses hold" };
                let second: std::collections::BTreeSet<&str> = r3.rec.batches.iter().filter(|b| b.3).map(|b| linter.rules()[b.2].code()).collect();
                let cause = if it.rules.starts_with(LAYOUT) && it.rules.len() == LAYOUT.len() && repeats(it.cls) == 0 || second.is_empty() { cause.to_string() } else { format!("{}; the second run applies fixes of {:?}", cause, second) };
                if !it.rules.starts_with("LT") || it.rules.len() > LAYOUT.len() {
                    out.count("idempotence_checked_on_mixed_selection (layout + rewriting rules)", 1);
                }
                out.direct("idempotent", idem, &format!("c17-nonidem-{:016x}", h), &format!("fix(fix x) != fix x ({}): fix x = {:?} fix(fix x) = {:?}", cause, trunc(&r1.fixed, 300), trunc(&r3.fixed, 300)), input.clone());
                if idem && h_conv && h_reparse {
                    out.count("idempotent_with_all_hypotheses", 1);
                }
            }
            Err(_) => out.count("second_fix_panicked (C03)", 1),
        }
        if let Ok(l1) = catch(|| linter.lint_string(&r1.fixed, None, false)) {
            let fixable = l1.violations.iter().filter(|v| v.fixable).count();
            let unfixable = l1.violations.len() - fixable;
            if unfixable > 0 {
                out.count("fixed_text_with_unfixable_violations", 1);
            }
            // "a format check run right after formatting passes" is read as: running fix again changes
            // nothing (observed above). What lint still reports on the fixed text is measured, not demanded:
            // LT05 on lines that cannot be shortened is flagged fixable but has no effective fix.
            if fixable > 0 {
                out.count("fixed_text_with_fixable_violations (diagnostic)", 1);
                for code in l1.violations.iter().filter(|v| v.fixable).map(|v| v.rule.as_ref().map(|r| r.code).unwrap_or("-")).collect::<std::collections::BTreeSet<_>>() {
                    out.count(&format!("fixed_text_fixable_violation_of_{}", code), 1);
                }
            }
        }
    }
}

pub fn main(args: &Args) {
    silence_panics();
    let mut out = Out::new(&args.out);
    // The explored input set is the same for every VERIF_SEED: non-idempotent inputs are genuine findings recorded by
    // input hash in known_findings.txt, so the set they are drawn from must not move with the seed (the seed still
    // selects which runs are replayed on the Coq model).
    let _ = args.seed;
    let mut rng = Rng::new(1);
    let mut items: Vec<Item> = vec![];
    if let Some(path) = args.flag("--replay-input") {
        let v: Value = serde_json::from_str(&std::fs::read_to_string(path).unwrap()).unwrap();
        let v = if v.get("input").is_some() { v["input"].clone() } else { v };
        items.push(Item {
            cls: "replay",
            dialect: v["dialect"].as_str().unwrap().into(),
            rules: v["rules"].as_str().unwrap().into(),
            layout: v["layout"].as_bool().unwrap_or(false),
            extra: v["extra"].as_str().unwrap_or("").into(),
            sql: v["sql"].as_str().unwrap().into(),
            derive: Derive::None,
        });
    } else {
        for (rules, layout, sql) in [
            (LAYOUT, true, "SELECT a  from  tbl\n"),
            (LAYOUT, true, "select\n a,b\n from t where x=1\n"),
            ("all", false, "SELECT a FROM tbl\n"),
            (LAYOUT, true, "SELECT a FROM tbl\r\n"),
        ] {
            items.push(Item { cls: "regression", dialect: "ansi".into(), rules: rules.into(), layout, extra: String::new(), sql: sql.into(), derive: Derive::None });
        }
        let corpus = corpus();
        let thorough = args.thorough();
        let max_len = if thorough { 12000 } else { 5000 };
        for (i, f) in corpus.iter().enumerate() {
            if f.text.len() > max_len {
                continue;
            }
            let k = if thorough { RULESETS.len() } else { 1 };
            for j in 0..k {
                let (rules, layout) = RULESETS[(i + j) % RULESETS.len()];
                let extra = EXTRA[(i / 3 + j) % EXTRA.len()];
                items.push(Item { cls: "corpus", dialect: f.dialect.clone(), rules: rules.into(), layout, extra: extra.into(), sql: f.text.clone(), derive: Derive::None });
            }
        }
        let n_pert = if thorough { 5000 } else { 500 };
        for _ in 0..n_pert {
            let f = &corpus[rng.below(corpus.len())];
            if f.text.len() > 4000 {
                continue;
            }
            let (rules, layout) = RULESETS[rng.below(RULESETS.len())];
            let extra = EXTRA[rng.below(EXTRA.len())];
            let sql = perturb(&mut rng, &f.text);
            items.push(Item { cls: "perturbed-corpus", dialect: f.dialect.clone(), rules: rules.into(), layout, extra: extra.into(), sql, derive: Derive::None });
        }
        for (i, (_, s)) in rule_snippets().iter().enumerate() {
            if s.len() > 3000 || (!thorough && i % 3 != 0) {
                continue;
            }
            let (rules, layout) = RULESETS[i % 2];
            items.push(Item { cls: "rule-snippet", dialect: "ansi".into(), rules: rules.into(), layout, extra: String::new(), sql: s.clone(), derive: Derive::None });
        }
        // ------------------------------------------------------------------------------------------------------
        // Classes added after the seeded changes C17-1 / C17-2 (appended, with their own generator state, so that
        // the inputs above — and the hashes of their known findings — stay what they were).
        let snippets = rule_snippets();
        let mut rng2 = Rng::new(0x17_0002);
        // (a) noqa: files whose violations are silenced by directives. Clause 1 has to hold for them as for any file
        // lint reports nothing on; the directives are derived from what lint reports, for every directive form.
        const NOQA: &[Derive] = &[Derive::NoqaBare, Derive::NoqaCodes, Derive::NoqaAll, Derive::NoqaRange, Derive::NoqaAllBlock, Derive::NoqaPartial];
        let sets: Vec<(&str, bool)> = RULESETS.iter().cloned().chain(MIXED.iter().map(|r| (*r, true))).collect();
        let mut n = 0usize;
        for (i, (_, s)) in snippets.iter().enumerate() {
            if s.len() > 3000 || s.trim().is_empty() || (!thorough && i % 4 != 1) {
                continue;
            }
            let (rules, layout) = sets[n % sets.len()];
            let derive = NOQA[(n / sets.len() + n) % NOQA.len()];
            n += 1;
            items.push(Item { cls: "noqa-rule-snippet", dialect: "ansi".into(), rules: rules.into(), layout, extra: String::new(), sql: s.clone(), derive });
        }
        let n_noqa = if thorough { 2500 } else { 250 };
        for k in 0..n_noqa {
            let f = &corpus[rng2.below(corpus.len())];
            if f.text.len() > 4000 {
                continue;
            }
            let (rules, layout) = sets[rng2.below(sets.len())];
            let extra = EXTRA[rng2.below(EXTRA.len())];
            let sql = if k % 3 != 0 { ruffle(&mut rng2, &f.text) } else { f.text.clone() };
            items.push(Item { cls: "noqa-corpus", dialect: f.dialect.clone(), rules: rules.into(), layout, extra: extra.into(), sql, derive: NOQA[rng2.below(NOQA.len())] });
        }
        // (b) the limit sits on a line: max_line_length is put at (length of a line of the input a rewriting rule reports
        // on, else of the longest line) + d, d around 0, and the
        // selection mixes the layout rules with rules that rewrite code, so that an edit of a few characters made by one
        // rule during the run moves the line across the limit LT05 has to enforce in the same run.
        // rule fixture snippets: every snippet of a non-layout rule R is explored with the layout rules + R (and with the
        // broader mixes), the limit sitting on the lines R reports on
        let ds: &[i64] = if thorough { &[0, -1, 1, 2, -2] } else { &[0] };
        let mut n = 0usize;
        for (i, (name, s)) in snippets.iter().enumerate() {
            if s.len() > 2000 || s.trim().is_empty() {
                continue;
            }
            let code = name.trim_end_matches(".yml");
            let own = code.len() == 4 && !code.starts_with("LT") && code[2..].bytes().all(|b| b.is_ascii_digit());
            let with_own = format!("{},{}", LAYOUT, code);
            if own {
                for d in ds {
                    items.push(Item { cls: "limit-at-edited-line", dialect: "ansi".into(), rules: with_own.clone(), layout: true, extra: String::new(), sql: s.clone(), derive: Derive::LimitAtEdited { d: *d, k: n, only_edited: !thorough } });
                    n += 1;
                }
            }
            if thorough || i % 5 == 2 {
                let d = [0i64, -1, 1, 2][n % 4];
                items.push(Item { cls: "limit-at-edited-line", dialect: "ansi".into(), rules: MIXED[n % MIXED.len()].into(), layout: true, extra: String::new(), sql: s.clone(), derive: Derive::LimitAtEdited { d, k: n / 4, only_edited: false } });
                n += 1;
            }
        }
        let n_lim = if thorough { 3000 } else { 200 };
        for _ in 0..n_lim {
            let f = &corpus[rng2.below(corpus.len())];
            if f.text.len() > 3000 {
                continue;
            }
            let k = rng2.below(40);
            let d = [0i64, 0, -1, 1, 2, -2][rng2.below(6)];
            let sql = if rng2.chance(1, 3) { ruffle(&mut rng2, &f.text) } else { f.text.clone() };
            items.push(Item { cls: "limit-at-edited-line-corpus", dialect: f.dialect.clone(), rules: MIXED[rng2.below(MIXED.len())].into(), layout: true, extra: String::new(), sql, derive: Derive::LimitAtEdited { d, k, only_edited: false } });
        }
        // (c) the existing mixed selections of the corpus, now also required to be stable when they contain layout rules
        for (i, f) in corpus.iter().enumerate() {
            if f.text.len() > 3000 || (!thorough && i % 8 != 3) || (thorough && i % 2 != 1) {
                continue;
            }
            let extra = EXTRA[(i / 8) % EXTRA.len()];
            items.push(Item { cls: "mixed-corpus", dialect: f.dialect.clone(), rules: MIXED[(i / 8) % MIXED.len()].into(), layout: true, extra: extra.into(), sql: f.text.clone(), derive: Derive::None });
        }
        // ------------------------------------------------------------------------------------------------------
        // Classes added after the seeded changes C17-4 / C17-5 (appended, own generator state `0x170003`).
        let mut rng3 = Rng::new(0x17_0003);
        const SEL3: &[&str] = &[LAYOUT, "core", LAYOUT, CONVENTION];
        // the reproducer of the repaired LT05 defect (results on ignored comment lines were removed in hash-set order)
        for (extra, sql) in [
            ("max_line_length = 30\n[sqruff:rules:layout.long_lines]\nignore_comment_lines = True\n", "SELECT\n    aaaaaaaaaaaaaaaaaaaa + bbbbbbbbbbbbbbbbbbbb AS x, -- c1\n    cccccccccccccccccccc + dddddddddddddddddddd AS y, -- c2\n    eeeeeeeeeeeeeeeeeeee + ffffffffffffffffffff AS z\nFROM t\n"),
        ] {
            items.push(Item { cls: "comment-regression", dialect: "ansi".into(), rules: LAYOUT.into(), layout: true, extra: extra.into(), sql: sql.into(), derive: Derive::None });
        }
        // (d) comments at structural boundaries: behind the code of a line and on lines of their own directly after it
        // (after closing brackets, after commas, anywhere). Rules that place or move things relative to line starts have to
        // choose among several candidate positions there. Fix is repeated on these inputs (same linter and fresh ones).
        let mut n = 0usize;
        for (i, (_, s)) in snippets.iter().enumerate() {
            if s.len() > 2500 || s.trim().is_empty() || !s.contains('\n') || (!thorough && i % 6 != 4) || (thorough && i % 2 != 0) {
                continue;
            }
            let sql = commentate(&mut rng3, s, n % 4);
            let extra = ["", "", "max_line_length = 40\n"][(n / 4) % 3];
            items.push(Item { cls: "comment-rule-snippet", dialect: "ansi".into(), rules: SEL3[(n / 2) % SEL3.len()].into(), layout: true, extra: extra.into(), sql, derive: Derive::None });
            n += 1;
        }
        let n_com = if thorough { 1500 } else { 220 };
        for k in 0..n_com {
            let f = &corpus[rng3.below(corpus.len())];
            if f.text.len() > 3000 {
                continue;
            }
            let base = if k % 4 == 0 { ruffle(&mut rng3, &f.text) } else { f.text.clone() };
            let sql = commentate(&mut rng3, &base, k % 3);
            let extra = ["", "max_line_length = 60\n", "", "max_line_length = 40\n"][rng3.below(4)];
            items.push(Item { cls: "comment-corpus", dialect: f.dialect.clone(), rules: SEL3[rng3.below(SEL3.len())].into(), layout: true, extra: extra.into(), sql, derive: Derive::None });
        }
        // (e) layout configurations: every layout option of the configuration file (indentation section, line positions of
        // commas / operators, the options of LT05 and LT09) at each value other than its default, alone and in random
        // combinations, x several line-length limits, on rule snippets and fixture files as they are, ruffled, with comments
        // at line ends, and unformatted (lines joined, so that the run has to break them again).
        let mut pool: Vec<Vec<(usize, usize)>> = vec![];
        for (k, knob) in KNOBS.iter().enumerate() {
            for v in 0..knob.2.len() {
                pool.push(vec![(k, v)]);
            }
        }
        for _ in 0..(if thorough { 24 } else { 8 }) {
            let mut c: Vec<(usize, usize)> = vec![];
            for _ in 0..rng3.range(2, 4) {
                let k = rng3.below(KNOBS.len());
                if !c.iter().any(|x| x.0 == k) {
                    c.push((k, rng3.below(KNOBS[k].2.len())));
                }
            }
            c.sort();
            pool.push(c);
        }
        let layout_snips: Vec<&String> = snippets.iter().filter(|(n, s)| n.starts_with("LT") && s.len() <= 2500 && !s.trim().is_empty()).map(|(_, s)| s).collect();
        for (ci, choice) in pool.iter().enumerate() {
            // every choice of options draws its texts from a generator state of its own (an option added later moves nothing)
            let mut rng3 = Rng::new(if choice.len() == 1 { 0x17_1000 + (choice[0].0 * 8 + choice[0].1) as u64 } else { 0x17_2000 + ci as u64 });
            let per = match (choice.len() == 1, thorough) {
                (true, false) => 100,
                (true, true) => 240,
                (false, false) => 50,
                (false, true) => 100,
            };
            let hints: Vec<&str> = choice.iter().flat_map(|(k, _)| KNOBS[*k].3.iter().cloned()).collect();
            let about_comments = hints.contains(&"--");
            for j in 0..per {
                // a text that has what the options act on (a few draws), as it is / ruffled / with comments / unformatted
                let mut drawn: Option<(String, String)> = None;
                for _ in 0..10 {
                    let (dialect, text) = if j % 3 == 2 || layout_snips.is_empty() {
                        let f = &corpus[rng3.below(corpus.len())];
                        (f.dialect.clone(), f.text.clone())
                    } else if j % 3 == 1 {
                        ("ansi".to_string(), snippets[rng3.below(snippets.len())].1.clone())
                    } else {
                        ("ansi".to_string(), layout_snips[rng3.below(layout_snips.len())].clone())
                    };
                    if text.len() > 2500 || text.trim().is_empty() {
                        continue;
                    }
                    // options about comments get texts with comments (most of them on lines the run has to break again)
                    let sql = match if about_comments { [2, 3, 3][rng3.below(3)] } else { rng3.below(5) } {
                        0 => text,
                        1 => ruffle(&mut rng3, &text),
                        2 => {
                            let m = rng3.below(4);
                            commentate(&mut rng3, &text, m)
                        }
                        3 => {
                            let t = joinlines(&mut rng3, &text);
                            commentate(&mut rng3, &t, 3)
                        }
                        _ => joinlines(&mut rng3, &text),
                    };
                    let up = sql.to_ascii_uppercase();
                    if hints.iter().any(|h| up.contains(h)) {
                        drawn = Some((dialect, sql));
                        break;
                    }
                }
                let Some((dialect, sql)) = drawn else { continue };
                let limit = [None, Some(60), Some(40), Some(50), Some(30), Some(24)][rng3.below(6)];
                let rules = [LAYOUT, LAYOUT, "core", LAYOUT, CONVENTION][rng3.below(5)];
                items.push(Item { cls: if choice.len() == 1 { "layout-config" } else { "layout-config-combined" }, dialect, rules: rules.into(), layout: true, extra: knob_config(limit, choice), sql, derive: Derive::OptionsMatter { limit } });
            }
        }
    }
    // sqruff does not give back the memory of the trees it lints (about 1.5 MB per explored input): big item lists are
    // worked through by child processes, a slice each, whose raw result lines the parent absorbs in item order.
    const SLICE: usize = 4000;
    if let Some(part) = args.flag("--part") {
        let (k, n) = part.split_once('/').map(|(a, b)| (a.parse::<usize>().unwrap(), b.parse::<usize>().unwrap())).unwrap();
        let per = items.len().div_ceil(n);
        let mine: Vec<Item> = items.into_iter().skip(k * per).take(per).collect();
        par_run(&mut out, &mine, Linters::new, |ls, it, buf| {
            let mut b = Buf::default();
            run_one(ls, it, &mut b);
            buf.lines.extend(b.lines.into_iter().map(|l| json!({"t":"raw","v":l})));
        });
        out.finish();
        return;
    }
    if items.len() > SLICE + SLICE / 2 {
        let n = items.len().div_ceil(SLICE);
        let exe = std::env::current_exe().expect("current_exe");
        for k in 0..n {
            let tmp = std::path::PathBuf::from(format!("{}.part{}", args.out.display(), k));
            let st = std::process::Command::new(&exe)
                .args(["c17", "--tier", &args.tier, "--seed", &args.seed.to_string(), "--part", &format!("{}/{}", k, n), "--out"])
                .arg(&tmp)
                .status()
                .expect("spawn slice");
            assert!(st.success(), "slice {}/{} of the c17 harness failed: {:?}", k, n, st);
            let text = std::fs::read_to_string(&tmp).expect("slice output");
            let mut buf = Buf::default();
            for l in text.lines() {
                let v: Value = serde_json::from_str(l).expect("slice line");
                if v["t"] == "raw" {
                    buf.lines.push(v["v"].clone());
                }
            }
            out.absorb(buf);
            let _ = std::fs::remove_file(&tmp);
        }
        out.finish();
        return;
    }
    par_run(&mut out, &items, Linters::new, run_one);
    out.finish();
}
