//! C17 — clean files are left alone and formatting is stable.
//!
//! Per input: the real fix loop is run with the hook installed and every event is recorded with
//! trees interned to numbers (structure + positions), giving the oracle tables the Gallina loop
//! model is replayed on (group `loop`: which batches were accepted, every pass end, the final
//! tree must be predicted exactly). Direct observations: fix is deterministic (repeat in-process),
//! a file without violations is returned byte-identical, and with layout rules fix(fix x) = fix x
//! and lint(fix x) reports no fixable violation. The three hypotheses of the idempotence theorem
//! are monitored per input.
use std::cell::RefCell;
use std::collections::HashMap;
use std::rc::Rc;

use serde_json::{Value, json};
use sqruff_lib::core::config::FluffConfig;
use sqruff_lib::core::linter::core::{Linter, verif_hook};
use sqruff_lib::core::rules::base::LintPhase;
use sqruff_lib_core::parser::segments::base::{ErasedSegment, Tables};

use crate::c04::{fnv, perturb};
use crate::common::*;

const LAYOUT: &str = "LT01,LT02,LT03,LT04,LT05,LT06,LT07,LT08,LT09,LT10,LT11,LT12,LT13";
const RULESETS: &[(&str, bool)] = &[
    (LAYOUT, true),
    ("all", false),
    ("core", false),
    (LAYOUT, true),
    ("LT01,LT02,LT12", true),
    ("CP01,CP02,CP03,CP04,CP05,LT01", false),
    ("AL01,AL02,AL05,ST05,ST06,CV06,LT01,LT02", false),
];
const EXTRA: &[&str] = &["", "max_line_length = 60\n", "max_line_length = 120\n"];

struct Item {
    cls: &'static str,
    dialect: String,
    rules: String,
    layout: bool,
    extra: String,
    sql: String,
}
fn item_json(it: &Item) -> Value {
    json!({"cls":it.cls,"dialect":it.dialect,"rules":it.rules,"layout":it.layout,"extra":it.extra,"sql":it.sql})
}
fn cfg(it: &Item) -> String {
    format!("[sqruff]\ndialect = {}\nrules = {}\n{}", it.dialect, it.rules, it.extra)
}

fn dump(seg: &ErasedSegment, with_pos: bool, o: &mut String) {
    use std::fmt::Write;
    let _ = write!(o, "({:?}", seg.get_type());
    if with_pos {
        if let Some(p) = seg.get_position_marker() {
            let _ = write!(o, "@{}:{}:{}:{}", p.source_slice.start, p.source_slice.end, p.templated_slice.start, p.templated_slice.end);
        }
    }
    if seg.segments().is_empty() {
        let _ = write!(o, " {:?}", seg.raw().as_str());
    } else {
        for c in seg.segments() {
            dump(c, with_pos, o);
        }
    }
    o.push(')');
}

#[derive(Default, Clone, PartialEq)]
struct LoopRec {
    t0: usize,
    fin: usize,
    batches: Vec<(bool, usize, usize, bool)>,
    passends: Vec<(bool, usize, bool)>,
    ctab: Vec<(usize, usize, usize)>,
    ktab: Vec<(usize, usize)>,
    nondet: bool,
    ended: bool,
    final_dump: String,
    final_raw: String,
    unknown_rule: bool,
}

struct Run {
    rec: LoopRec,
    fixed: String,
    source: String,
}

/// one real fix run with the loop recorded
fn fix_rec(linter: &Linter, sql: &str) -> Result<Run, String> {
    let tables = Tables::default();
    let parsed = catch(|| linter.parse_string(&tables, sql, None)).map_err(|m| format!("parse: {}", m))?.map_err(|e| format!("parse: {}", e.value))?;
    if parsed.tree.is_none() {
        return Err("no tree".into());
    }
    let codes: Vec<&'static str> = linter.rules().iter().map(|r| r.code()).collect();
    let source = parsed.templated_file.source_str.clone();
    let rec = Rc::new(RefCell::new(LoopRec::default()));
    let trees: Rc<RefCell<HashMap<String, usize>>> = Rc::new(RefCell::new(HashMap::new()));
    let keys: Rc<RefCell<HashMap<String, usize>>> = Rc::new(RefCell::new(HashMap::new()));
    let (r2, t2, k2) = (rec.clone(), trees.clone(), keys.clone());
    let intern = move |seg: &ErasedSegment, rec: &mut LoopRec| -> usize {
        let mut s = String::new();
        dump(seg, true, &mut s);
        let mut t = t2.borrow_mut();
        let n = t.len();
        let id = *t.entry(s).or_insert(n);
        if id == n {
            let mut k = k2.borrow_mut();
            let nk = k.len();
            let kid = *k.entry(seg.raw().to_string()).or_insert(nk);
            rec.ktab.push((id, kid));
        }
        id
    };
    verif_hook::FIX_HOOK.with(|h| {
        *h.borrow_mut() = Some(Box::new(move |ev| {
            let mut rec = r2.borrow_mut();
            match ev {
                verif_hook::FixEvent::Start { tree, .. } => rec.t0 = intern(tree, &mut rec),
                verif_hook::FixEvent::Batch { phase, pass, rule, before, after, accepted, .. } => {
                    let b = intern(before, &mut rec);
                    let a = intern(after, &mut rec);
                    let Some(ri) = codes.iter().position(|c| *c == rule) else {
                        rec.unknown_rule = true;
                        return;
                    };
                    match rec.ctab.iter().find(|(r, t, _)| *r == ri && *t == b) {
                        Some((_, _, v)) if *v != a => rec.nondet = true,
                        Some(_) => {}
                        None => rec.ctab.push((ri, b, a)),
                    }
                    rec.batches.push((phase == LintPhase::Post, pass, ri, accepted));
                }
                verif_hook::FixEvent::PassEnd { phase, pass, changed } => rec.passends.push((phase == LintPhase::Post, pass, changed)),
                verif_hook::FixEvent::End { tree } => {
                    rec.fin = intern(tree, &mut rec);
                    rec.ended = true;
                    let mut s = String::new();
                    dump(tree, false, &mut s);
                    rec.final_dump = s;
                    rec.final_raw = tree.raw().to_string();
                }
            }
        }))
    });
    let r = catch(|| linter.lint_parsed(&tables, parsed, true));
    verif_hook::FIX_HOOK.with(|h| *h.borrow_mut() = None);
    let linted = r.map_err(|m| format!("lint: {}", m))?;
    let fixed = catch(|| linted.fix_string()).map_err(|m| format!("fix_string: {}", m))?;
    let rec = rec.borrow().clone();
    if !rec.ended {
        return Err("no end event".into());
    }
    Ok(Run { rec, fixed, source })
}

type Linters = HashMap<String, Linter>;

fn run_one(ls: &mut Linters, it: &Item, out: &mut Buf) {
    let input = item_json(it);
    let key = cfg(it);
    if !ls.contains_key(&key) {
        match catch(|| Linter::new(FluffConfig::from_source(&key, None), None, None, true)) {
            Ok(l) => {
                ls.insert(key.clone(), l);
            }
            Err(_) => {
                out.count("config_rejected", 1);
                return;
            }
        }
    }
    let linter = &ls[&key];
    out.count("inputs", 1);
    let h = fnv(&format!("{}|{}", key, it.sql));
    let r1 = match fix_rec(linter, &it.sql) {
        Ok(r) => r,
        Err(_) => {
            out.count("skipped_panic_or_no_tree (C03)", 1);
            return;
        }
    };
    let rec = &r1.rec;
    if rec.unknown_rule {
        out.count("skipped_unknown_rule_code", 1);
        return;
    }
    let changed = !rec.batches.iter().all(|b| !b.3);
    if changed {
        out.count("runs_with_accepted_batch", 1);
    }
    if rec.batches.iter().any(|b| !b.3) {
        out.count("runs_with_guard_rejection", 1);
    }
    let n_main = rec.passends.iter().filter(|p| !p.0).count();
    if n_main >= 10 && rec.passends.iter().filter(|p| !p.0).all(|p| p.2) {
        out.count("runs_main_phase_hit_limit", 1);
    }
    if n_main > 2 {
        out.count("runs_with_more_than_two_main_passes", 1);
    }

    // ---- correspondence: the loop model replayed on the recorded oracle answers
    let rules_meta: Vec<(bool, bool)> = linter.rules().iter().map(|r| (r.lint_phase() == LintPhase::Post, r.is_fix_compatible())).collect();
    let args = g_tuple(&[
        g_list(rules_meta.iter().map(|(p, f)| g_tuple(&[g_bool(*p), g_bool(*f)]))),
        g_list(rec.ctab.iter().map(|(r, t, v)| g_tuple(&[g_n(*r), g_n(*t), g_n(*v)]))),
        g_list(rec.ktab.iter().map(|(t, k)| g_tuple(&[g_n(*t), g_n(*k)]))),
        g_n(rec.t0),
    ]);
    let exp = g_tuple(&[
        g_list(rec.batches.iter().map(|(p, n, r, a)| g_tuple(&[g_bool(*p), g_n(*n), g_n(*r), g_bool(*a)]))),
        g_list(rec.passends.iter().map(|(p, n, c)| g_tuple(&[g_bool(*p), g_n(*n), g_bool(*c)]))),
        g_n(rec.fin),
    ]);
    let sample = json!({"input":input,"batches":rec.batches,"passends":rec.passends,"final":rec.fin,"n_rules":rules_meta.len()});
    out.case("loop", it.cls, !rec.batches.is_empty(), args, exp, sample);
    out.hyp("H_det (within a run): the same rule on the same tree gives the same result", "blocking", !rec.nondet, json!({"input":input}));

    // ---- direct: deterministic
    let r2 = fix_rec(linter, &it.sql);
    match &r2 {
        Ok(r2) => {
            out.direct("deterministic", r2.fixed == r1.fixed, &format!("c17-nondet-{:016x}", h), "two in-process fix runs of the same input gave different text", input.clone());
            out.hyp("H_det (across runs): same event stream and final tree", "blocking", r2.rec == r1.rec, json!({"input":input}));
        }
        Err(_) => out.direct("deterministic", false, &format!("c17-nondet-{:016x}", h), "second fix run of the same input panicked", input.clone()),
    }

    // ---- direct: clean files are left alone
    let lint0 = catch(|| linter.lint_string(&it.sql, None, false));
    if let Ok(l0) = &lint0 {
        if l0.violations.is_empty() {
            out.count("clean_inputs", 1);
            let ok = r1.fixed == r1.source;
            out.direct("clean-untouched", ok, &format!("c17-clean-{:016x}", h), &format!("lint reports nothing but fix changed the text: {:?} -> {:?}", trunc(&r1.source, 200), trunc(&r1.fixed, 200)), input.clone());
            out.hyp("clean input: no batch in the loop (premise of C17_clean)", "blocking", rec.batches.is_empty(), json!({"input":input}));
            if r1.source != it.sql {
                out.count("clean_inputs_with_cr_newlines (compared after newline normalisation)", 1);
            }
        }
    }

    // ---- direct: formatting is stable (layout rule selections only)
    if it.layout {
        let r3 = fix_rec(linter, &r1.fixed);
        match r3 {
            Ok(r3) => {
                out.count("idempotence_checked", 1);
                let idem = r3.fixed == r1.fixed;
                // the hypotheses of C17_idempotent_decomposition, to locate the cause
                let tables = Tables::default();
                let reparsed = catch(|| linter.parse_string(&tables, &r1.fixed, None)).ok().and_then(|p| p.ok()).and_then(|p| p.tree);
                let (h_reparse, h_lossless) = match &reparsed {
                    Some(t) => {
                        let mut s = String::new();
                        dump(t, false, &mut s);
                        (s == rec.final_dump, t.raw().as_str() == r1.fixed)
                    }
                    None => (false, false),
                };
                let last = |post: bool| rec.passends.iter().filter(|p| p.0 == post).last().map(|p| !p.2).unwrap_or(false);
                let h_conv = last(false) && last(true) && r3.rec.batches.is_empty();
                out.hyp("H_reparse: re-parsing the fixed text gives the final tree (kinds and raws)", "diagnostic", h_reparse, json!({"input":input}));
                out.hyp("H_lossless: the re-parsed fixed text reads as the fixed text", "diagnostic", h_lossless, json!({"input":input}));
                out.hyp("H_converged: both phases exit by no-change and the second run has no batch", "diagnostic", h_conv, json!({"input":input}));
                let cause = if !h_conv { "H_converged fails" } else if !h_reparse { "H_reparse fails" } else { "hypotheses hold" };
                out.direct("idempotent", idem, &format!("c17-nonidem-{:016x}", h), &format!("fix(fix x) != fix x ({}): fix x = {:?} fix(fix x) = {:?}", cause, trunc(&r1.fixed, 300), trunc(&r3.fixed, 300)), input.clone());
                if idem && h_conv && h_reparse {
                    out.count("idempotent_with_all_hypotheses", 1);
                }
            }
            Err(_) => out.count("second_fix_panicked (C03)", 1),
        }
        if let Ok(l1) = catch(|| linter.lint_string(&r1.fixed, None, false)) {
            let fixable = l1.violations.iter().filter(|v| v.fixable).count();
            let unfixable = l1.violations.len() - fixable;
            if unfixable > 0 {
                out.count("fixed_text_with_unfixable_violations", 1);
            }
            // "a format check run right after formatting passes" is read as: running fix again changes
            // nothing (observed above). What lint still reports on the fixed text is measured, not demanded:
            // LT05 on lines that cannot be shortened is flagged fixable but has no effective fix.
            if fixable > 0 {
                out.count("fixed_text_with_fixable_violations (diagnostic)", 1);
                for code in l1.violations.iter().filter(|v| v.fixable).map(|v| v.rule.as_ref().map(|r| r.code).unwrap_or("-")).collect::<std::collections::BTreeSet<_>>() {
                    out.count(&format!("fixed_text_fixable_violation_of_{}", code), 1);
                }
            }
        }
    }
}

pub fn main(args: &Args) {
    silence_panics();
    let mut out = Out::new(&args.out);
    // The explored input set is the same for every VERIF_SEED: non-idempotent inputs are genuine findings recorded by
    // input hash in known_findings.txt, so the set they are drawn from must not move with the seed (the seed still
    // selects which runs are replayed on the Coq model).
    let _ = args.seed;
    let mut rng = Rng::new(1);
    let mut items: Vec<Item> = vec![];
    if let Some(path) = args.flag("--replay-input") {
        let v: Value = serde_json::from_str(&std::fs::read_to_string(path).unwrap()).unwrap();
        let v = if v.get("input").is_some() { v["input"].clone() } else { v };
        items.push(Item {
            cls: "replay",
            dialect: v["dialect"].as_str().unwrap().into(),
            rules: v["rules"].as_str().unwrap().into(),
            layout: v["layout"].as_bool().unwrap_or(false),
            extra: v["extra"].as_str().unwrap_or("").into(),
            sql: v["sql"].as_str().unwrap().into(),
        });
    } else {
        for (rules, layout, sql) in [
            (LAYOUT, true, "SELECT a  from  tbl\n"),
            (LAYOUT, true, "select\n a,b\n from t where x=1\n"),
            ("all", false, "SELECT a FROM tbl\n"),
            (LAYOUT, true, "SELECT a FROM tbl\r\n"),
        ] {
            items.push(Item { cls: "regression", dialect: "ansi".into(), rules: rules.into(), layout, extra: String::new(), sql: sql.into() });
        }
        let corpus = corpus();
        let thorough = args.thorough();
        let max_len = if thorough { 12000 } else { 5000 };
        for (i, f) in corpus.iter().enumerate() {
            if f.text.len() > max_len {
                continue;
            }
            let k = if thorough { RULESETS.len() } else { 1 };
            for j in 0..k {
                let (rules, layout) = RULESETS[(i + j) % RULESETS.len()];
                let extra = EXTRA[(i / 3 + j) % EXTRA.len()];
                items.push(Item { cls: "corpus", dialect: f.dialect.clone(), rules: rules.into(), layout, extra: extra.into(), sql: f.text.clone() });
            }
        }
        let n_pert = if thorough { 5000 } else { 500 };
        for _ in 0..n_pert {
            let f = &corpus[rng.below(corpus.len())];
            if f.text.len() > 4000 {
                continue;
            }
            let (rules, layout) = RULESETS[rng.below(RULESETS.len())];
            let extra = EXTRA[rng.below(EXTRA.len())];
            let sql = perturb(&mut rng, &f.text);
            items.push(Item { cls: "perturbed-corpus", dialect: f.dialect.clone(), rules: rules.into(), layout, extra: extra.into(), sql });
        }
        for (i, (_, s)) in rule_snippets().iter().enumerate() {
            if s.len() > 3000 || (!thorough && i % 3 != 0) {
                continue;
            }
            let (rules, layout) = RULESETS[i % 2];
            items.push(Item { cls: "rule-snippet", dialect: "ansi".into(), rules: rules.into(), layout, extra: String::new(), sql: s.clone() });
        }
    }
    par_run(&mut out, &items, Linters::new, run_one);
    out.finish();
}
