//! C18 — all front-ends report the same thing and the exit code follows it.
//!
//! For generated contents x rule selections x `--parsing-errors`, the library's `LintedFile`s
//! (`Linter::lint_string`, lint and fix mode) feed the Gallina model of the CLI decision logic
//! (Cli/Model.v: run_lint, run_lint_stdin, run_fix, run_fix_stdin, the three formatters), whose
//! predicted exit codes / report multisets / writes are compared with the real `sqruff` binary
//! built from the tree, run in formats {human, github-annotation-native, json} x modes
//! {directory, path, stdin, several paths in a generated argument order, the reverse order with the
//! sub-directory given as a directory}, under configurations that also set the formatter's keys
//! (`verbose` 0..2, `nocolor`). The formatter is one object for the whole run whose `has_fail`
//! state is threaded through the dispatches: the several-paths modes run with one worker thread so
//! that the dispatch order is the argument order, and both an order and its reverse are run.
//! Independently of the model every run is judged against the property text.
//!
//! Library level: a recording implementation of the public `Formatter` trait is attached to
//! `Linter::lint_string` and `Linter::lint_paths` (lint and fix mode); it must be handed every file once, with
//! exactly the violations of the returned `LintedFile`, none of them covered by the file's own ignore mask.
//! The end of `lint_parsed` (last ignore-mask filter, hand-over, result) is compared with its model on inputs
//! rebuilt through the public API (`parse_string`, `lint_fix_parsed`, `IgnoreMask::is_masked`). The class
//! `masked` decorates statements with noqa directives so that violations with and without a rule are covered.
//! What `sqruff fix` prints is compared with the library's violations too (group `fixrep`).
use std::collections::BTreeSet;
use std::io::Write as _;
use std::path::{Path, PathBuf};
use std::process::{Command, Stdio};
use std::sync::{Arc, Mutex};

use serde_json::{Value, json};
use sqruff_lib::cli::formatters::Formatter;
use sqruff_lib::core::config::FluffConfig;
use sqruff_lib::core::linter::core::Linter;
use sqruff_lib::core::linter::linted_file::LintedFile;
use sqruff_lib_core::errors::SQLBaseError;
use sqruff_lib_core::parser::segments::base::Tables;

use crate::common::*;

const FIXABLE: &[&str] = &[
    "SeLeCt  1 from tBl ;\n",
    "SELECT col_a a FROM foo\n",
    "select a,b from t\n",
    "SELECT  a  AS x,  b y FROM  t  WHERE a=1\n",
    "select A from T where B  in (1,2)\n",
    "SELECT a from t\n",
    "SELECT\n    a,\n  b\nFROM t\n",
];
const UNFIXABLE: &[&str] = &[
    "SELECT a FROM t1 AS x, t2 AS x\n",
    "SELECT * FROM t UNION SELECT a FROM t\n",
    "SELECT aaaaaaaaaaaaaaaaaaaaaaaaaaaaaaaaaaaaaaaaaaaaaaaaaaaaaaaaaaaaaaaaaaaaaaaaaaaaaaaaaaaaaaaaaaaaaaaaaaaaaaaaaaaaaaaaaaaaaaaaaaaaaa FROM t\n",
    "SELECT a, a FROM t\n",
    "SELECT t.a FROM t, u\n",
    "SELECT a FROM t GROUP BY 1, b\n",
];
const CLEAN: &[&str] = &["SELECT a FROM t\n", "SELECT 1\n", "SELECT\n    a,\n    b\nFROM t\n", ""];
const JUNK: &[&str] = &[
    "SELECT FROM WHERE\n",
    "SELECT 1 +\n",
    "FOO BAR BAZ;\n",
    "SELECT (1;\n",
    "SELECT a FROM t WHERE ;\n",
    "SELECT 1; )))\n",
    "SELECT a FROM t -- noqa:\n",
    "SELECT a from t -- noqa: disable=\n",
    "SELECT 'abc\n",
];
const RULESETS: &[&str] = &["core", "all", "CP01,LT01", "AL04,AM04,LT05,RF01", "CP01", "LT01,LT02,AL01,AL02", "AL04", "LT05,LT12"];
const FORMATS: [&str; 3] = ["human", "github-annotation-native", "json"];
const MODES: [&str; 5] = ["directory", "path", "stdin", "paths", "paths-rev"];
const FIX_MODES: [&str; 3] = ["directory", "path", "stdin"];

#[derive(Clone, Debug, PartialEq, Eq, PartialOrd, Ord)]
struct RLine(usize, usize, Option<String>);

/// noqa directives appended to a statement or put on a line of their own by the `masked` generator: line and range
/// forms, for everything and for named rules, well-formed and malformed, inline and block comments
const NOQA: &[&str] = &[
    "-- noqa",
    "-- noqa",
    "-- noqa",
    "--noqa",
    "-- NOQA",
    "/* noqa */",
    "-- noqa: LT01",
    "-- noqa: CP01,LT01,AL04",
    "-- noqa: AM04, LT05",
    "-- noqa:",
    "-- noqax",
    "-- noqa: disable=",
    "-- noqa: enable=",
    "-- noqa: disable=all",
    "-- noqa: disable=all",
    "/* noqa: disable=all */",
    "-- noqa: enable=all",
    "-- noqa: disable=LT01,CP01",
    "-- noqa: enable=LT01",
];

#[derive(Clone, Debug, PartialEq, Eq)]
struct V {
    line: usize,
    col: usize,
    rule: Option<String>,
    warning: bool,
    ignore: bool,
    fixable: bool,
}
impl V {
    fn rl(&self) -> RLine {
        RLine(self.line, self.col, self.rule.clone())
    }
    fn g(&self) -> String {
        format!(
            "{{| v_line := {}; v_col := {}; v_rule := {}; v_warning := {}; v_ignore := {}; v_fixable := {} |}}",
            self.line,
            self.col,
            g_opt(self.rule.as_ref().map(|r| g_str(r))),
            g_bool(self.warning),
            g_bool(self.ignore),
            g_bool(self.fixable)
        )
    }
}
fn g_rl(r: &RLine) -> String {
    format!("({},{},{})", r.0, r.1, g_opt(r.2.as_ref().map(|c| g_str(c))))
}
fn j_rl(r: &RLine) -> Value {
    json!([r.0, r.1, r.2])
}

struct Case {
    dialect: &'static str,
    files: Vec<String>,
    rules: String,
    parsing_errors: bool,
    /// `verbose` of the configuration (documented range 0-2): the human formatter prints a header for
    /// every file above 0
    verbose: i64,
    nocolor: bool,
    /// argument order of the several-paths modes (a permutation of the file indices)
    order: Vec<usize>,
    cls: &'static str,
}
impl Case {
    fn new(dialect: &'static str, files: Vec<String>, rules: &str, parsing_errors: bool, verbose: i64, cls: &'static str) -> Case {
        let order = (0..files.len()).collect();
        Case { dialect, files, rules: rules.to_string(), parsing_errors, verbose, nocolor: false, order, cls }
    }
    fn input(&self) -> Value {
        json!({"dialect":self.dialect,"files":self.files,"rules":self.rules,"parsing_errors":self.parsing_errors,"verbose":self.verbose,"nocolor":self.nocolor,"order":self.order})
    }
    fn input_only(&self, only: &str) -> Value {
        let mut v = self.input();
        v["only"] = json!(only);
        v
    }
}

struct Env {
    sqruff: PathBuf,
    scratch: PathBuf,
}

struct Run {
    status: Option<i32>,
    stdout: String,
    stderr: String,
}

fn run(env: &Env, cwd: &Path, args: &[&str], stdin: Option<&str>) -> Run {
    run_t(env, cwd, args, stdin, false)
}

/// `one_thread`: a single rayon worker, so that files are dispatched to the formatter in argument order
fn run_t(env: &Env, cwd: &Path, args: &[&str], stdin: Option<&str>, one_thread: bool) -> Run {
    let mut cmd = Command::new(&env.sqruff);
    if one_thread {
        cmd.env("RAYON_NUM_THREADS", "1");
    } else {
        cmd.env_remove("RAYON_NUM_THREADS");
    }
    cmd.current_dir(cwd).env("RUST_BACKTRACE", "0").env("NO_COLOR", "1").args(args).stdout(Stdio::piped()).stderr(Stdio::piped());
    cmd.stdin(if stdin.is_some() { Stdio::piped() } else { Stdio::null() });
    let Ok(mut child) = cmd.spawn() else {
        return Run { status: None, stdout: String::new(), stderr: "spawn failed".into() };
    };
    if let Some(s) = stdin {
        if let Some(mut si) = child.stdin.take() {
            let _ = si.write_all(s.as_bytes());
        }
    }
    match child.wait_with_output() {
        Ok(o) => Run { status: o.status.code(), stdout: String::from_utf8_lossy(&o.stdout).to_string(), stderr: String::from_utf8_lossy(&o.stderr).to_string() },
        Err(_) => Run { status: None, stdout: String::new(), stderr: "wait failed".into() },
    }
}

fn strip_ansi(s: &str) -> String {
    let mut out = String::new();
    let mut it = s.chars().peekable();
    while let Some(c) = it.next() {
        if c == '\u{1b}' {
            for d in it.by_ref() {
                if d.is_ascii_alphabetic() {
                    break;
                }
            }
        } else {
            out.push(c);
        }
    }
    out
}

/// one file of a parsed run: name, header of the human format (Some(true) = PASS, Some(false) = FAIL), sorted lines
struct Rep(String, Option<bool>, Vec<RLine>);

/// Parse one run's output into per-file report multisets (one entry per header line in the human format).
fn parse_reports(fmt: &str, r: &Run) -> Option<Vec<Rep>> {
    let mut files: Vec<Rep> = vec![];
    let code = |c: &str| if c == "????" { None } else { Some(c.to_string()) };
    match fmt {
        "human" => {
            for line in strip_ansi(&r.stderr).lines() {
                if let Some(rest) = line.strip_prefix("== [") {
                    let (name, status) = rest.rsplit_once("] ")?;
                    let pass = match status.trim() {
                        "PASS" => true,
                        "FAIL" => false,
                        _ => return None,
                    };
                    files.push(Rep(name.to_string(), Some(pass), vec![]));
                } else if let Some(rest) = line.strip_prefix("L:") {
                    let parts: Vec<&str> = rest.splitn(4, " | ").collect();
                    if parts.len() < 3 || !parts[1].starts_with("P:") {
                        return None;
                    }
                    let l: usize = parts[0].trim().parse().ok()?;
                    let p: usize = parts[1][2..].trim().parse().ok()?;
                    let c = parts[2].trim();
                    files.last_mut()?.2.push(RLine(l, p, code(c)));
                }
            }
        }
        "github-annotation-native" => {
            for line in r.stderr.lines() {
                if let Some(rest) = line.strip_prefix("::error title=sqruff,file=") {
                    let (head, msg) = rest.split_once("::")?;
                    let (head, col) = head.rsplit_once(",col=")?;
                    let (name, l) = head.rsplit_once(",line=")?;
                    let c = msg.split_once(": ").map(|x| x.0).unwrap_or(msg);
                    let rl = RLine(l.parse().ok()?, col.parse().ok()?, code(c));
                    match files.iter_mut().find(|f| f.0 == name) {
                        Some(f) => f.2.push(rl),
                        None => files.push(Rep(name.to_string(), None, vec![rl])),
                    }
                }
            }
        }
        _ => {
            let v: Value = serde_json::from_str(r.stdout.trim()).ok()?;
            for (k, ds) in v.as_object()? {
                let mut ls = vec![];
                for d in ds.as_array()? {
                    let l = d["range"]["start"]["line"].as_u64()? as usize;
                    let p = d["range"]["start"]["character"].as_u64()? as usize;
                    ls.push(RLine(l, p, d["code"].as_str().map(|s| s.to_string())));
                }
                files.push(Rep(k.clone(), None, ls));
            }
        }
    }
    for f in files.iter_mut() {
        f.2.sort();
    }
    Some(files)
}

fn v_of(v: &SQLBaseError) -> V {
    V { line: v.line_no, col: v.line_pos, rule: v.rule.as_ref().map(|r| r.code.to_string()), warning: v.warning, ignore: v.ignore, fixable: v.fixable }
}

/// One `dispatch_file_violations` call as an implementation of the public `Formatter` trait sees it: the path of the
/// `LintedFile`, its violations, and how many of them the file's own ignore mask covers.
#[derive(Clone)]
struct Seen(String, Vec<V>, usize);

/// A front-end that only records what it is asked to report.
#[derive(Default)]
struct Recorder {
    seen: Mutex<Vec<Seen>>,
}
impl Formatter for Recorder {
    fn dispatch_template_header(&self, _: String, _: FluffConfig, _: FluffConfig) {}
    fn dispatch_parse_header(&self, _: String) {}
    fn dispatch_file_violations(&self, lf: &LintedFile, _only_fixable: bool) {
        let covered = lf.violations.iter().filter(|v| lf.ignore_mask.as_ref().is_some_and(|m| m.is_masked(v))).count();
        self.seen.lock().unwrap().push(Seen(lf.path.clone(), lf.violations.iter().map(v_of).collect(), covered));
    }
    fn has_fail(&self) -> bool {
        self.seen.lock().unwrap().iter().any(|s| !s.1.is_empty())
    }
    fn completion_message(&self) {}
}

/// The inputs of the end of `Linter::lint_parsed`, rebuilt through the public API: the violations of the
/// `ParsedString` followed by those of `lint_fix_parsed` (malformed noqa directives, rule violations of the first
/// pass), each with the answer of the file's ignore mask.
fn lib_collect(cfg: &str, pe: bool, sql: &str, fix: bool) -> Result<Vec<(V, bool)>, String> {
    catch(|| {
        let linter = Linter::new(FluffConfig::from_source(cfg, None), None, None, pe);
        let tables = Tables::default();
        let parsed = linter.parse_string(&tables, sql, None).unwrap();
        let mut raw: Vec<SQLBaseError> = parsed.violations.clone();
        let mut mask = None;
        if let Some(tree) = parsed.tree.clone() {
            let (_tree, m, errs) = linter.lint_fix_parsed(&tables, tree, &parsed.templated_file, fix);
            raw.extend(errs.into_iter().map(SQLBaseError::from));
            mask = m;
        }
        raw.iter().map(|v| (v_of(v), mask.as_ref().is_some_and(|m| m.is_masked(v)))).collect()
    })
}

/// `Linter::lint_string` with a recording formatter: (what the formatter was given, the returned violations)
fn lib_fed_string(cfg: &str, pe: bool, sql: &str, fix: bool) -> Result<(Vec<Seen>, Vec<V>), String> {
    catch(|| {
        let rec = Arc::new(Recorder::default());
        let f: Arc<dyn Formatter> = rec.clone();
        let linter = Linter::new(FluffConfig::from_source(cfg, None), Some(f), None, pe);
        let lf = linter.lint_string(sql, None, fix);
        let ret = lf.violations.iter().map(v_of).collect();
        let seen = rec.seen.lock().unwrap().clone();
        (seen, ret)
    })
}

/// `Linter::lint_paths` with a recording formatter: (what the formatter was given, the returned files)
fn lib_fed_paths(cfg: &str, pe: bool, paths: Vec<PathBuf>, fix: bool) -> Result<(Vec<Seen>, Vec<(String, Vec<V>)>), String> {
    catch(|| {
        let rec = Arc::new(Recorder::default());
        let f: Arc<dyn Formatter> = rec.clone();
        let mut linter = Linter::new(FluffConfig::from_source(cfg, None), Some(f), None, pe);
        let res = linter.lint_paths(paths, fix, &|_| false);
        let ret = res.paths.iter().flat_map(|d| d.files.iter()).map(|lf| (lf.path.clone(), lf.violations.iter().map(v_of).collect())).collect();
        let seen = rec.seen.lock().unwrap().clone();
        (seen, ret)
    })
}

fn lib_lint(cfg: &str, pe: bool, sql: &str, fix: bool) -> Result<(Vec<V>, String), String> {
    catch(|| {
        let linter = Linter::new(FluffConfig::from_source(cfg, None), None, None, pe);
        let lf = linter.lint_string(sql, None, fix);
        let vs = lf.violations.iter().map(v_of).collect();
        let fixed = if fix { lf.fix_string() } else { String::new() };
        (vs, fixed)
    })
}

/// the second file of a case lives in a sub-directory (directory mode walks into it)
fn fname(i: usize) -> String {
    if i == 1 { "sub/f1.sql".to_string() } else { format!("f{}.sql", i) }
}

fn old_time() -> std::time::SystemTime {
    std::time::UNIX_EPOCH + std::time::Duration::from_secs(946_684_800)
}
fn write_files(dir: &Path, files: &[String]) -> std::io::Result<()> {
    std::fs::create_dir_all(dir)?;
    for (i, c) in files.iter().enumerate() {
        let f = dir.join(fname(i));
        if let Some(par) = f.parent() {
            std::fs::create_dir_all(par)?;
        }
        std::fs::write(&f, c)?;
        std::fs::File::options().write(true).open(&f)?.set_modified(old_time())?;
    }
    Ok(())
}

/// The report printed by a `sqruff fix` run against the library's violations (fix mode) of the linted files.
#[allow(clippy::too_many_arguments)]
fn fix_report(out: &mut Buf, c: &Case, fmt: &str, gfmt: &str, mode: &str, r: &Run, idxs: &[usize], fix_vs: &[Vec<V>], stdin: bool) {
    let tag = format!("fixrep-{}-{}", fmt, mode);
    let din = json!({"input":c.input(),"format":fmt,"mode":format!("fix-{}", mode)});
    // in stdin mode stdout carries the fixed text: the human and GitHub formats report on stderr
    let reps = parse_reports(fmt, r);
    let name_of = |i: usize| if stdin { "<string>".to_string() } else { fname(i) };
    let obs: Option<Vec<Vec<RLine>>> = reps.as_ref().map(|reps| {
        idxs.iter()
            .map(|i| {
                let mut v: Vec<RLine> = reps.iter().filter(|f| f.0 == name_of(*i)).flat_map(|f| f.2.clone()).collect();
                v.sort();
                v
            })
            .collect()
    });
    let lib: Vec<Vec<RLine>> = idxs
        .iter()
        .map(|i| {
            let mut v: Vec<RLine> = fix_vs[*i].iter().map(|v| v.rl()).collect();
            v.sort();
            v
        })
        .collect();
    match &obs {
        None => out.direct(&tag, false, &format!("c18-fix-report-unreadable-{}-{}", fmt, mode), &format!("the report of fix cannot be read: stdout {} stderr {}", trunc(&r.stdout, 200), trunc(&r.stderr, 200)), din),
        Some(o) if *o != lib => out.direct(&tag, false, &format!("c18-fix-report-differs-{}-{}", fmt, mode), &format!("fix reports {:?}, the library found {:?} (exit {:?})", o, lib, r.status), din),
        Some(_) => out.direct(&tag, true, "", "", Value::Null),
    }
    let gargs = format!("({},{})", gfmt, g_list(idxs.iter().map(|i| g_list(fix_vs[*i].iter().map(|v| v.g())))));
    let exp = match &obs {
        Some(o) => format!("(Some {})", g_list(o.iter().map(|v| g_list(v.iter().map(g_rl))))),
        None => "None".to_string(),
    };
    let sample = json!({"input":c.input_only(&tag),"status":r.status,"reported":obs.as_ref().map(|o| o.iter().map(|v| v.iter().map(j_rl).collect::<Vec<_>>()).collect::<Vec<_>>()),
        "library":lib.iter().map(|v| v.iter().map(j_rl).collect::<Vec<_>>()).collect::<Vec<_>>()});
    out.case("fixrep", &tag, idxs.iter().any(|i| !fix_vs[*i].is_empty()), gargs, exp, sample);
}

fn run_case(env: &Env, idx: usize, c: &Case, out: &mut Buf) {
    let input = c.input();
    let mut cfg = format!("[sqruff]\ndialect = {}\nrules = {}\n", c.dialect, c.rules);
    if c.verbose != 0 || idx % 2 == 1 {
        cfg.push_str(&format!("verbose = {}\n", c.verbose));
    }
    if c.nocolor {
        cfg.push_str("nocolor = True\n");
    }
    // ---- the library's answer for every file (lint mode and fix mode)
    let mut lint_vs: Vec<Vec<V>> = vec![];
    let mut fix_vs: Vec<Vec<V>> = vec![];
    let mut fixed: Vec<String> = vec![];
    for sql in &c.files {
        let a = lib_lint(&cfg, c.parsing_errors, sql, false);
        let b = lib_lint(&cfg, c.parsing_errors, sql, true);
        match (a, b) {
            (Ok((v, _)), Ok((w, f))) => {
                lint_vs.push(v);
                fix_vs.push(w);
                fixed.push(f);
            }
            _ => {
                out.count("library_panic_skipped(C03)", 1);
                return;
            }
        }
    }
    out.count("contents", 1);
    for vs in lint_vs.iter().chain(fix_vs.iter()) {
        for v in vs {
            out.hyp("H_flags: no violation carries ignore=true", "blocking", !v.ignore, json!({"input":input,"line":v.line,"rule":v.rule}));
        }
        out.count("library_violations", vs.len());
        out.count("library_violations_without_rule", vs.iter().filter(|v| v.rule.is_none()).count());
        out.count("library_violations_unfixable", vs.iter().filter(|v| !v.fixable).count());
        out.count("library_violations_warning", vs.iter().filter(|v| v.warning).count());
    }

    let root = env.scratch.join(format!("c{}", idx));
    let _ = std::fs::remove_dir_all(&root);
    let w = root.join("w");
    let w2 = root.join("w2");
    if write_files(&w, &c.files).is_err() || write_files(&w2, &c.files).is_err() || std::fs::write(root.join("cfg"), &cfg).is_err() {
        out.count("materialise_failed", 1);
        let _ = std::fs::remove_dir_all(&root);
        return;
    }
    let mut base: Vec<&str> = vec!["--config", "../cfg"];
    if c.parsing_errors {
        base.push("--parsing-errors");
    }

    // ---- what an implementation of the public Formatter trait is handed vs what the call returns (both entry
    // points of the library, lint and fix mode), and the end of lint_parsed against its model
    for fix in [false, true] {
        let what = if fix { "fix" } else { "lint" };
        let reference = if fix { &fix_vs } else { &lint_vs };
        let abs: Vec<PathBuf> = c.order.iter().map(|i| w.join(fname(*i))).collect();
        let by_paths = lib_fed_paths(&cfg, c.parsing_errors, abs, fix);
        for (i, sql) in c.files.iter().enumerate() {
            let Ok(raw) = lib_collect(&cfg, c.parsing_errors, sql, fix) else {
                out.count("library_panic_skipped(C03)", 1);
                continue;
            };
            out.count("collected_violations", raw.len());
            out.count("collected_violations_covered_by_noqa", raw.iter().filter(|x| x.1).count());
            out.count("collected_violations_without_rule_covered_by_noqa", raw.iter().filter(|x| x.1 && x.0.rule.is_none()).count());
            let path = w.join(fname(i)).to_string_lossy().to_string();
            for entry in ["string", "paths"] {
                let tag = format!("fed-{}-{}", entry, what);
                let din = json!({"input":input,"entry":entry,"fix":fix,"file":i});
                // (dispatches for this file, returned violations of this file)
                let got: Result<(Vec<Seen>, Option<Vec<V>>), String> = if entry == "string" {
                    lib_fed_string(&cfg, c.parsing_errors, sql, fix).map(|(s, r)| (s, Some(r)))
                } else {
                    by_paths.clone().map(|(s, r)| (s.into_iter().filter(|x| x.0 == path).collect(), r.into_iter().find(|x| x.0 == path).map(|x| x.1)))
                };
                let (seen, ret) = match got {
                    Ok((seen, Some(ret))) => (seen, ret),
                    Ok((_, None)) => {
                        out.direct(&tag, false, &format!("c18-fed-file-missing-{}", tag), "lint_paths did not return the file", din);
                        continue;
                    }
                    Err(e) => {
                        out.direct(&tag, false, &format!("c18-crash-{}", tag), &format!("the library panicked with a formatter attached: {}", trunc(&e, 300)), din);
                        continue;
                    }
                };
                let js = |vs: &[V]| vs.iter().map(|v| j_rl(&v.rl())).collect::<Vec<_>>();
                if seen.len() != 1 {
                    out.direct(&tag, false, &format!("c18-fed-dispatches-{}", tag), &format!("the formatter was handed the file {} times", seen.len()), din.clone());
                } else if seen[0].1 != ret {
                    out.direct(&tag, false, &format!("c18-fed-differs-{}", tag), &format!("the formatter is told {:?}, the library returns {:?}", js(&seen[0].1), js(&ret)), din.clone());
                } else if seen[0].2 != 0 {
                    out.direct(&tag, false, &format!("c18-fed-covered-{}", tag), &format!("the formatter is handed {} violation(s) that the file's own ignore mask covers: {:?}", seen[0].2, js(&seen[0].1)), din.clone());
                } else if ret != reference[i] {
                    out.direct(&tag, false, &format!("c18-fed-result-{}", tag), &format!("with a formatter attached the call returns {:?}, without {:?}", js(&ret), js(&reference[i])), din.clone());
                } else {
                    out.direct(&tag, true, "", "", Value::Null);
                }
                let gv = |vs: &[V]| g_list(vs.iter().map(|v| v.g()));
                let gargs = g_list(raw.iter().map(|(v, m)| format!("({},{})", v.g(), g_bool(*m))));
                let exp = format!("({},{})", gv(seen.first().map(|x| x.1.as_slice()).unwrap_or(&[])), gv(&ret));
                let sample = json!({"input":c.input_only(&tag),"file":i,"collected":raw.iter().map(|(v, m)| json!([v.line, v.col, v.rule, m])).collect::<Vec<_>>(),
                    "formatter_given":seen.first().map(|x| js(&x.1)),"returned":js(&ret)});
                out.case("fed", &tag, !raw.is_empty(), gargs, exp, sample);
            }
        }
    }

    // ---- lint: 3 formats x (3 modes + 2 several-paths modes when there are at least two files)
    let rev: Vec<usize> = c.order.iter().rev().copied().collect();
    let rev_args: Vec<String> = rev.iter().map(|i| if *i == 1 { "sub".to_string() } else { fname(*i) }).collect();
    let fwd_args: Vec<String> = c.order.iter().map(|i| fname(*i)).collect();
    for (fi, fmt) in FORMATS.iter().enumerate() {
        for mode in MODES {
            if mode.starts_with("paths") && c.files.len() < 2 {
                continue;
            }
            let mut args = base.clone();
            args.extend_from_slice(&["lint", "-f", fmt]);
            let (r, expect_files): (Run, Vec<usize>) = match mode {
                "directory" => {
                    args.push(".");
                    (run(env, &w, &args, None), (0..c.files.len()).collect())
                }
                "path" => {
                    args.push("f0.sql");
                    (run(env, &w, &args, None), vec![0])
                }
                "paths" => {
                    args.extend(fwd_args.iter().map(|a| a.as_str()));
                    (run_t(env, &w, &args, None, true), c.order.clone())
                }
                "paths-rev" => {
                    args.extend(rev_args.iter().map(|a| a.as_str()));
                    (run_t(env, &w, &args, None, true), rev.clone())
                }
                _ => {
                    args.push("-");
                    (run(env, &w, &args, Some(&c.files[0])), vec![0])
                }
            };
            let tag = format!("{}-{}", fmt, mode);
            let lib_sets: Vec<BTreeSet<RLine>> = expect_files.iter().map(|i| lint_vs[*i].iter().map(|v| v.rl()).collect()).collect();
            let lib_fail = expect_files.iter().any(|i| lint_vs[*i].iter().any(|v| !v.warning));
            let ok_status = r.status == Some(0) || r.status == Some(1);
            let reps = if ok_status { parse_reports(fmt, &r) } else { None };
            let name_of = |i: usize| if mode == "stdin" { "<string>".to_string() } else { fname(i) };
            // observed per expected file (a file without printed lines has an empty report)
            let obs: Option<Vec<Vec<RLine>>> = reps.as_ref().map(|reps| {
                expect_files
                    .iter()
                    .map(|i| {
                        let name = name_of(*i);
                        reps.iter().filter(|f| f.0 == name).flat_map(|f| f.2.clone()).collect::<Vec<_>>()
                    })
                    .map(|mut v: Vec<RLine>| {
                        v.sort();
                        v
                    })
                    .collect()
            });
            // header lines of the human format per expected file: Ok(None) = none, Err = more than one
            let headers: Option<Vec<Result<Option<bool>, usize>>> = reps.as_ref().map(|reps| {
                expect_files
                    .iter()
                    .map(|i| {
                        let name = name_of(*i);
                        let hs: Vec<bool> = reps.iter().filter(|f| f.0 == name).filter_map(|f| f.1).collect();
                        if hs.len() > 1 { Err(hs.len()) } else { Ok(hs.first().copied()) }
                    })
                    .collect()
            });
            let dup_header = headers.as_ref().map(|h| h.iter().any(|x| x.is_err())).unwrap_or(false);
            let stray = reps.as_ref().map(|reps| {
                reps.iter().any(|f| {
                    let known = if mode == "stdin" { f.0 == "<string>" } else { expect_files.iter().any(|i| f.0 == fname(*i)) };
                    !known && !f.2.is_empty()
                })
            });
            // ---------- direct judgement (property text)
            let din = json!({"input":input,"format":fmt,"mode":mode});
            match (&obs, stray) {
                (None, _) => out.direct(&tag, false, &format!("c18-crash-{}", tag), &format!("no report: status {:?}, stderr: {}", r.status, trunc(&r.stderr, 300)), din),
                (Some(_), Some(true)) => out.direct(&tag, false, &format!("c18-stray-report-{}", tag), "violations reported for a file that was not given", din),
                (Some(_), _) if dup_header => out.direct(&tag, false, &format!("c18-file-reported-twice-{}", tag), "a file has more than one header line", din),
                (Some(o), _) => {
                    let obs_sets: Vec<BTreeSet<RLine>> = o.iter().map(|v| v.iter().cloned().collect()).collect();
                    // the header of the human format must say FAIL exactly for a file with a non-warning violation,
                    // and at verbosity above 0 every file has one
                    let bad_header = if *fmt == "human" {
                        expect_files.iter().zip(headers.as_ref().unwrap().iter()).find_map(|(i, h)| {
                            let fails = lint_vs[*i].iter().any(|v| !v.warning);
                            match h {
                                Ok(Some(pass)) if *pass == fails => Some(format!("{} has header {} but a non-warning violation is reported for it: {}", name_of(*i), if *pass { "PASS" } else { "FAIL" }, fails)),
                                Ok(None) if c.verbose > 0 || !lint_vs[*i].is_empty() => Some(format!("{} has no header line (verbose = {})", name_of(*i), c.verbose)),
                                _ => None,
                            }
                        })
                    } else {
                        None
                    };
                    if obs_sets != lib_sets {
                        out.direct(&tag, false, &format!("c18-report-differs-{}", tag), &format!("reported (line, col, rule) set differs from the library's: cli {:?} vs lib {:?}", obs_sets, lib_sets), din);
                    } else if r.status != Some(if lib_fail { 1 } else { 0 }) {
                        out.direct(&tag, false, &format!("c18-lint-exit-{}", tag), &format!("exit {:?} but a non-warning violation is reported: {}", r.status, lib_fail), din);
                    } else if let Some(msg) = bad_header {
                        out.direct(&tag, false, &format!("c18-header-{}", tag), &msg, din);
                    } else {
                        out.direct(&tag, true, "", "", Value::Null);
                    }
                }
            }
            // ---------- correspondence case
            let gargs = format!(
                "({},{},({})%Z,{})",
                ["Human", "Github", "Json"][fi],
                g_bool(mode == "stdin"),
                c.verbose,
                g_list(expect_files.iter().map(|i| g_list(lint_vs[*i].iter().map(|v| v.g()))))
            );
            let exp = match (&obs, &headers) {
                (Some(o), Some(hs)) if stray == Some(false) && !dup_header => format!(
                    "(Some ({},{}))",
                    r.status.unwrap_or(99),
                    g_list(o.iter().zip(hs.iter()).map(|(v, h)| format!("({},{})", g_list(v.iter().map(g_rl)), g_opt(h.clone().ok().flatten().map(g_bool)))))
                ),
                _ => "None".to_string(),
            };
            let nontrivial = expect_files.iter().any(|i| !lint_vs[*i].is_empty());
            let sample = json!({"input":c.input_only(&tag),"status":r.status,"linted":expect_files.iter().map(|i| name_of(*i)).collect::<Vec<_>>(),
                "reported":obs.as_ref().map(|o| o.iter().map(|v| v.iter().map(j_rl).collect::<Vec<_>>()).collect::<Vec<_>>()),
                "headers":headers.as_ref().map(|hs| hs.iter().map(|h| match h { Ok(Some(true)) => "PASS", Ok(Some(false)) => "FAIL", Ok(None) => "-", Err(_) => "several" }).collect::<Vec<_>>()),
                "library":expect_files.iter().map(|i| lint_vs[*i].iter().map(|v| j_rl(&v.rl())).collect::<Vec<_>>()).collect::<Vec<_>>()});
            out.case("lint", &tag, nontrivial, gargs, exp, sample);
        }
    }

    // ---- "-" mixed with other inputs is refused (is_std_in_flag_input)
    if idx % 8 == 0 {
        for shape in [vec!["f0.sql", "-"], vec!["-", "-"], vec!["-", "f0.sql"]] {
            let mut args = base.clone();
            args.extend_from_slice(&["lint", "-f", "json"]);
            args.extend(shape.iter().copied());
            let r = run(env, &w, &args, Some(&c.files[0]));
            let refused = r.status == Some(1) && r.stderr.contains("Cannot mix stdin flag with other inputs") && r.stdout.trim().is_empty();
            out.direct("stdin-flag", refused, "c18-stdin-flag-mix", &format!("'-' mixed with other inputs was not refused: status {:?}", r.status), json!({"input":input,"argv":shape}));
            let gargs = g_list(shape.iter().map(|a| g_bool(*a == "-")));
            let exp = if refused { "None" } else { "(Some false)" };
            out.case("stdinflag", "stdin-flag", true, gargs, exp.to_string(), json!({"input":c.input_only("stdin-flag"),"argv":shape,"status":r.status}));
        }
    }

    // ---- fix: directory (w), path (w2), stdin
    let fmt_i = idx % 3;
    let fmt = FORMATS[fmt_i];
    let gfmt = ["Human", "Github", "Json"][fmt_i];
    for mode in FIX_MODES {
        let mut args = base.clone();
        let tag = format!("fix-{}-{}", fmt, mode);
        let din = json!({"input":input,"format":fmt,"mode":format!("fix-{}", mode)});
        if mode == "stdin" {
            args.extend_from_slice(&["fix", "-f", fmt, "-"]);
            let r = run(env, &w, &args, Some(&c.files[0]));
            let unfix = fix_vs[0].iter().any(|v| !v.fixable);
            let want = format!("{}\n", fixed[0]);
            let ok_status = r.status == Some(0) || r.status == Some(1);
            if !ok_status {
                out.direct(&tag, false, &format!("c18-crash-{}", tag), &format!("status {:?}, stderr: {}", r.status, trunc(&r.stderr, 300)), din);
            } else if r.stdout != want {
                out.direct(&tag, false, "c18-fix-stdin-text", "stdout is not the library's fixed text", din);
            } else if r.status != Some(if unfix { 1 } else { 0 }) {
                out.direct(&tag, false, "c18-fix-stdin-exit", &format!("exit {:?}, unfixable violation found: {}", r.status, unfix), din);
            } else {
                out.direct(&tag, true, "", "", Value::Null);
            }
            let gargs = format!("({},{},1)", gfmt, g_list(fix_vs[0].iter().map(|v| v.g())));
            let exp = if ok_status { format!("(Some ({},{}))", r.status.unwrap(), if r.stdout == want { 1 } else { 2 }) } else { "None".to_string() };
            let sample = json!({"input":c.input_only(&tag),"status":r.status});
            out.case("fixstdin", &tag, !fix_vs[0].is_empty(), gargs, exp, sample);
            // what `fix -` prints (the JSON format prints nothing in this mode)
            if ok_status && fmt != "json" {
                fix_report(out, c, fmt, gfmt, mode, &r, &[0], &fix_vs, true);
            }
            continue;
        }
        let (dir, idxs): (&Path, Vec<usize>) = if mode == "directory" { (&w, (0..c.files.len()).collect()) } else { (&w2, vec![0]) };
        let din2 = din.clone();
        args.extend_from_slice(&["fix", "--force", "-f", fmt]);
        args.push(if mode == "directory" { "." } else { "f0.sql" });
        let r = run(env, dir, &args, None);
        let ok_status = r.status == Some(0) || r.status == Some(1);
        let any_viol = idxs.iter().any(|i| !fix_vs[*i].is_empty());
        let unfix = idxs.iter().any(|i| fix_vs[*i].iter().any(|v| !v.fixable));
        let mut writes: Vec<(usize, bool, bool, bool)> = vec![];
        let mut bad_content: Option<usize> = None;
        let mut touched_unexpected: Option<usize> = None;
        for i in 0..c.files.len() {
            let f = dir.join(fname(i));
            let content = std::fs::read_to_string(&f).unwrap_or_default();
            let written = std::fs::metadata(&f).and_then(|m| m.modified()).ok() != Some(old_time());
            let listed = idxs.contains(&i);
            writes.push((i, content == fixed[i], content == c.files[i], written));
            let want: &str = if listed && any_viol { &fixed[i] } else { &c.files[i] };
            if content != want {
                bad_content = Some(i);
            }
            if written && !(listed && any_viol) {
                touched_unexpected = Some(i);
            }
        }
        if !ok_status {
            out.direct(&tag, false, &format!("c18-crash-{}", tag), &format!("status {:?}, stderr: {}", r.status, trunc(&r.stderr, 300)), din);
        } else if let Some(i) = touched_unexpected {
            out.direct(&tag, false, "c18-fix-touched", &format!("f{}.sql was written although nothing was reported / it was not given", i), din);
        } else if let Some(i) = bad_content {
            out.direct(&tag, false, "c18-fix-content", &format!("f{}.sql does not hold the library's fixed text", i), din);
        } else if r.status != Some(if unfix { 1 } else { 0 }) {
            out.direct(&tag, false, "c18-fix-exit", &format!("exit {:?}, unfixable violation found: {}", r.status, unfix), din);
        } else {
            out.direct(&tag, true, "", "", Value::Null);
        }
        let gargs = format!(
            "({},{})",
            gfmt,
            g_list(idxs.iter().map(|i| format!("{{| f_id := {}; f_viols := {}; f_fixed := 1 |}}", i, g_list(fix_vs[*i].iter().map(|v| v.g())))))
        );
        let exp = if ok_status {
            format!("(Some ({},{}))", r.status.unwrap(), g_list(writes.iter().map(|(i, a, b, t)| format!("({},{},{},{})", i, g_bool(*a), g_bool(*b), g_bool(*t)))))
        } else {
            "None".to_string()
        };
        let sample = json!({"input":c.input_only(&tag),"status":r.status,"writes":writes});
        out.case("fix", &tag, any_viol, gargs, exp, sample);
        // what `fix <path>` prints (the JSON format prints its report only when there is something to fix)
        if ok_status {
            if fmt != "json" || any_viol {
                fix_report(out, c, fmt, gfmt, mode, &r, &idxs, &fix_vs, false);
            } else {
                let said = r.stdout.contains("nothing to fix");
                out.direct(&format!("fixrep-{}-{}", fmt, mode), said, &format!("c18-fix-report-differs-{}-{}", fmt, mode), "the library finds nothing but fix does not say 'nothing to fix'", din2);
            }
        }
    }
    let _ = std::fs::remove_dir_all(&root);
}

fn usable(s: &str) -> bool {
    s.is_ascii() && !s.contains("-- sqlfluff") && !s.contains("--sqlfluff") && !s.contains('\r') && s.len() < 1500 && !s.contains("{{") && !s.contains("{%")
}

pub fn main(args: &Args) {
    silence_panics();
    let mut out = Out::new(&args.out);
    let mut rng = Rng::new(args.seed);
    let sqruff = PathBuf::from(args.flag("--sqruff").expect("--sqruff <binary> required"));
    let scratch = PathBuf::from(args.flag("--scratch").expect("--scratch <dir> required")).join(format!("c18-{}", std::process::id()));
    std::fs::create_dir_all(&scratch).expect("scratch");
    let env = Env { sqruff, scratch: scratch.clone() };
    let mut cases: Vec<Case> = vec![];
    let s = |x: &str| x.to_string();

    if let Some(path) = args.flag("--replay-input") {
        let v: Value = serde_json::from_str(&std::fs::read_to_string(path).unwrap()).unwrap();
        let v = if v.get("input").is_some() && v["input"].get("files").is_some() { v["input"].clone() } else { v };
        let d = v["dialect"].as_str().unwrap_or("ansi");
        let files: Vec<String> = v["files"].as_array().map(|a| a.iter().map(|x| x.as_str().unwrap_or("").to_string()).collect()).unwrap_or_default();
        let mut c = Case::new(DIALECTS.iter().copied().find(|x| *x == d).unwrap_or("ansi"), files, v["rules"].as_str().unwrap_or("core"), v["parsing_errors"].as_bool().unwrap_or(false), v["verbose"].as_i64().unwrap_or(0), "replay");
        c.nocolor = v["nocolor"].as_bool().unwrap_or(false);
        if let Some(o) = v["order"].as_array() {
            let o: Vec<usize> = o.iter().filter_map(|x| x.as_u64().map(|x| x as usize)).collect();
            let mut sorted = o.clone();
            sorted.sort();
            if sorted == (0..c.files.len()).collect::<Vec<_>>() {
                c.order = o;
            }
        }
        cases.push(c);
    } else {
        // regression corpus: the repaired GitHub-format abort, an unfixable-only file, a clean directory
        cases.push(Case::new("ansi", vec![s("SELECT FROM WHERE\n")], "core", true, 0, "regression"));
        cases.push(Case::new("ansi", vec![s("SELECT a FROM t -- noqa:\n"), s("SELECT 1\n")], "core", false, 0, "regression"));
        cases.push(Case::new("ansi", vec![s("SELECT a FROM t1 AS x, t2 AS x\n"), s("SELECT a FROM t\n")], "AL04", false, 0, "regression"));
        cases.push(Case::new("ansi", vec![s("SELECT a FROM t\n"), s("SELECT 1\n")], "core", false, 0, "regression"));
        cases.push(Case::new("ansi", vec![s("SeLeCt  1 from tBl ;\n"), s("SELECT a FROM t\n")], "CP01,LT01", false, 0, "regression"));
        // formatter configuration: headers for clean files, failing and clean files interleaved
        cases.push(Case::new("ansi", vec![s("SELECT a  FROM t\n"), s("SELECT a FROM t\n")], "core", false, 1, "formatter-config"));
        cases.push(Case::new("ansi", vec![s("SELECT 1\n"), s("SELECT a from t\n"), s("SELECT a FROM t\n")], "core", false, 2, "formatter-config"));
        cases.push(Case::new("ansi", vec![s("SELECT a FROM t\n"), s("SELECT 1\n")], "core", false, 1, "formatter-config"));
        cases.push(Case::new("ansi", vec![s("SELECT FROM WHERE\n"), s("SELECT 1\n"), s("SELECT a, a FROM t\n")], "core", true, 1, "formatter-config"));

        let snippets: Vec<String> = rule_snippets().into_iter().map(|(_, t)| if t.ends_with('\n') { t } else { format!("{}\n", t) }).filter(|t| usable(t)).collect();
        let n = if args.thorough() { 2500 } else { 260 };
        // the choices added later (formatter keys, argument order) come from a second stream so that the contents stay the same
        let mut rng2 = Rng::new(args.seed ^ 0xC18);
        for _ in 0..n {
            let nfiles = rng.range(1, 3);
            let mut files = vec![];
            let mut cls = "generated";
            for _ in 0..nfiles {
                let mut t = String::new();
                match rng.below(10) {
                    0 | 1 if !snippets.is_empty() => {
                        t = snippets[rng.below(snippets.len())].clone();
                        cls = "rule-fixture-snippet";
                    }
                    2 => t.push_str(CLEAN[rng.below(CLEAN.len())]),
                    _ => {
                        for _ in 0..rng.range(1, 3) {
                            let pool = match rng.below(10) {
                                0..=3 => FIXABLE,
                                4..=5 => UNFIXABLE,
                                6..=7 => CLEAN,
                                _ => JUNK,
                            };
                            let stmt = pool[rng.below(pool.len())];
                            t.push_str(stmt.trim_end_matches('\n'));
                            if !stmt.trim_end().ends_with(';') && !stmt.contains("--") && !stmt.is_empty() {
                                t.push(';');
                            }
                            t.push('\n');
                        }
                    }
                }
                files.push(t);
            }
            let dialect = if rng.chance(2, 3) { "ansi" } else { ["postgres", "bigquery", "snowflake", "sparksql"][rng.below(4)] };
            let rules = RULESETS[rng.below(RULESETS.len())];
            let pe = rng.chance(1, 2);
            // with several files, now and then make sure a clean file sits among them (a header that says PASS)
            if files.len() >= 2 && rng2.chance(1, 4) {
                let k = rng2.below(files.len());
                files[k] = CLEAN[rng2.below(CLEAN.len() - 1)].to_string();
            }
            let verbose = match rng2.below(10) {
                0..=3 => 0,
                4..=7 => 1,
                _ => 2,
            };
            let mut c = Case::new(dialect, files, rules, pe, verbose, cls);
            c.nocolor = rng2.chance(1, 3);
            // a random argument order (Fisher-Yates)
            for k in (1..c.order.len()).rev() {
                let m = rng2.below(k + 1);
                c.order.swap(k, m);
            }
            cases.push(c);
        }
        // line endings other than "\n": the library normalises them for every entry point, so path, stdin and library
        // must still agree (bare "\r" and a comment line of exactly max_line_length before "\r\n" are where a missing
        // normalisation shows)
        let mut rng3 = Rng::new(args.seed ^ 0xC18C);
        let pad = |c: &str| format!("{}{}", c, "x".repeat(80usize.saturating_sub(c.len())));
        cases.push(Case::new("ansi", vec![format!("{}\r\nSELECT 1\r\n", pad("SELECT a FROM t -- "))], "core", false, 0, "line-endings"));
        cases.push(Case::new("ansi", vec![s("SELECT a\rFROM t\r")], "core", false, 0, "line-endings"));
        cases.push(Case::new("ansi", vec![s("SELECT a  FROM t\r\n"), s("SELECT a\rFROM t\r")], "all", true, 1, "line-endings"));
        for _ in 0..(n / 6) {
            let mut files = vec![];
            for _ in 0..rng3.range(1, 2) {
                let mut t = String::new();
                for _ in 0..rng3.range(1, 3) {
                    let pool = match rng3.below(10) {
                        0..=3 => FIXABLE,
                        4..=5 => UNFIXABLE,
                        6..=8 => CLEAN,
                        _ => JUNK,
                    };
                    let stmt = pool[rng3.below(pool.len())];
                    if rng3.chance(1, 4) && !stmt.contains("--") && stmt.len() < 60 {
                        t.push_str(&pad(&format!("{} -- ", stmt.trim_end_matches('\n'))));
                    } else {
                        t.push_str(stmt.trim_end_matches('\n'));
                    }
                    t.push('\n');
                }
                let eol = ["\r\n", "\r", "\r\n", "\n\r"][rng3.below(4)];
                files.push(if rng3.chance(1, 5) { t.replacen('\n', eol, 1) } else { t.replace('\n', eol) });
            }
            let rules = RULESETS[rng3.below(RULESETS.len())];
            let mut c = Case::new("ansi", files, rules, rng3.chance(1, 2), if rng3.chance(1, 2) { 0 } else { 1 }, "line-endings");
            c.nocolor = rng3.chance(1, 3);
            cases.push(c);
        }
    }
    if args.flag("--replay-input").is_none() {
        // violations that a noqa directive covers, with and without a rule: a parse error (--parsing-errors) or a
        // malformed directive on a line that carries `-- noqa` or inside a `disable=all` range is found by the library
        // and dropped by the last filter of lint_parsed; every front-end must stay silent about it as well
        cases.push(Case::new("ansi", vec![s("SELECT a FROM t WHERE -- noqa\n")], "core", true, 0, "masked"));
        cases.push(Case::new("ansi", vec![s("-- noqa: disable=all\nSELECT a FROM t -- noqa:\n"), s("SELECT a FROM t -- noqa:\n")], "core", false, 1, "masked"));
        cases.push(Case::new("ansi", vec![s("SELECT a FROM t; -- noqa: disable=all\nSELECT b FROM WHERE;\n-- noqa: enable=all\nSELECT c  FROM t;\n")], "core", true, 0, "masked"));
        cases.push(Case::new("ansi", vec![s("SELECT a  FROM t -- noqa\n"), s("SELECT FROM WHERE -- noqa: LT01\n")], "all", true, 2, "masked"));
        let mut rng4 = Rng::new(args.seed ^ 0xC186);
        let n = if args.thorough() { 800 } else { 90 };
        for _ in 0..n {
            let mut files = vec![];
            for _ in 0..rng4.range(1, 2) {
                let mut t = String::new();
                if rng4.chance(1, 3) {
                    t.push_str(["-- noqa: disable=all\n", "/* noqa: disable=all */\n", "-- noqa: disable=LT01,CP01\n", "-- noqa: disable=all\n"][rng4.below(4)]);
                }
                for k in 0..rng4.range(1, 3) {
                    if k > 0 && rng4.chance(1, 5) {
                        t.push_str(["-- noqa: enable=all\n", "-- noqa: enable=LT01\n", "-- noqa: disable=all\n"][rng4.below(3)]);
                    }
                    let pool = match rng4.below(10) {
                        0..=2 => FIXABLE,
                        3 => UNFIXABLE,
                        4..=5 => CLEAN,
                        _ => JUNK,
                    };
                    let stmt = pool[rng4.below(pool.len())].trim_end_matches('\n');
                    t.push_str(stmt);
                    if !stmt.contains("--") {
                        if !stmt.trim_end().ends_with(';') && !stmt.is_empty() && rng4.chance(3, 4) {
                            t.push(';');
                        }
                        if rng4.chance(3, 5) {
                            t.push(' ');
                            t.push_str(NOQA[rng4.below(NOQA.len())]);
                        }
                    }
                    t.push('\n');
                }
                files.push(t);
            }
            let dialect = if rng4.chance(3, 4) { "ansi" } else { ["postgres", "bigquery", "snowflake", "sparksql"][rng4.below(4)] };
            let mut c = Case::new(dialect, files, RULESETS[rng4.below(RULESETS.len())], rng4.chance(2, 3), [0, 0, 1, 2][rng4.below(4)], "masked");
            c.nocolor = rng4.chance(1, 3);
            if c.order.len() == 2 && rng4.chance(1, 2) {
                c.order.swap(0, 1);
            }
            cases.push(c);
        }
    }
    let items: Vec<(usize, Case)> = cases.into_iter().enumerate().collect();
    par_run(&mut out, &items, || (), |_, (i, c), buf| {
        let _ = c.cls;
        run_case(&env, *i, c, buf)
    });
    let _ = std::fs::remove_dir_all(&scratch);
    out.finish();
}
