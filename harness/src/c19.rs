//! C19 — file discovery honours extensions and the ignore file.
//!
//! Two ties (DESIGN.md 6.19, notes/C19.md):
//!  (gi)   the Gallina gitignore specification `gi_ignored` vs the `ignore` crate's
//!         `Gitignore::matched_path_or_any_parents` on generated (pattern lines, paths);
//!  (pipe) the Gallina pipeline `linted` / `written` vs the real `sqruff` binary built from the
//!         tree: keys (and multiplicities) of `sqruff lint -f json <args>` and the files rewritten by
//!         `sqruff fix --force <args>` on generated directory trees x extension lists x ignore files
//!         x path arguments;
//!  (lib)  the same Gallina pipeline vs the library's public entry point `Linter::lint_paths` called
//!         in-process (lint, then fix on the same linter), with the extension list reaching the
//!         `FluffConfig` through every public route (config text, config map, the builder
//!         `with_sql_file_exts`, the builder over a configured list, `Linter::config_mut`) and with
//!         extension lists in arbitrary letter case.
//!  (nav)  the Gallina pipeline over *written* arguments (`Disc/Nav.v`: "..", ".", absolute, detours) vs
//!         the real binary run from a working directory nested inside the tree (`.sqruff` and
//!         `.sqruffignore` in that directory), and (navlib) vs `Linter::lint_paths` called in a process
//!         whose working directory is that directory;
//!  (norm) the Gallina `normalize` vs `sqruff_lib_core::helpers::normalize` on random written paths.
//! Independently of the model, every pipeline run is judged directly against the property text
//! with the `ignore` crate as the gitignore reference (`Buf::direct`).
use std::collections::{BTreeMap, BTreeSet};
use std::path::{Path, PathBuf};
use std::process::{Command, Stdio};

use ignore::gitignore::{Gitignore, GitignoreBuilder};
use serde_json::{Value, json};
use sqruff_lib::core::config::{FluffConfig, Value as CfgValue};
use sqruff_lib::core::linter::core::Linter;

use crate::common::*;

const SQL: &str = "SELECT 1 from t\n"; // exactly one (fixable) CP01 violation per processing
const DIRS: &[&str] = &["temp", "sub", "build", "models", "Temp", ".hid", "d.sql", "t"];
const FILES: &[&str] = &["a.sql", "b.sql", "c.SQL", "x.hql", "n.txt", "m.sql.j2", ".h.sql", "README", "q.ddl", "e.Sql", "asql", "temp"];
const EXTS: &[&str] = &["", ".sql", ".sql,.hql", ".hql", ".sql,sql", ".j2,.sql", ".txt,.sql", ".ddl,.dml,.sql.j2", ".SQL", ".Sql,.hql"];
const NAMES: &[&str] = &["temp", "sub", "build", "models", "Temp", ".hid", "d.sql", "t", "a.sql", "b.sql", "c.SQL", "x.hql", "n.txt", "m.sql.j2", ".h.sql", "README"];
const GLOBS: &[&str] = &["*.sql", "*.hql", "*", "a*", "?.sql", "t*p", "*.s?l", "*.SQL", "te??", "*e*", ".*", "*.sql.j2", "??", "b*.sql"];

// ------------------------------------------------------------------ generators
fn gen_comp(rng: &mut Rng) -> String {
    match rng.below(10) {
        0..=4 => NAMES[rng.below(NAMES.len())].to_string(),
        5..=8 => GLOBS[rng.below(GLOBS.len())].to_string(),
        _ => "**".to_string(),
    }
}

/// One line of an ignore file from the README-documented forms (plus negation).
fn gen_line(rng: &mut Rng, allow_neg: bool) -> String {
    match rng.below(20) {
        0 => return String::new(),
        1 => return "   ".to_string(),
        2 => return format!("# {}", NAMES[rng.below(NAMES.len())]),
        3 => return format!("#{}/", DIRS[rng.below(DIRS.len())]),
        4 | 5 => return format!("{}/", DIRS[rng.below(DIRS.len())]),
        6 | 7 => return GLOBS[rng.below(GLOBS.len())].to_string(),
        _ => {}
    }
    let n = match rng.below(10) {
        0..=4 => 1,
        5..=7 => 2,
        _ => 3,
    };
    let mut comps: Vec<String> = vec![];
    for _ in 0..n {
        let c = gen_comp(rng);
        // "**" only as a whole component, never twice in a row (outside the modelled subset)
        if c == "**" && comps.last().map(|l| l == "**").unwrap_or(false) {
            comps.push(NAMES[rng.below(NAMES.len())].to_string());
        } else {
            comps.push(c);
        }
    }
    let mut s = comps.join("/");
    if rng.chance(1, 4) {
        s.insert(0, '/');
    }
    if rng.chance(1, 3) && !s.ends_with("**") {
        s.push('/');
    }
    if allow_neg && rng.chance(1, 6) {
        s.insert(0, '!');
    }
    if rng.chance(1, 15) {
        s.push_str("  ");
    }
    s
}

fn gen_lines(rng: &mut Rng) -> Vec<String> {
    let allow_neg = rng.chance(2, 3);
    let n = rng.range(1, 5);
    (0..n).map(|_| gen_line(rng, allow_neg)).collect()
}

fn gen_path(rng: &mut Rng) -> (Vec<String>, bool) {
    let depth = rng.range(1, 4);
    let mut p = vec![];
    for _ in 0..depth {
        p.push(NAMES[rng.below(NAMES.len())].to_string());
    }
    (p, rng.chance(1, 3))
}

#[derive(Clone)]
struct TreeCase {
    tree: Vec<(Vec<String>, bool)>,
    exts_cfg: String,
    lines: Option<Vec<String>>,
    args: Vec<(u8, Vec<String>)>, // (0 Rel | 1 Dot | 2 Abs, components)
    cls: &'static str,
}

fn gen_tree(rng: &mut Rng) -> Vec<(Vec<String>, bool)> {
    let mut dirs: Vec<Vec<String>> = vec![vec![]];
    let ndirs = rng.range(0, 5);
    for _ in 0..ndirs {
        let parent = dirs[rng.below(dirs.len())].clone();
        if parent.len() >= 3 {
            continue;
        }
        let mut d = parent;
        d.push(DIRS[rng.below(DIRS.len())].to_string());
        if !dirs.contains(&d) {
            dirs.push(d);
        }
    }
    let mut entries: BTreeMap<Vec<String>, bool> = BTreeMap::new();
    for d in dirs.iter().skip(1) {
        entries.insert(d.clone(), true);
    }
    let nfiles = rng.range(1, 8);
    for _ in 0..nfiles {
        let mut f = dirs[rng.below(dirs.len())].clone();
        f.push(FILES[rng.below(FILES.len())].to_string());
        entries.entry(f).or_insert(false);
    }
    let mut v: Vec<_> = entries.into_iter().collect();
    rng.shuffle(&mut v);
    v
}

fn gen_args(rng: &mut Rng, tree: &[(Vec<String>, bool)]) -> Vec<(u8, Vec<String>)> {
    match rng.below(10) {
        0 => return vec![],
        1 | 2 => return vec![(1, vec![])],
        _ => {}
    }
    let n = rng.range(1, 3);
    let mut args: Vec<(u8, Vec<String>)> = vec![];
    for _ in 0..n {
        if !args.is_empty() && rng.chance(1, 4) {
            // duplicate of an earlier argument, possibly spelled differently
            let (_, p) = args[rng.below(args.len())].clone();
            let pf = if p.is_empty() { [1u8, 2][rng.below(2)] } else { rng.below(3) as u8 };
            args.push((pf, p));
            continue;
        }
        if rng.chance(1, 6) {
            args.push(([1u8, 2][rng.below(2)], vec![]));
            continue;
        }
        let (p, d) = tree[rng.below(tree.len())].clone();
        // a directory is sometimes spelled with a trailing slash ("sub/")
        let k = if d && rng.chance(1, 5) { 3 } else { rng.below(3) as u8 };
        args.push((k, p));
    }
    args
}

fn gen_case(rng: &mut Rng) -> TreeCase {
    let tree = gen_tree(rng);
    let exts_cfg = EXTS[rng.below(EXTS.len())].to_string();
    let (lines, cls) = match rng.below(6) {
        0 => (None, "no-ignore-file"),
        1 => (Some(vec!["# ignore ALL .hql files".to_string(), "*.hql".to_string(), String::new(), "# ignore ALL files in ANY directory named temp".to_string(), "temp/".to_string()]), "readme-ignore-file"),
        2 => {
            // directory patterns naming directories of this tree
            let ds: Vec<&Vec<String>> = tree.iter().filter(|(_, d)| *d).map(|(p, _)| p).collect();
            let mut ls = vec![];
            for _ in 0..rng.range(1, 2) {
                if ds.is_empty() {
                    ls.push("temp/".to_string());
                } else {
                    let d = ds[rng.below(ds.len())];
                    ls.push(format!("{}/", d.last().unwrap()));
                }
            }
            (Some(ls), "dir-pattern")
        }
        _ => (Some(gen_lines(rng)), "random-patterns"),
    };
    let args = gen_args(rng, &tree);
    TreeCase { tree, exts_cfg, lines, args, cls }
}

// ------------------------------------------------------------------ Gallina / JSON printers
fn g_path(p: &[String]) -> String {
    g_list(p.iter().map(|c| g_str(c)))
}
fn g_pfx(k: u8) -> &'static str {
    match k {
        0 | 3 => "Rel",
        1 => "Dot",
        _ => "Abs",
    }
}
fn g_out(o: &(u8, Vec<String>)) -> String {
    format!("({},{})", g_pfx(o.0), g_path(&o.1))
}

fn build_gi(lines: &[String]) -> Result<Gitignore, String> {
    let mut b = GitignoreBuilder::new("/sqv-root");
    for l in lines {
        b.add_line(None, l).map_err(|e| e.to_string())?;
    }
    b.build().map_err(|e| e.to_string())
}

/// The reference for "ignored under gitignore semantics": the `ignore` crate's single-path decision
/// `Gitignore::matched` asked for the path and for each parent directory up to (not including) the root;
/// the path is ignored when some level is decided "ignore" (git: a negation cannot re-include a file below
/// an excluded directory).
fn ref_ignored(gi: &Gitignore, p: &[String], is_dir: bool) -> bool {
    (1..=p.len()).rev().any(|n| gi.matched(Path::new(&p[..n].join("/")), is_dir || n < p.len()).is_ignore())
}
/// The nearest-decision walk (`matched_path_or_any_parents` without its step onto the empty path).
fn ref_nearest(gi: &Gitignore, p: &[String], is_dir: bool) -> bool {
    let mut d = is_dir;
    for n in (1..=p.len()).rev() {
        let m = gi.matched(Path::new(&p[..n].join("/")), d);
        if !m.is_none() {
            return m.is_ignore();
        }
        d = true;
    }
    false
}

// ------------------------------------------------------------------ (gi) spec vs ignore crate
struct GiItem {
    lines: Vec<String>,
    paths: Vec<(Vec<String>, bool)>,
    cls: &'static str,
}

fn run_gi(it: &GiItem, out: &mut Buf) {
    let gi = match build_gi(&it.lines) {
        Ok(g) => g,
        Err(_) => {
            out.count("gi_pattern_rejected_by_crate", 1);
            return;
        }
    };
    let mut exp: Vec<(u8, bool, bool)> = vec![];
    let mut any_true = false;
    let mut any_parent = false;
    for (p, d) in &it.paths {
        let joined = p.join("/");
        let r = catch(|| {
            let m = gi.matched(Path::new(&joined), *d);
            let code = if m.is_none() { 0u8 } else if m.is_ignore() { 1 } else { 2 };
            (code, ref_ignored(&gi, p, *d), ref_nearest(&gi, p, *d), gi.matched_path_or_any_parents(Path::new(&joined), *d).is_ignore())
        });
        let Ok((code, r, near, crate_walk)) = r else {
            out.count("gi_crate_panic", 1);
            return;
        };
        if crate_walk != near {
            out.count("gi_paths_where_matched_path_or_any_parents_differs_from_the_nearest_walk_(empty_path_quirk)", 1);
        }
        if near != r {
            out.count("gi_paths_where_nearest_walk_differs_from_gitignore_(negation_below_ignored_dir)", 1);
        }
        if r {
            any_true = true;
            if code != 1 {
                any_parent = true;
            }
        }
        exp.push((code, r, near));
    }
    out.count("gi_paths", it.paths.len());
    if any_parent {
        out.count("gi_cases_ignored_through_a_parent", 1);
    }
    let args = g_tuple(&[
        g_list(it.lines.iter().map(|l| g_str(l))),
        g_list(it.paths.iter().map(|(p, d)| g_tuple(&[g_path(p), g_bool(*d)]))),
    ]);
    let expg = g_list(exp.iter().map(|(c, b, n)| format!("({},{},{})", c, g_bool(*b), g_bool(*n))));
    let sample = json!({"input":{"kind":"gi","lines":it.lines,"paths":it.paths}, "crate_decision_gitignore_nearest":exp});
    // the hypothesis "the reference implementation agrees with the specification" is evaluated in Coq
    // (a mismatch of group gi is reported as a broken correspondence)
    out.case("gi", it.cls, any_true, args, expg, sample);
}

// ------------------------------------------------------------------ (git) spec vs git itself
/// `git check-ignore --no-index` in a scratch repository whose .gitignore holds the lines; every path is
/// materialised (file or directory) on its own, asked about, and removed again.
fn run_git(scratch: &Path, idx: usize, it: &GiItem, out: &mut Buf) {
    let root = scratch.join(format!("g{}", idx));
    let _ = std::fs::remove_dir_all(&root);
    if std::fs::create_dir_all(&root).is_err() {
        return;
    }
    let git = |args: &[&str]| {
        Command::new("git")
            .current_dir(&root)
            .env("GIT_CONFIG_GLOBAL", "/dev/null")
            .env("GIT_CONFIG_NOSYSTEM", "1")
            .env("HOME", &root)
            .args(args)
            .stdin(Stdio::null())
            .stdout(Stdio::null())
            .stderr(Stdio::null())
            .status()
            .ok()
            .and_then(|s| s.code())
    };
    if git(&["init", "-q", "."]) != Some(0) {
        out.count("git_not_available", 1);
        let _ = std::fs::remove_dir_all(&root);
        return;
    }
    let _ = std::fs::write(root.join(".gitignore"), it.lines.join("\n") + "\n");
    let mut exp = vec![];
    for (p, d) in &it.paths {
        let full = root.join(p.join("/"));
        let made = if *d { std::fs::create_dir_all(&full).is_ok() } else { full.parent().map(|x| std::fs::create_dir_all(x).is_ok()).unwrap_or(false) && std::fs::write(&full, "x").is_ok() };
        let joined = p.join("/");
        let r = if made { git(&["check-ignore", "-q", "--no-index", &joined]) } else { None };
        let _ = std::fs::remove_dir_all(root.join(&p[0]));
        let _ = std::fs::remove_file(root.join(&p[0]));
        match r {
            Some(0) => exp.push(true),
            Some(1) => exp.push(false),
            _ => {
                out.count("git_query_failed", 1);
                let _ = std::fs::remove_dir_all(&root);
                return;
            }
        }
    }
    let _ = std::fs::remove_dir_all(&root);
    out.count("git_paths", it.paths.len());
    let args = g_tuple(&[
        g_list(it.lines.iter().map(|l| g_str(l))),
        g_list(it.paths.iter().map(|(p, d)| g_tuple(&[g_path(p), g_bool(*d)]))),
    ]);
    let any_true = exp.iter().any(|b| *b);
    let expg = g_list(exp.iter().map(|b| g_bool(*b)));
    let sample = json!({"input":{"kind":"git","lines":it.lines,"paths":it.paths}, "git_check_ignore_says":exp});
    out.case("git", it.cls, any_true, args, expg, sample);
}

// ------------------------------------------------------------------ (pipe) real binary
struct Env {
    sqruff: PathBuf,
    scratch: PathBuf,
}

fn spell(root: &Path, a: &(u8, Vec<String>)) -> String {
    let j = a.1.join("/");
    match a.0 {
        0 => j,
        3 => format!("{}/", j),
        1 => {
            if j.is_empty() {
                ".".to_string()
            } else {
                format!("./{}", j)
            }
        }
        _ => {
            if j.is_empty() {
                root.display().to_string()
            } else {
                format!("{}/{}", root.display(), j)
            }
        }
    }
}

fn unspell(root: &str, s: &str) -> (u8, Vec<String>) {
    let comps = |r: &str| -> Vec<String> { r.split('/').filter(|c| !c.is_empty()).map(|c| c.to_string()).collect() };
    if let Some(r) = s.strip_prefix(root) {
        (2, comps(r))
    } else if let Some(r) = s.strip_prefix("./") {
        (1, comps(r))
    } else {
        (0, comps(s))
    }
}

fn sort_key(o: &(u8, Vec<String>)) -> Vec<u8> {
    let mut k = vec![o.0];
    k.extend_from_slice(o.1.join("/").as_bytes());
    k
}

fn old_time() -> std::time::SystemTime {
    std::time::UNIX_EPOCH + std::time::Duration::from_secs(946_684_800)
}

fn materialise(root: &Path, c: &TreeCase) -> std::io::Result<()> {
    std::fs::create_dir_all(root)?;
    for (p, d) in &c.tree {
        if *d {
            std::fs::create_dir_all(root.join(p.join("/")))?;
        }
    }
    for (p, d) in &c.tree {
        if !*d {
            let f = root.join(p.join("/"));
            if let Some(par) = f.parent() {
                std::fs::create_dir_all(par)?;
            }
            std::fs::write(&f, SQL)?;
            let fh = std::fs::File::options().write(true).open(&f)?;
            fh.set_modified(old_time())?;
        }
    }
    let mut cfg = String::from("[sqruff]\ndialect = ansi\nrules = CP01\n");
    if !c.exts_cfg.is_empty() {
        cfg.push_str(&format!("sql_file_exts = {}\n", c.exts_cfg));
    }
    std::fs::write(root.join(".sqruff"), cfg)?;
    if let Some(ls) = &c.lines {
        std::fs::write(root.join(".sqruffignore"), ls.join("\n") + "\n")?;
    }
    Ok(())
}

fn cfg_exts(exts_cfg: &str) -> Vec<String> {
    let mut cfg = String::from("[sqruff]\ndialect = ansi\nrules = CP01\n");
    if !exts_cfg.is_empty() {
        cfg.push_str(&format!("sql_file_exts = {}\n", exts_cfg));
    }
    FluffConfig::from_source(&cfg, None).sql_file_exts().to_vec()
}

struct Obs {
    status: Option<i32>,
    outs: Option<Vec<(u8, Vec<String>)>>, // multiset, sorted
    stderr: String,
}

fn run_lint(env: &Env, root: &Path, args: &[String]) -> Obs {
    let o = Command::new(&env.sqruff)
        .current_dir(root)
        .env("RUST_BACKTRACE", "0")
        .env("NO_COLOR", "1")
        .arg("lint")
        .arg("-f")
        .arg("json")
        .args(args)
        .stdin(Stdio::null())
        .output();
    let Ok(o) = o else {
        return Obs { status: None, outs: None, stderr: "spawn failed".into() };
    };
    let stderr = trunc(&String::from_utf8_lossy(&o.stderr), 400);
    let status = o.status.code();
    let parsed: Option<Value> = serde_json::from_slice(&o.stdout).ok();
    let rootp = format!("{}/", root.display());
    let outs = match (status, parsed) {
        (Some(0) | Some(1), Some(Value::Object(m))) => {
            let mut v = vec![];
            for (k, vs) in m {
                let n = vs.as_array().map(|a| a.len()).unwrap_or(0);
                let key = if k == rootp.trim_end_matches('/') { (2u8, vec![]) } else { unspell(&rootp, &k) };
                for _ in 0..n {
                    v.push(key.clone());
                }
                if n == 0 {
                    // a linted file without a violation: cannot happen with SQL, keep it visible
                    v.push((9, key.1.clone()));
                }
            }
            v.sort_by_key(sort_key);
            Some(v)
        }
        _ => None,
    };
    Obs { status, outs, stderr }
}

fn run_pipe(env: &Env, idx: usize, c: &TreeCase, out: &mut Buf) {
    let root = env.scratch.join(format!("t{}", idx));
    let _ = std::fs::remove_dir_all(&root);
    let input = json!({"kind":"pipe","tree":c.tree,"exts":c.exts_cfg,"lines":c.lines,"args":c.args,"cls":c.cls});
    if let Err(e) = materialise(&root, c) {
        out.count("materialise_failed", 1);
        let _ = std::fs::remove_dir_all(&root);
        eprintln!("materialise: {e}");
        return;
    }
    let root = root.canonicalize().unwrap_or(root);
    let spelled: Vec<String> = c.args.iter().map(|a| spell(&root, a)).collect();
    let exts = cfg_exts(&c.exts_cfg);
    let lint = run_lint(env, &root, &spelled);

    // fix mode on the same (still unmodified) tree: which files are rewritten?
    let fix = Command::new(&env.sqruff)
        .current_dir(&root)
        .env("RUST_BACKTRACE", "0")
        .env("NO_COLOR", "1")
        .arg("fix")
        .arg("--force")
        .args(&spelled)
        .stdin(Stdio::null())
        .output();
    let fix_status = fix.as_ref().ok().and_then(|o| o.status.code());
    let mut written: Vec<Vec<String>> = vec![];
    let mut changed_content: Vec<Vec<String>> = vec![];
    for (p, d) in &c.tree {
        if !*d {
            let f = root.join(p.join("/"));
            let m = std::fs::metadata(&f).and_then(|m| m.modified()).ok();
            if m != Some(old_time()) {
                written.push(p.clone());
            }
            if std::fs::read_to_string(&f).map(|s| s != SQL).unwrap_or(true) {
                changed_content.push(p.clone());
            }
        }
    }
    written.sort_by_key(|p| p.join("/").into_bytes());
    let _ = std::fs::remove_dir_all(&root);

    // ---------------- direct judgement against the property text (reference: the ignore crate)
    let eff_args: Vec<(u8, Vec<String>)> = if c.args.is_empty() { vec![(2, vec![])] } else { c.args.clone() };
    let gi = c.lines.as_ref().map(|l| build_gi(l));
    let gi = match gi {
        Some(Err(_)) => {
            out.count("pipe_pattern_rejected_by_crate", 1);
            return;
        }
        Some(Ok(g)) => Some(g),
        None => None,
    };
    let is_dir = |p: &Vec<String>| p.is_empty() || c.tree.iter().any(|(q, d)| q == p && *d);
    let has_ext = |name: &str| exts.iter().any(|e| name.to_lowercase().ends_with(e.to_lowercase().as_str()));
    let mut expected: BTreeSet<Vec<String>> = BTreeSet::new();
    for (_, a) in &eff_args {
        if is_dir(a) {
            for (p, d) in &c.tree {
                if !*d && p.len() > a.len() && p[..a.len()] == a[..] && has_ext(p.last().unwrap()) {
                    expected.insert(p.clone());
                }
            }
        } else {
            expected.insert(a.clone());
        }
    }
    let ignored = |p: &Vec<String>| gi.as_ref().map(|g| ref_ignored(g, p, false)).unwrap_or(false);
    let n_ignored = expected.iter().filter(|p| ignored(p)).count();
    let n_ignored_parent = expected.iter().filter(|p| ignored(p) && !gi.as_ref().unwrap().matched(Path::new(&p.join("/")), false).is_ignore()).count();
    let expected: BTreeSet<Vec<String>> = expected.into_iter().filter(|p| !ignored(p)).collect();
    out.count("pipe_runs", 1);
    out.count("pipe_candidate_files_ignored", n_ignored);
    out.count("pipe_candidate_files_ignored_through_parent_dir", n_ignored_parent);
    out.count("pipe_expected_files", expected.len());
    let has_dup_args = {
        let mut s = BTreeSet::new();
        eff_args.iter().any(|(_, a)| !s.insert(a.clone())) || (eff_args.len() > 1 && eff_args.iter().any(|(_, a)| is_dir(a)))
    };
    if has_dup_args {
        out.count("pipe_runs_with_duplicate_or_overlapping_args", 1);
    }
    if c.tree.iter().any(|(p, d)| *d && has_ext(p.last().unwrap())) {
        out.count("pipe_runs_with_directory_named_like_sql", 1);
    }
    match &lint.outs {
        None => {
            out.direct(c.cls, false, "c19-lint-crash", &format!("sqruff lint did not produce a report (status {:?}): {}", lint.status, lint.stderr), input.clone());
        }
        Some(outs) => {
            let observed: BTreeSet<Vec<String>> = outs.iter().map(|o| o.1.clone()).collect();
            let extra: Vec<_> = observed.difference(&expected).cloned().collect();
            let missing: Vec<_> = expected.difference(&observed).cloned().collect();
            let dup = outs.len() != observed.len();
            let wset: BTreeSet<Vec<String>> = written.iter().cloned().collect();
            if let Some(p) = extra.first() {
                let key = if ignored(p) { "c19-ignored-file-linted" } else { "c19-unexpected-file-linted" };
                out.direct(c.cls, false, key, &format!("linted but not in the specified set: {}", p.join("/")), input.clone());
            } else if let Some(p) = missing.first() {
                out.direct(c.cls, false, "c19-file-not-linted", &format!("in the specified set but not linted: {}", p.join("/")), input.clone());
            } else if dup {
                out.direct(c.cls, false, "c19-file-processed-twice", "a file is reported more than once", input.clone());
            } else if fix_status != Some(0) && fix_status != Some(1) {
                out.direct(c.cls, false, "c19-fix-crash", &format!("sqruff fix exited with {:?}", fix_status), input.clone());
            } else if wset != expected {
                let w: Vec<_> = wset.symmetric_difference(&expected).map(|p| p.join("/")).collect();
                let key = if wset.difference(&expected).any(|p| ignored(p)) { "c19-ignored-file-written" } else { "c19-written-set-differs" };
                out.direct(c.cls, false, key, &format!("files written by fix differ from the specified set: {:?}", w), input.clone());
            } else if changed_content.iter().cloned().collect::<BTreeSet<_>>() != expected {
                out.direct(c.cls, false, "c19-fixed-content-set-differs", "files whose content changed differ from the specified set", input.clone());
            } else {
                out.direct(c.cls, true, "", "", Value::Null);
            }
        }
    }

    // ---------------- correspondence case for the Gallina pipeline
    let args = g_tuple(&[
        g_list(c.tree.iter().map(|(p, d)| format!("{{| e_path := {}; e_dir := {} |}}", g_path(p), g_bool(*d)))),
        g_list(exts.iter().map(|e| g_str(e))),
        g_list(c.lines.clone().unwrap_or_default().iter().map(|l| g_str(l))),
        g_list(c.args.iter().map(|a| format!("{{| a_pfx := {}; a_path := {} |}}", g_pfx(a.0), g_path(&a.1)))),
    ]);
    let exp = match &lint.outs {
        Some(outs) if fix_status == Some(0) || fix_status == Some(1) => format!(
            "(Some ({},{}))",
            g_list(outs.iter().map(g_out)),
            g_list(written.iter().map(|p| g_path(p)))
        ),
        _ => "None".to_string(),
    };
    let nontrivial = n_ignored > 0 || has_dup_args;
    let sample = json!({"input":input,"argv":spelled,"lint_status":lint.status,"fix_status":fix_status,
        "linted":lint.outs.as_ref().map(|v| v.iter().map(|o| format!("{}:{}", g_pfx(o.0), o.1.join("/"))).collect::<Vec<_>>()),
        "written":written.iter().map(|p| p.join("/")).collect::<Vec<_>>()});
    out.case("pipe", c.cls, nontrivial, args, exp, sample);
}

// ------------------------------------------------------------------ (lib) the library entry point
/// The public routes by which a caller's extension list reaches the configuration the linter works with.
const ROUTES: &[&str] = &["config-text", "config-map", "builder", "builder-over-configured-list", "config-mut"];
const EXT_BASES: &[&str] = &[".sql", ".hql", ".ddl", ".txt", ".sql.j2", ".j2", "sql", ".dml", "README", ".h.sql"];

#[derive(Clone)]
struct LibCase {
    base: TreeCase, // tree, ignore lines, arguments (all spelled absolute: the harness cannot change directory per thread)
    route: usize,
    exts: Vec<String>, // the list exactly as the caller supplies it
}

/// An extension list in arbitrary letter case: lower, upper, or mixed per letter; possibly with
/// entries that only differ in case.
fn gen_exts(rng: &mut Rng) -> Vec<String> {
    let n = match rng.below(8) {
        0 => 0,
        1..=4 => 1,
        5 | 6 => 2,
        _ => 3,
    };
    let mut v: Vec<String> = vec![];
    for _ in 0..n {
        if !v.is_empty() && rng.chance(1, 6) {
            // the same extension again in another case
            let e = v[rng.below(v.len())].clone();
            v.push(if e.chars().any(|c| c.is_ascii_uppercase()) { e.to_ascii_lowercase() } else { e.to_ascii_uppercase() });
            continue;
        }
        let b = EXT_BASES[rng.below(EXT_BASES.len())];
        let e: String = match rng.below(4) {
            0 => b.to_string(),
            1 | 2 => b.to_ascii_uppercase(),
            _ => b.chars().map(|c| if rng.chance(1, 2) { c.to_ascii_uppercase() } else { c }).collect(),
        };
        v.push(e);
    }
    v
}

fn gen_lib_case(rng: &mut Rng) -> LibCase {
    let mut base = gen_case(rng);
    for a in base.args.iter_mut() {
        a.0 = 2;
    }
    let route = rng.below(ROUTES.len());
    let mut exts = gen_exts(rng);
    if route == 0 && exts.is_empty() {
        // a config text cannot express the empty list
        exts = vec![".SQL".to_string()];
    }
    LibCase { base, route, exts }
}

fn lib_config(route: usize, exts: &[String]) -> FluffConfig {
    let plain = "[sqruff]\ndialect = ansi\nrules = CP01\n";
    match route {
        0 => FluffConfig::from_source(&format!("{}sql_file_exts = {}\n", plain, exts.join(",")), None),
        1 => {
            let mut core: ahash::AHashMap<String, CfgValue> = Default::default();
            core.insert("dialect".into(), CfgValue::String("ansi".into()));
            core.insert("rules".into(), CfgValue::String("CP01".into()));
            core.insert("sql_file_exts".into(), CfgValue::Array(exts.iter().map(|e| CfgValue::String(e.as_str().into())).collect()));
            let mut m: ahash::AHashMap<String, CfgValue> = Default::default();
            m.insert("core".into(), CfgValue::Map(core));
            FluffConfig::new(m, None, None)
        }
        3 => FluffConfig::from_source(&format!("{}sql_file_exts = .txt,.HQL\n", plain), None).with_sql_file_exts(exts.to_vec()),
        _ => FluffConfig::from_source(plain, None).with_sql_file_exts(exts.to_vec()),
    }
}

/// The files in a `LintingResult`, one entry per `LintedFile` (multiset, sorted).
fn lib_outs(root: &str, r: &sqruff_lib::core::linter::linting_result::LintingResult) -> Vec<(u8, Vec<String>)> {
    let mut v = vec![];
    for d in &r.paths {
        for f in d.files.iter() {
            v.push(if f.path == root.trim_end_matches('/') { (2u8, vec![]) } else { unspell(root, &f.path) });
        }
    }
    v.sort_by_key(sort_key);
    v
}

fn run_lib(env: &Env, idx: usize, lc: &LibCase, out: &mut Buf) {
    let c = &lc.base;
    let root = env.scratch.join(format!("l{}", idx));
    let _ = std::fs::remove_dir_all(&root);
    let input = json!({"kind":"lib","tree":c.tree,"route":ROUTES[lc.route],"exts":lc.exts,"lines":c.lines,"args":c.args,"cls":c.cls});
    // only the tree: the library reads neither .sqruff nor .sqruffignore (configuration and ignorer are arguments)
    let bare = TreeCase { lines: None, ..c.clone() };
    let made = materialise(&root, &bare).and_then(|_| std::fs::remove_file(root.join(".sqruff")));
    if let Err(e) = made {
        out.count("materialise_failed", 1);
        let _ = std::fs::remove_dir_all(&root);
        eprintln!("materialise: {e}");
        return;
    }
    let root = root.canonicalize().unwrap_or(root);
    let rootp = format!("{}/", root.display());
    let gi = match c.lines.as_ref().map(|l| build_gi(l)) {
        Some(Err(_)) => {
            out.count("lib_pattern_rejected_by_crate", 1);
            let _ = std::fs::remove_dir_all(&root);
            return;
        }
        Some(Ok(g)) => Some(g),
        None => None,
    };
    // the caller's ignorer: gitignore semantics relative to the root, the `ignore` crate deciding each level
    let ignored = |p: &Vec<String>| gi.as_ref().map(|g| ref_ignored(g, p, false)).unwrap_or(false);
    let asked = std::sync::Mutex::new(Vec::<String>::new());
    let ignorer = |p: &Path| -> bool {
        let s = p.to_string_lossy().to_string();
        asked.lock().unwrap().push(s.clone());
        let comps = unspell(&rootp, &s).1;
        !comps.is_empty() && ignored(&comps)
    };
    let eff_args: Vec<(u8, Vec<String>)> = if c.args.is_empty() { vec![(2, vec![])] } else { c.args.clone() };
    let paths: Vec<PathBuf> = eff_args.iter().map(|a| PathBuf::from(spell(&root, a))).collect();
    let route = lc.route;
    let exts_in = lc.exts.clone();
    let r = catch(|| {
        let mut linter = if route == 4 {
            // the list is set on an existing linter
            let mut l = Linter::new(FluffConfig::from_source("[sqruff]\ndialect = ansi\nrules = CP01\n", None), None, None, false);
            let c2 = l.config().clone().with_sql_file_exts(exts_in.clone());
            *l.config_mut() = c2;
            l
        } else {
            Linter::new(lib_config(route, &exts_in), None, None, false)
        };
        let stored = linter.config().sql_file_exts().to_vec();
        let lint = lib_outs(&rootp, &linter.lint_paths(paths.clone(), false, &ignorer));
        // history: the same linter again, in fix mode (the library writes nothing itself)
        let fix = lib_outs(&rootp, &linter.lint_paths(paths.clone(), true, &ignorer));
        (stored, lint, fix)
    });
    let untouched = c.tree.iter().filter(|(_, d)| !*d).all(|(p, _)| std::fs::read_to_string(root.join(p.join("/"))).map(|s| s == SQL).unwrap_or(false));
    let _ = std::fs::remove_dir_all(&root);

    // ---------------- direct judgement against the property text
    let is_dir = |p: &Vec<String>| p.is_empty() || c.tree.iter().any(|(q, d)| q == p && *d);
    let has_ext = |name: &str| lc.exts.iter().any(|e| name.to_lowercase().ends_with(e.to_lowercase().as_str()));
    let mut expected: BTreeSet<Vec<String>> = BTreeSet::new();
    for (_, a) in &eff_args {
        if is_dir(a) {
            for (p, d) in &c.tree {
                if !*d && p.len() > a.len() && p[..a.len()] == a[..] && has_ext(p.last().unwrap()) {
                    expected.insert(p.clone());
                }
            }
        } else {
            expected.insert(a.clone());
        }
    }
    let n_ignored = expected.iter().filter(|p| ignored(p)).count();
    let expected: BTreeSet<Vec<String>> = expected.into_iter().filter(|p| !ignored(p)).collect();
    let upper = lc.exts.iter().any(|e| e.chars().any(|ch| ch.is_ascii_uppercase()));
    out.count("lib_runs", 1);
    out.count(&format!("lib_runs_route_{}", ROUTES[lc.route]), 1);
    if upper {
        out.count("lib_runs_with_upper_case_in_the_extension_list", 1);
    }
    out.count("lib_candidate_files_ignored", n_ignored);
    out.count("lib_expected_files", expected.len());
    let has_dup_args = {
        let mut s = BTreeSet::new();
        eff_args.iter().any(|(_, a)| !s.insert(a.clone())) || (eff_args.len() > 1 && eff_args.iter().any(|(_, a)| is_dir(a)))
    };
    let cls = format!("lib:{}:{}", ROUTES[lc.route], c.cls);
    match &r {
        Err(e) => out.direct(&cls, false, "c19-lib-lint-paths-panicked", &format!("Linter::lint_paths panicked: {}", trunc(e, 300)), input.clone()),
        Ok((_, lint, fix)) => {
            let judge = |outs: &Vec<(u8, Vec<String>)>, mode: &str| -> Option<(&'static str, String)> {
                let observed: BTreeSet<Vec<String>> = outs.iter().map(|o| o.1.clone()).collect();
                if let Some(p) = observed.difference(&expected).next() {
                    let key = if ignored(p) { "c19-lib-ignored-file-linted" } else { "c19-lib-unexpected-file-linted" };
                    return Some((key, format!("{mode}: processed but not in the specified set: {}", p.join("/"))));
                }
                if let Some(p) = expected.difference(&observed).next() {
                    return Some(("c19-lib-file-not-linted", format!("{mode}: in the specified set (extension list {:?} via {}) but not processed: {}", lc.exts, ROUTES[lc.route], p.join("/"))));
                }
                if outs.len() != observed.len() {
                    return Some(("c19-lib-file-processed-twice", format!("{mode}: a file is in the result more than once")));
                }
                None
            };
            let mut asked_v = asked.lock().unwrap().clone();
            asked_v.sort();
            let n_asked = asked_v.len();
            asked_v.dedup();
            if let Some((key, msg)) = judge(lint, "lint").or_else(|| judge(fix, "fix")) {
                out.direct(&cls, false, key, &msg, input.clone());
            } else if !untouched {
                out.direct(&cls, false, "c19-lib-file-written", "Linter::lint_paths changed a file of the tree", input.clone());
            } else if asked_v.len() != n_asked / 2 || n_asked % 2 != 0 {
                out.direct(&cls, false, "c19-lib-ignorer-asked-twice", "the ignorer was asked about the same file more than once in one call", input.clone());
            } else {
                out.direct(&cls, true, "", "", Value::Null);
            }
        }
    }

    // ---------------- correspondence case for the Gallina pipeline (extension list as supplied by the caller)
    let args = g_tuple(&[
        g_list(c.tree.iter().map(|(p, d)| format!("{{| e_path := {}; e_dir := {} |}}", g_path(p), g_bool(*d)))),
        g_list(lc.exts.iter().map(|e| g_str(e))),
        g_list(c.lines.clone().unwrap_or_default().iter().map(|l| g_str(l))),
        g_list(eff_args.iter().map(|a| format!("{{| a_pfx := {}; a_path := {} |}}", g_pfx(a.0), g_path(&a.1)))),
    ]);
    let exp = match &r {
        Ok((_, lint, fix)) => format!("(Some ({},{}))", g_list(lint.iter().map(g_out)), g_list(fix.iter().map(g_out))),
        Err(_) => "None".to_string(),
    };
    let show = |v: &Vec<(u8, Vec<String>)>| v.iter().map(|o| o.1.join("/")).collect::<Vec<_>>();
    let sample = json!({"input":input,"paths":paths.iter().map(|p| p.display().to_string()).collect::<Vec<_>>(),
        "stored_sql_file_exts":r.as_ref().ok().map(|x| x.0.clone()),
        "linted":r.as_ref().ok().map(|x| show(&x.1)),"processed_in_fix_mode":r.as_ref().ok().map(|x| show(&x.2))});
    out.case("lib", &cls, n_ignored > 0 || has_dup_args || upper, args, exp, sample);
}

fn parse_lib_case(v: &Value) -> LibCase {
    let mut base = parse_tree_case(v);
    for a in base.args.iter_mut() {
        a.0 = 2;
    }
    LibCase {
        base,
        route: ROUTES.iter().position(|r| Some(*r) == v["route"].as_str()).unwrap_or(2),
        exts: v["exts"].as_array().map(|a| a.iter().map(|s| s.as_str().unwrap_or("").to_string()).collect()).unwrap_or_default(),
    }
}

fn parse_tree_case(v: &Value) -> TreeCase {
    let strs = |x: &Value| -> Vec<String> { x.as_array().map(|a| a.iter().map(|s| s.as_str().unwrap_or("").to_string()).collect()).unwrap_or_default() };
    TreeCase {
        tree: v["tree"].as_array().map(|a| a.iter().map(|e| (strs(&e[0]), e[1].as_bool().unwrap_or(false))).collect()).unwrap_or_default(),
        exts_cfg: v["exts"].as_str().unwrap_or("").to_string(),
        lines: if v["lines"].is_null() { None } else { Some(strs(&v["lines"])) },
        args: v["args"].as_array().map(|a| a.iter().map(|e| (e[0].as_u64().unwrap_or(0) as u8, strs(&e[1]))).collect()).unwrap_or_default(),
        cls: "replay",
    }
}

// ------------------------------------------------------------------ (nav) written arguments, nested working directory
/// A path argument as the user writes it: components may be "." and "..".
#[derive(Clone)]
struct RawArg {
    abs: bool,          // below the root of the scratch tree, spelled absolutely
    comps: Vec<String>, // relative to the working directory (or to the root of the tree when `abs`)
    slash: bool,        // trailing "/"
}

#[derive(Clone)]
struct NavCase {
    tree: Vec<(Vec<String>, bool)>,
    exts_cfg: String,
    lines: Option<Vec<String>>, // the .sqruffignore in the working directory
    cwd: Vec<String>,           // a directory of the tree
    args: Vec<RawArg>,
    cls: &'static str,
}

fn lex_step(loc: &mut Vec<String>, c: &str) {
    match c {
        "." | "" => {}
        ".." => {
            loc.pop();
        }
        n => loc.push(n.to_string()),
    }
}
/// The harness's own reading of a written path (no symbolic links): location relative to the root of the tree.
fn lex_resolve(cwd: &[String], abs: bool, comps: &[String]) -> Vec<String> {
    let mut loc: Vec<String> = if abs { vec![] } else { cwd.to_vec() };
    for c in comps {
        lex_step(&mut loc, c);
    }
    loc
}

fn spell_raw(root: &Path, a: &RawArg) -> String {
    let j = a.comps.join("/");
    let mut s = if a.abs {
        if j.is_empty() { root.display().to_string() } else { format!("{}/{}", root.display(), j) }
    } else if j.is_empty() {
        ".".to_string()
    } else {
        j
    };
    if a.slash {
        s.push('/');
    }
    s
}

/// (absolute?, components as written) of a path string; absolute paths keep all their components.
fn parse_written(s: &str) -> (bool, Vec<String>) {
    (s.starts_with('/'), s.split('/').filter(|c| !c.is_empty()).map(|c| c.to_string()).collect())
}

fn g_comp(c: &str) -> String {
    match c {
        "." => "CCur".to_string(),
        ".." => "CPar".to_string(),
        n => format!("CName {}", g_str(n)),
    }
}
fn g_rpath(abs: bool, comps: &[String]) -> String {
    format!("{{| r_abs := {}; r_comps := {} |}}", g_bool(abs), g_list(comps.iter().map(|c| g_comp(c))))
}

fn child_dirs(tree: &[(Vec<String>, bool)], loc: &[String]) -> Vec<String> {
    tree.iter().filter(|(p, d)| *d && p.len() == loc.len() + 1 && p[..loc.len()] == loc[..]).map(|(p, _)| p.last().unwrap().clone()).collect()
}

/// Write the target `loc` (relative to the root of the tree) as an argument from the working directory `w`.
/// style 0: shortest relative path; 1: up to the root of the tree, then down; 2: absolute.
/// `detours`: 0 none; 1 only those that keep the normal form below `w` ("x/..", ".", "../<same>" strictly below `w`); 2 any.
fn write_target(rng: &mut Rng, tree: &[(Vec<String>, bool)], w: &[String], loc: &[String], is_dir: bool, style: u8, detours: u8) -> RawArg {
    let abs = style == 2;
    let base: Vec<String> = match style {
        0 => {
            let common = w.iter().zip(loc.iter()).take_while(|(a, b)| a == b).count();
            let mut v: Vec<String> = (0..w.len() - common).map(|_| "..".to_string()).collect();
            v.extend_from_slice(&loc[common..]);
            v
        }
        1 => {
            let mut v: Vec<String> = (0..w.len()).map(|_| "..".to_string()).collect();
            v.extend_from_slice(loc);
            v
        }
        _ => loc.to_vec(),
    };
    let mut cur: Vec<String> = if abs { vec![] } else { w.to_vec() };
    let mut comps: Vec<String> = vec![];
    let detour = |rng: &mut Rng, cur: &Vec<String>, comps: &mut Vec<String>| {
        if detours == 0 || !rng.chance(1, 4) {
            return;
        }
        match rng.below(3) {
            0 => comps.push(".".to_string()),
            1 => {
                let ch = child_dirs(tree, cur);
                if !ch.is_empty() {
                    comps.push(ch[rng.below(ch.len())].clone());
                    comps.push("..".to_string());
                }
            }
            _ => {
                let below_w = cur.len() > w.len() && cur[..w.len()] == w[..];
                if !cur.is_empty() && (detours == 2 || abs || below_w) {
                    comps.push("..".to_string());
                    comps.push(cur.last().unwrap().clone());
                }
            }
        }
    };
    for c in &base {
        detour(rng, &cur, &mut comps);
        comps.push(c.clone());
        lex_step(&mut cur, c);
    }
    if is_dir {
        detour(rng, &cur, &mut comps);
    }
    if !abs && (comps.is_empty() || rng.chance(1, 5)) {
        comps.insert(0, ".".to_string());
    }
    let slash = is_dir && !comps.is_empty() && comps.last().map(|c| c != "." && c != "..").unwrap_or(false) && rng.chance(1, 6);
    RawArg { abs, comps, slash }
}

fn gen_nav_case(rng: &mut Rng) -> NavCase {
    let mut tree = gen_tree(rng);
    let has = |tree: &Vec<(Vec<String>, bool)>, p: &Vec<String>| tree.iter().any(|(q, _)| q == p);
    // the working directory: a directory of the tree at depth 1..3 (created when there is none)
    let depth = match rng.below(9) {
        0 | 1 => 1,
        2..=5 => 2,
        _ => 3,
    };
    let cands: Vec<Vec<String>> = tree.iter().filter(|(p, d)| *d && p.len() == depth).map(|(p, _)| p.clone()).collect();
    let cwd: Vec<String> = if !cands.is_empty() && rng.chance(2, 3) {
        cands[rng.below(cands.len())].clone()
    } else {
        let shallower: Vec<Vec<String>> = std::iter::once(vec![]).chain(tree.iter().filter(|(p, d)| *d && p.len() < depth).map(|(p, _)| p.clone())).collect();
        let mut d = shallower[rng.below(shallower.len())].clone();
        while d.len() < depth {
            d.push(DIRS[rng.below(DIRS.len())].to_string());
            if tree.iter().any(|(q, isd)| q == &d && !*isd) {
                d.pop(); // a file of that name: another name
                continue;
            }
            if !has(&tree, &d) {
                tree.push((d.clone(), true));
            }
        }
        d
    };
    // something to find in and below the working directory
    for _ in 0..rng.range(0, 2) {
        let below: Vec<Vec<String>> = std::iter::once(cwd.clone()).chain(tree.iter().filter(|(p, d)| *d && p.len() > cwd.len() && p[..cwd.len()] == cwd[..]).map(|(p, _)| p.clone())).collect();
        let mut f = below[rng.below(below.len())].clone();
        f.push(FILES[rng.below(FILES.len())].to_string());
        if !has(&tree, &f) {
            tree.push((f, false));
        }
    }
    // the same layout again below the working directory (a project nested in a project): namesakes
    let mut namesakes: Option<Vec<String>> = None;
    if rng.chance(1, 3) {
        let tops: Vec<String> = tree.iter().filter(|(p, _)| p.len() == 1 && p[0] != cwd[0]).map(|(p, _)| p[0].clone()).collect();
        if !tops.is_empty() {
            let x = tops[rng.below(tops.len())].clone();
            let mut at = cwd.clone();
            at.push(x.clone());
            if !has(&tree, &at) {
                let copies: Vec<(Vec<String>, bool)> = tree.iter().filter(|(p, _)| p[0] == x).map(|(p, d)| (cwd.iter().cloned().chain(p.iter().cloned()).collect(), *d)).collect();
                if copies.iter().any(|(_, d)| !*d) {
                    namesakes = Some(vec![x.clone()]);
                }
                tree.extend(copies);
            }
        }
    }
    let exts_cfg = EXTS[rng.below(EXTS.len())].to_string();
    let below_only = rng.chance(2, 5);
    let (lines, cls): (Option<Vec<String>>, &'static str) = if !below_only {
        (None, "nav-above-cwd")
    } else {
        match rng.below(5) {
            0 => (None, "nav-below-cwd"),
            1 => (Some(vec!["*.hql".to_string(), String::new(), "# ignore ALL files in ANY directory named temp".to_string(), "temp/".to_string()]), "nav-below-cwd-ignore-file"),
            2 => {
                let ds: Vec<&Vec<String>> = tree.iter().filter(|(p, d)| *d && p.len() > cwd.len() && p[..cwd.len()] == cwd[..]).map(|(p, _)| p).collect();
                let l = if ds.is_empty() { "temp/".to_string() } else { format!("{}/", ds[rng.below(ds.len())].last().unwrap()) };
                (Some(vec![l]), "nav-below-cwd-ignore-file")
            }
            _ => (Some(gen_lines(rng)), "nav-below-cwd-ignore-file"),
        }
    };
    // targets
    let pool: Vec<(Vec<String>, bool)> = if below_only {
        std::iter::once((cwd.clone(), true)).chain(tree.iter().filter(|(p, _)| p.len() > cwd.len() && p[..cwd.len()] == cwd[..]).cloned()).collect()
    } else {
        std::iter::once((vec![], true)).chain(std::iter::once((cwd.clone(), true))).chain(tree.iter().cloned()).collect()
    };
    let mut args: Vec<RawArg> = vec![];
    let mut targets: Vec<(Vec<String>, bool)> = vec![];
    if !rng.chance(1, 12) {
        for _ in 0..rng.range(1, 3) {
            let (loc, is_dir) = if !targets.is_empty() && rng.chance(1, 4) {
                targets[rng.below(targets.len())].clone()
            } else if let (Some(x), false, true) = (&namesakes, below_only, rng.chance(1, 2)) {
                // the directory outside the working directory that has a namesake inside it
                (x.clone(), tree.iter().any(|(p, d)| p == x && *d))
            } else {
                pool[rng.below(pool.len())].clone()
            };
            let style = if below_only { [0u8, 0, 2][rng.below(3)] } else { [0u8, 0, 1, 1, 2][rng.below(5)] };
            // the ignorer of the command line resolves the name it is given (fix ed40389; before it read the name as written,
            // and with an ignore file explicit files had to be written plainly): every spelling is generated
            let detours = 2;
            args.push(write_target(rng, &tree, &cwd, &loc, is_dir, style, detours));
            targets.push((loc, is_dir));
        }
    }
    NavCase { tree, exts_cfg, lines, cwd, args, cls }
}

fn materialise_nav(root: &Path, c: &NavCase, with_config_files: bool) -> std::io::Result<()> {
    let bare = TreeCase { tree: c.tree.clone(), exts_cfg: c.exts_cfg.clone(), lines: None, args: vec![], cls: c.cls };
    materialise(root, &bare)?;
    std::fs::remove_file(root.join(".sqruff"))?;
    let wd = root.join(c.cwd.join("/"));
    std::fs::create_dir_all(&wd)?;
    if with_config_files {
        let mut cfg = String::from("[sqruff]\ndialect = ansi\nrules = CP01\n");
        if !c.exts_cfg.is_empty() {
            cfg.push_str(&format!("sql_file_exts = {}\n", c.exts_cfg));
        }
        std::fs::write(wd.join(".sqruff"), cfg)?;
        if let Some(ls) = &c.lines {
            std::fs::write(wd.join(".sqruffignore"), ls.join("\n") + "\n")?;
        }
    }
    Ok(())
}

/// `sqruff lint -f json <args>` in `dir`: (exit status, [(key, number of diagnostics)], stderr)
fn run_lint_keys(env: &Env, dir: &Path, args: &[String]) -> (Option<i32>, Option<Vec<(String, usize)>>, String) {
    let o = Command::new(&env.sqruff).current_dir(dir).env("RUST_BACKTRACE", "0").env("NO_COLOR", "1").arg("lint").arg("-f").arg("json").args(args).stdin(Stdio::null()).output();
    let Ok(o) = o else {
        return (None, None, "spawn failed".into());
    };
    let stderr = trunc(&String::from_utf8_lossy(&o.stderr), 400);
    let status = o.status.code();
    let parsed: Option<Value> = serde_json::from_slice(&o.stdout).ok();
    let keys = match (status, parsed) {
        (Some(0) | Some(1), Some(Value::Object(m))) => Some(m.into_iter().map(|(k, vs)| (k, vs.as_array().map(|a| a.len()).unwrap_or(0))).collect()),
        _ => None,
    };
    (status, keys, stderr)
}

/// A reported name and the location it denotes for the operating system (components from the filesystem root).
type NavOut = (bool, Vec<String>, Vec<String>);

struct NavFrame {
    rootc: Vec<String>,                  // components of the canonical root of the tree
    expected: BTreeSet<Vec<String>>,     // the specified set (relative to the root of the tree)
    ignored_cands: BTreeSet<Vec<String>>,
    n_dotdot: usize,
    max_climb: usize,
    os_agrees: bool,
    has_dup_args: bool,
}

/// Where a name written relative to `wd` leads for the operating system.
fn os_location(wd: &Path, name: &str) -> Option<Vec<String>> {
    let p = if name.starts_with('/') { PathBuf::from(name) } else { wd.join(name) };
    p.canonicalize().ok().map(|c| parse_written(&c.display().to_string()).1)
}

fn nav_frame(root: &Path, c: &NavCase, exts: &[String], gi: Option<&Gitignore>) -> NavFrame {
    let rootc = parse_written(&root.display().to_string()).1;
    let wd = root.join(c.cwd.join("/"));
    let is_dir = |p: &Vec<String>| p.is_empty() || c.tree.iter().any(|(q, d)| q == p && *d);
    let has_ext = |name: &str| exts.iter().any(|e| name.to_lowercase().ends_with(e.to_lowercase().as_str()));
    let targets: Vec<Vec<String>> = if c.args.is_empty() { vec![c.cwd.clone()] } else { c.args.iter().map(|a| lex_resolve(&c.cwd, a.abs, &a.comps)).collect() };
    let mut os_agrees = true;
    for (a, t) in c.args.iter().zip(targets.iter()) {
        let want: Vec<String> = rootc.iter().cloned().chain(t.iter().cloned()).collect();
        if os_location(&wd, &spell_raw(root, a)) != Some(want) {
            os_agrees = false;
        }
    }
    let mut cands: BTreeSet<Vec<String>> = BTreeSet::new();
    for a in &targets {
        if is_dir(a) {
            for (p, d) in &c.tree {
                if !*d && p.len() > a.len() && p[..a.len()] == a[..] && has_ext(p.last().unwrap()) {
                    cands.insert(p.clone());
                }
            }
        } else {
            cands.insert(a.clone());
        }
    }
    // the ignore file lies in the working directory; it says nothing about files outside it
    let ignored = |p: &Vec<String>| p.len() > c.cwd.len() && p[..c.cwd.len()] == c.cwd[..] && gi.map(|g| ref_ignored(g, &p[c.cwd.len()..], false)).unwrap_or(false);
    let ignored_cands: BTreeSet<Vec<String>> = cands.iter().filter(|p| ignored(p)).cloned().collect();
    let expected: BTreeSet<Vec<String>> = cands.into_iter().filter(|p| !ignored(p)).collect();
    let climbs: Vec<usize> = c.args.iter().filter(|a| !a.abs).map(|a| a.comps.iter().take_while(|x| *x == ".." || *x == ".").filter(|x| *x == "..").count()).collect();
    let has_dup_args = {
        let mut s = BTreeSet::new();
        targets.iter().any(|a| !s.insert(a.clone())) || (targets.len() > 1 && targets.iter().any(|a| is_dir(a)))
    };
    NavFrame { rootc, expected, ignored_cands, n_dotdot: c.args.iter().filter(|a| a.comps.iter().any(|x| x == "..")).count(), max_climb: climbs.into_iter().max().unwrap_or(0), os_agrees, has_dup_args }
}

fn nav_observed(root: &Path, c: &NavCase, names: &[String]) -> (Vec<NavOut>, usize) {
    let wd = root.join(c.cwd.join("/"));
    let rootc = parse_written(&root.display().to_string()).1;
    let mut dangling = 0usize;
    let mut v: Vec<NavOut> = names
        .iter()
        .map(|k| {
            let (abs, comps) = parse_written(k);
            let loc = os_location(&wd, k).unwrap_or_else(|| {
                dangling += 1;
                if abs { comps.clone() } else { rootc.iter().cloned().chain(lex_resolve(&c.cwd, false, &comps)).collect() }
            });
            (abs, comps, loc)
        })
        .collect();
    v.sort_by_key(|o| (o.2.join("/").into_bytes(), o.1.join("/").into_bytes()));
    (v, dangling)
}

fn nav_judge(fr: &NavFrame, outs: &[NavOut], pre: &str, mode: &str) -> Option<(String, String)> {
    let rel = |loc: &Vec<String>| -> Vec<String> {
        if loc.len() >= fr.rootc.len() && loc[..fr.rootc.len()] == fr.rootc[..] { loc[fr.rootc.len()..].to_vec() } else { std::iter::once("<outside the tree>".to_string()).chain(loc.iter().cloned()).collect() }
    };
    let observed: BTreeSet<Vec<String>> = outs.iter().map(|o| rel(&o.2)).collect();
    if let Some(p) = observed.difference(&fr.expected).next() {
        let key = if fr.ignored_cands.contains(p) { format!("{pre}-ignored-file-linted") } else { format!("{pre}-unexpected-file-linted") };
        let name = outs.iter().find(|o| &rel(&o.2) == p).map(|o| o.1.join("/")).unwrap_or_default();
        return Some((key, format!("{mode}: a file outside the specified set was processed: {} (reported as {})", p.join("/"), name)));
    }
    if let Some(p) = fr.expected.difference(&observed).next() {
        return Some((format!("{pre}-file-not-linted"), format!("{mode}: in the specified set but not processed: {}", p.join("/"))));
    }
    if outs.len() != observed.len() {
        return Some((format!("{pre}-file-processed-twice"), format!("{mode}: a file is processed more than once")));
    }
    None
}

fn nav_input(kind: &str, c: &NavCase) -> Value {
    json!({"kind":kind,"tree":c.tree,"exts":c.exts_cfg,"lines":c.lines,"cwd":c.cwd,"cls":c.cls,
           "args":c.args.iter().map(|a| json!([a.abs, a.comps, a.slash])).collect::<Vec<_>>()})
}

fn nav_gallina_args(fr: &NavFrame, c: &NavCase, exts: &[String]) -> String {
    g_tuple(&[
        g_path(&fr.rootc),
        g_path(&c.cwd),
        g_list(c.tree.iter().map(|(p, d)| format!("{{| e_path := {}; e_dir := {} |}}", g_path(p), g_bool(*d)))),
        g_list(exts.iter().map(|e| g_str(e))),
        g_list(c.lines.clone().unwrap_or_default().iter().map(|l| g_str(l))),
        g_list(c.args.iter().map(|a| {
            let comps: Vec<String> = if a.abs { fr.rootc.iter().cloned().chain(a.comps.iter().cloned()).collect() } else { a.comps.clone() };
            g_rpath(a.abs, &comps)
        })),
    ])
}

fn g_navouts(v: &[NavOut]) -> String {
    g_list(v.iter().map(|o| format!("({},{})", g_rpath(o.0, &o.1), g_path(&o.2))))
}

fn nav_counts(pre: &str, fr: &NavFrame, c: &NavCase, out: &mut Buf) {
    out.count(&format!("{pre}_runs"), 1);
    out.count(&format!("{pre}_expected_files"), fr.expected.len());
    out.count(&format!("{pre}_candidate_files_ignored"), fr.ignored_cands.len());
    out.count(&format!("{pre}_arguments_with_dotdot"), fr.n_dotdot);
    if fr.max_climb >= 1 {
        out.count(&format!("{pre}_runs_with_an_argument_above_the_working_directory"), 1);
    }
    if fr.max_climb >= 2 {
        out.count(&format!("{pre}_runs_climbing_two_or_more_levels"), 1);
    }
    if c.args.iter().any(|a| a.abs && a.comps.iter().any(|x| x == "..")) {
        out.count(&format!("{pre}_runs_with_dotdot_inside_an_absolute_argument"), 1);
    }
    out.count(&format!("{pre}_runs_working_directory_depth_{}", c.cwd.len()), 1);
    out.hyp("a written path denotes what its components say (no symbolic links): lexical resolution = std::fs::canonicalize", "blocking", fr.os_agrees, nav_input("nav", c));
}

fn run_nav(env: &Env, idx: usize, c: &NavCase, out: &mut Buf) {
    let root = env.scratch.join(format!("n{}", idx));
    let _ = std::fs::remove_dir_all(&root);
    let input = nav_input("nav", c);
    if let Err(e) = materialise_nav(&root, c, true) {
        out.count("materialise_failed", 1);
        let _ = std::fs::remove_dir_all(&root);
        eprintln!("materialise: {e}");
        return;
    }
    let root = root.canonicalize().unwrap_or(root);
    let wd = root.join(c.cwd.join("/"));
    let gi = match c.lines.as_ref().map(|l| build_gi(l)) {
        Some(Err(_)) => {
            out.count("nav_pattern_rejected_by_crate", 1);
            let _ = std::fs::remove_dir_all(&root);
            return;
        }
        Some(Ok(g)) => Some(g),
        None => None,
    };
    let exts = cfg_exts(&c.exts_cfg);
    let fr = nav_frame(&root, c, &exts, gi.as_ref());
    let spelled: Vec<String> = c.args.iter().map(|a| spell_raw(&root, a)).collect();
    let (status, keys, stderr) = run_lint_keys(env, &wd, &spelled);
    let lint: Option<(Vec<NavOut>, usize)> = keys.as_ref().map(|ks| {
        let names: Vec<String> = ks.iter().flat_map(|(k, n)| std::iter::repeat(k.clone()).take((*n).max(1))).collect();
        nav_observed(&root, c, &names)
    });
    let fix = Command::new(&env.sqruff).current_dir(&wd).env("RUST_BACKTRACE", "0").env("NO_COLOR", "1").arg("fix").arg("--force").args(&spelled).stdin(Stdio::null()).output();
    let fix_status = fix.as_ref().ok().and_then(|o| o.status.code());
    let mut written: Vec<Vec<String>> = vec![];
    let mut changed_content: BTreeSet<Vec<String>> = BTreeSet::new();
    for (p, d) in &c.tree {
        if !*d {
            let f = root.join(p.join("/"));
            if std::fs::metadata(&f).and_then(|m| m.modified()).ok() != Some(old_time()) {
                written.push(p.clone());
            }
            if std::fs::read_to_string(&f).map(|s| s != SQL).unwrap_or(true) {
                changed_content.insert(p.clone());
            }
        }
    }
    written.sort_by_key(|p| p.join("/").into_bytes());
    let _ = std::fs::remove_dir_all(&root);
    nav_counts("nav", &fr, c, out);

    match &lint {
        None => out.direct(c.cls, false, "c19-nav-lint-crash", &format!("sqruff lint {:?} from {} did not produce a report (status {:?}): {}", spelled, c.cwd.join("/"), status, stderr), input.clone()),
        Some((outs, _)) => {
            let wset: BTreeSet<Vec<String>> = written.iter().cloned().collect();
            if let Some((key, msg)) = nav_judge(&fr, outs, "c19-nav", &format!("sqruff lint {:?} from {}", spelled, c.cwd.join("/"))) {
                out.direct(c.cls, false, &key, &msg, input.clone());
            } else if fix_status != Some(0) && fix_status != Some(1) {
                out.direct(c.cls, false, "c19-nav-fix-crash", &format!("sqruff fix exited with {:?}", fix_status), input.clone());
            } else if wset != fr.expected {
                let w: Vec<_> = wset.symmetric_difference(&fr.expected).map(|p| p.join("/")).collect();
                let key = if wset.difference(&fr.expected).any(|p| fr.ignored_cands.contains(p)) { "c19-nav-ignored-file-written" } else { "c19-nav-written-set-differs" };
                out.direct(c.cls, false, key, &format!("sqruff fix --force {:?} from {}: files written differ from the specified set: {:?}", spelled, c.cwd.join("/"), w), input.clone());
            } else if changed_content != fr.expected {
                out.direct(c.cls, false, "c19-nav-fixed-content-set-differs", "files whose content changed differ from the specified set", input.clone());
            } else {
                out.direct(c.cls, true, "", "", Value::Null);
            }
        }
    }
    let exp = match &lint {
        Some((outs, _)) if fix_status == Some(0) || fix_status == Some(1) => format!(
            "(Some ({},{}))",
            g_navouts(outs),
            g_list(written.iter().map(|p| g_path(&fr.rootc.iter().cloned().chain(p.iter().cloned()).collect::<Vec<_>>())))
        ),
        _ => "None".to_string(),
    };
    let sample = json!({"input":input,"working_directory":c.cwd.join("/"),"argv":spelled,"lint_status":status,"fix_status":fix_status,
        "reported_name_and_location":lint.as_ref().map(|(v, _)| v.iter().map(|o| format!("{}{} -> /{}", if o.0 { "/" } else { "" }, o.1.join("/"), o.2.join("/"))).collect::<Vec<_>>()),
        "written":written.iter().map(|p| p.join("/")).collect::<Vec<_>>()});
    out.case("nav", c.cls, fr.n_dotdot > 0 || !fr.ignored_cands.is_empty() || fr.has_dup_args, nav_gallina_args(&fr, c, &exts), exp, sample);
}

/// The library entry point with the process's working directory inside the tree. Changes the working
/// directory of the whole process: only called from the main thread when no other thread is running.
fn run_navlib(env: &Env, idx: usize, c: &NavCase, out: &mut Buf) {
    let root = env.scratch.join(format!("v{}", idx));
    let _ = std::fs::remove_dir_all(&root);
    let input = nav_input("navlib", c);
    if let Err(e) = materialise_nav(&root, c, false) {
        out.count("materialise_failed", 1);
        let _ = std::fs::remove_dir_all(&root);
        eprintln!("materialise: {e}");
        return;
    }
    let root = root.canonicalize().unwrap_or(root);
    let wd = root.join(c.cwd.join("/"));
    let gi = match c.lines.as_ref().map(|l| build_gi(l)) {
        Some(Err(_)) => {
            let _ = std::fs::remove_dir_all(&root);
            return;
        }
        Some(Ok(g)) => Some(g),
        None => None,
    };
    let exts = cfg_exts(&c.exts_cfg);
    let fr = nav_frame(&root, c, &exts, gi.as_ref());
    let rootc = fr.rootc.clone();
    // the caller's ignorer: the ignore lines are relative to the working directory and decide by location
    let ignorer = |p: &Path| -> bool {
        let (abs, comps) = parse_written(&p.to_string_lossy());
        let loc: Vec<String> = if abs { lex_resolve(&[], true, &comps) } else { rootc.iter().cloned().chain(lex_resolve(&c.cwd, false, &comps)).collect() };
        let base: Vec<String> = rootc.iter().cloned().chain(c.cwd.iter().cloned()).collect();
        loc.len() > base.len() && loc[..base.len()] == base[..] && gi.as_ref().map(|g| ref_ignored(g, &loc[base.len()..], false)).unwrap_or(false)
    };
    let paths: Vec<PathBuf> = c.args.iter().map(|a| PathBuf::from(spell_raw(&root, a))).collect();
    let mut cfg = String::from("[sqruff]\ndialect = ansi\nrules = CP01\n");
    if !c.exts_cfg.is_empty() {
        cfg.push_str(&format!("sql_file_exts = {}\n", c.exts_cfg));
    }
    let home = std::env::current_dir().ok();
    if std::env::set_current_dir(&wd).is_err() {
        out.count("navlib_chdir_failed", 1);
        let _ = std::fs::remove_dir_all(&root);
        return;
    }
    let r = catch(|| {
        let mut linter = Linter::new(FluffConfig::from_source(&cfg, None), None, None, false);
        let names = |r: &sqruff_lib::core::linter::linting_result::LintingResult| -> Vec<String> { r.paths.iter().flat_map(|d| d.files.iter().map(|f| f.path.clone()).collect::<Vec<_>>()).collect() };
        let lint = names(&linter.lint_paths(paths.clone(), false, &ignorer));
        let fix = names(&linter.lint_paths(paths.clone(), true, &ignorer));
        (lint, fix)
    });
    if let Some(h) = &home {
        let _ = std::env::set_current_dir(h);
    }
    let obs = r.as_ref().ok().map(|(l, f)| (nav_observed(&root, c, l).0, nav_observed(&root, c, f).0));
    let untouched = c.tree.iter().filter(|(_, d)| !*d).all(|(p, _)| std::fs::read_to_string(root.join(p.join("/"))).map(|s| s == SQL).unwrap_or(false));
    let _ = std::fs::remove_dir_all(&root);
    nav_counts("navlib", &fr, c, out);
    let cls = format!("lib:{}", c.cls);
    let shown: Vec<String> = paths.iter().map(|p| p.display().to_string()).collect();
    match &r {
        Err(e) => out.direct(&cls, false, "c19-navlib-lint-paths-panicked", &format!("Linter::lint_paths({:?}) with working directory {} panicked: {}", shown, c.cwd.join("/"), trunc(e, 300)), input.clone()),
        Ok(_) => {
            let (lint, fix) = obs.as_ref().unwrap();
            let what = format!("Linter::lint_paths({:?}) with working directory {}", shown, c.cwd.join("/"));
            if let Some((key, msg)) = nav_judge(&fr, lint, "c19-navlib", &format!("{what}, lint")).or_else(|| nav_judge(&fr, fix, "c19-navlib", &format!("{what}, fix"))) {
                out.direct(&cls, false, &key, &msg, input.clone());
            } else if !untouched {
                out.direct(&cls, false, "c19-navlib-file-written", "Linter::lint_paths changed a file of the tree", input.clone());
            } else {
                out.direct(&cls, true, "", "", Value::Null);
            }
        }
    }
    let exp = match &obs {
        Some((lint, fix)) => format!("(Some ({},{}))", g_navouts(lint), g_navouts(fix)),
        None => "None".to_string(),
    };
    let show = |v: &Vec<NavOut>| v.iter().map(|o| format!("{}{} -> /{}", if o.0 { "/" } else { "" }, o.1.join("/"), o.2.join("/"))).collect::<Vec<_>>();
    let sample = json!({"input":input,"working_directory":c.cwd.join("/"),"paths":shown,
        "linted_name_and_location":obs.as_ref().map(|x| show(&x.0)),"processed_in_fix_mode":obs.as_ref().map(|x| show(&x.1))});
    out.case("navlib", &cls, fr.n_dotdot > 0 || !fr.ignored_cands.is_empty() || fr.has_dup_args, nav_gallina_args(&fr, c, &exts), exp, sample);
}

fn parse_nav_case(v: &Value) -> NavCase {
    let strs = |x: &Value| -> Vec<String> { x.as_array().map(|a| a.iter().map(|s| s.as_str().unwrap_or("").to_string()).collect()).unwrap_or_default() };
    NavCase {
        tree: v["tree"].as_array().map(|a| a.iter().map(|e| (strs(&e[0]), e[1].as_bool().unwrap_or(false))).collect()).unwrap_or_default(),
        exts_cfg: v["exts"].as_str().unwrap_or("").to_string(),
        lines: if v["lines"].is_null() { None } else { Some(strs(&v["lines"])) },
        cwd: strs(&v["cwd"]),
        args: v["args"].as_array().map(|a| a.iter().map(|e| RawArg { abs: e[0].as_bool().unwrap_or(false), comps: strs(&e[1]), slash: e[2].as_bool().unwrap_or(false) }).collect()).unwrap_or_default(),
        cls: "replay",
    }
}

// ------------------------------------------------------------------ (norm) helpers::normalize
struct NormItem {
    paths: Vec<(bool, Vec<String>)>,
}

fn gen_written(rng: &mut Rng) -> (bool, Vec<String>) {
    let abs = rng.chance(1, 3);
    let n = rng.range(0, 7);
    let comps = (0..n)
        .map(|_| match rng.below(20) {
            0..=6 => "..".to_string(),
            7..=9 => ".".to_string(),
            _ => NAMES[rng.below(NAMES.len())].to_string(),
        })
        .collect();
    (abs, comps)
}

fn run_norm(it: &NormItem, out: &mut Buf) {
    let mut exp = vec![];
    let mut shown = vec![];
    let mut nontrivial = false;
    for (abs, comps) in &it.paths {
        let s = format!("{}{}", if *abs { "/" } else { "" }, comps.join("/"));
        let Ok(n) = catch(|| sqruff_lib_core::helpers::normalize(Path::new(&s)).to_string_lossy().to_string()) else {
            out.direct("normalize", false, "c19-normalize-panicked", &format!("helpers::normalize({s:?}) panicked"), json!({"kind":"norm","paths":it.paths}));
            return;
        };
        let (nabs, ncomps) = parse_written(&n);
        if comps.iter().filter(|c| *c == "..").count() >= 2 {
            nontrivial = true;
        }
        shown.push(format!("{s} -> {n}"));
        exp.push(g_rpath(nabs, &ncomps));
    }
    out.count("norm_paths", it.paths.len());
    let args = g_list(it.paths.iter().map(|(a, c)| g_rpath(*a, c)));
    out.case("norm", "random-written-paths", nontrivial, args, g_list(exp), json!({"input":{"kind":"norm","paths":it.paths},"normalize":shown}));
}

enum Item {
    Gi(GiItem),
    Git(usize, GiItem),
    Pipe(usize, TreeCase),
    Lib(usize, LibCase),
    Nav(usize, NavCase),
    Norm(NormItem),
}

pub fn main(args: &Args) {
    silence_panics();
    let mut out = Out::new(&args.out);
    let mut rng = Rng::new(args.seed);
    let sqruff = PathBuf::from(args.flag("--sqruff").expect("--sqruff <binary> required"));
    let scratch = PathBuf::from(args.flag("--scratch").expect("--scratch <dir> required")).join(format!("c19-{}", std::process::id()));
    std::fs::create_dir_all(&scratch).expect("scratch");
    let env = Env { sqruff, scratch: scratch.clone() };
    let mut items: Vec<Item> = vec![];
    let mut navlib_items: Vec<NavCase> = vec![];
    let s = |x: &str| x.to_string();
    let p = |x: &str| -> Vec<String> { x.split('/').filter(|c| !c.is_empty()).map(|c| c.to_string()).collect() };

    if let Some(path) = args.flag("--replay-input") {
        let v: Value = serde_json::from_str(&std::fs::read_to_string(path).unwrap()).unwrap();
        let v = if v.get("input").is_some() { v["input"].clone() } else { v };
        if v["kind"] == "gi" || v["kind"] == "git" {
            let strs = |x: &Value| -> Vec<String> { x.as_array().map(|a| a.iter().map(|s| s.as_str().unwrap_or("").to_string()).collect()).unwrap_or_default() };
            let g = GiItem {
                lines: strs(&v["lines"]),
                paths: v["paths"].as_array().map(|a| a.iter().map(|e| (strs(&e[0]), e[1].as_bool().unwrap_or(false))).collect()).unwrap_or_default(),
                cls: "replay",
            };
            items.push(if v["kind"] == "git" { Item::Git(0, g) } else { Item::Gi(g) });
        } else if v["kind"] == "lib" {
            items.push(Item::Lib(0, parse_lib_case(&v)));
        } else if v["kind"] == "nav" {
            items.push(Item::Nav(0, parse_nav_case(&v)));
        } else if v["kind"] == "navlib" {
            navlib_items.push(parse_nav_case(&v));
        } else if v["kind"] == "norm" {
            let strs = |x: &Value| -> Vec<String> { x.as_array().map(|a| a.iter().map(|s| s.as_str().unwrap_or("").to_string()).collect()).unwrap_or_default() };
            items.push(Item::Norm(NormItem { paths: v["paths"].as_array().map(|a| a.iter().map(|e| (e[0].as_bool().unwrap_or(false), strs(&e[1]))).collect()).unwrap_or_default() }));
        } else {
            items.push(Item::Pipe(0, parse_tree_case(&v)));
        }
    } else {
        // ---- regression corpus first: the README example and the three repaired defects
        let readme = vec![s("# ignore ALL .hql files"), s("*.hql"), s(""), s("# ignore ALL files in ANY directory named temp"), s("temp/")];
        let t1 = vec![(p("a.sql"), false), (p("temp"), true), (p("temp/b.sql"), false), (p("sub"), true), (p("sub/temp"), true), (p("sub/temp/c.sql"), false), (p("x.hql"), false), (p("U.SQL"), false)];
        items.push(Item::Pipe(0, TreeCase { tree: t1.clone(), exts_cfg: s(".sql,.hql"), lines: Some(readme.clone()), args: vec![(1, vec![])], cls: "regression" }));
        items.push(Item::Pipe(0, TreeCase { tree: t1.clone(), exts_cfg: s(""), lines: Some(readme.clone()), args: vec![], cls: "regression" }));
        items.push(Item::Pipe(0, TreeCase { tree: t1.clone(), exts_cfg: s(""), lines: Some(readme.clone()), args: vec![(0, p("temp/b.sql")), (0, p("sub"))], cls: "regression" }));
        items.push(Item::Pipe(0, TreeCase { tree: t1.clone(), exts_cfg: s(""), lines: None, args: vec![(1, vec![]), (0, p("a.sql")), (1, p("a.sql")), (2, p("a.sql")), (0, p("sub")), (0, p("sub/temp"))], cls: "regression" }));
        let mut t2 = t1.clone();
        t2.push((p("d.sql"), true));
        t2.push((p("d.sql/e.sql"), false));
        items.push(Item::Pipe(0, TreeCase { tree: t2, exts_cfg: s(""), lines: None, args: vec![(1, vec![])], cls: "regression" }));
        items.push(Item::Pipe(0, TreeCase { tree: t1.clone(), exts_cfg: s(".SQL"), lines: None, args: vec![(1, vec![]), (3, p("sub"))], cls: "regression" }));
        // a negation cannot re-include below an ignored directory; "*/" does not ignore root-level files
        items.push(Item::Pipe(0, TreeCase { tree: t1.clone(), exts_cfg: s(""), lines: Some(vec![s("temp/"), s("!b.sql"), s("!c.sql")]), args: vec![(1, vec![])], cls: "regression" }));
        items.push(Item::Pipe(0, TreeCase { tree: t1.clone(), exts_cfg: s(""), lines: Some(vec![s("*/")]), args: vec![(1, vec![]), (0, p("sub/temp/c.sql"))], cls: "regression" }));
        items.push(Item::Gi(GiItem {
            lines: readme.clone(),
            paths: vec![(p("temp/b.sql"), false), (p("sub/temp/c.sql"), false), (p("a.sql"), false), (p("x.hql"), false), (p("sub/x.hql"), false), (p("temp"), true), (p("temp"), false)],
            cls: "regression",
        }));

        items.push(Item::Git(
            1_000_000,
            GiItem {
                lines: vec![s("temp/"), s("!b.sql"), s("*.hql")],
                paths: vec![(p("temp/b.sql"), false), (p("sub/temp/b.sql"), false), (p("b.sql"), false), (p("a.sql"), false), (p("temp"), true), (p("temp"), false), (p("sub/x.hql"), false)],
                cls: "regression",
            },
        ));
        // the library entry point: every route x {lower, upper, mixed, case-duplicated} lists on the README tree
        for route in 0..ROUTES.len() {
            for exts in [vec![s(".sql"), s(".hql")], vec![s(".SQL")], vec![s(".Sql"), s(".HQL")], vec![s(".sql"), s(".SQL")], vec![s(".TXT"), s(".sql.J2")]] {
                items.push(Item::Lib(0, LibCase { base: TreeCase { tree: t1.clone(), exts_cfg: s(""), lines: Some(readme.clone()), args: vec![(2, vec![])], cls: "regression" }, route, exts: exts.clone() }));
                items.push(Item::Lib(0, LibCase { base: TreeCase { tree: t1.clone(), exts_cfg: s(""), lines: None, args: vec![(2, p("sub")), (2, p("a.sql")), (2, vec![]), (2, p("a.sql"))], cls: "regression" }, route, exts }));
            }
        }
        let (n_gi, n_pipe, n_lib) = if args.thorough() { (20000, 6000, 12000) } else { (2500, 700, 1500) };
        for _ in 0..n_gi {
            let lines = gen_lines(&mut rng);
            let np = rng.range(3, 8);
            let paths: Vec<(Vec<String>, bool)> = (0..np).map(|_| gen_path(&mut rng)).collect();
            if items.len() % 4 == 0 {
                items.push(Item::Git(items.len(), GiItem { lines: lines.clone(), paths: paths.clone(), cls: "random-patterns" }));
            }
            items.push(Item::Gi(GiItem { lines, paths, cls: "random-patterns" }));
        }
        for _ in 0..n_pipe {
            items.push(Item::Pipe(0, gen_case(&mut rng)));
        }
        // after everything else, so that the gi / git / pipe cases of a seed stay what they were
        for _ in 0..n_lib {
            items.push(Item::Lib(0, gen_lib_case(&mut rng)));
        }
        // ---- written arguments from a working directory nested in the tree (after everything else, as above)
        // regression: a project with the same layout again below jobs/nightly; arguments that climb out of the
        // working directory by one, two and three levels, come back into it, or pass through it absolutely
        let t3 = vec![(p("models"), true), (p("models/a.sql"), false), (p("models/staging"), true), (p("models/staging/b.sql"), false), (p("other"), true), (p("other/o.sql"), false), (p("top.sql"), false),
            (p("jobs"), true), (p("jobs/j.sql"), false), (p("jobs/nightly"), true), (p("jobs/nightly/n.sql"), false), (p("jobs/nightly/models"), true), (p("jobs/nightly/models/a.sql"), false),
            (p("jobs/nightly/temp"), true), (p("jobs/nightly/temp/t.sql"), false), (p("jobs/nightly/deep"), true), (p("jobs/nightly/deep/er"), true), (p("jobs/nightly/deep/er/d.sql"), false)];
        let ra = |abs: bool, x: &str| RawArg { abs, comps: x.split('/').filter(|c| !c.is_empty()).map(|c| c.to_string()).collect(), slash: false };
        let mut nav_reg: Vec<NavCase> = vec![];
        for (cwd, args) in [
            ("jobs/nightly", vec![ra(false, "../../models")]),
            ("jobs/nightly", vec![ra(false, "../../other"), ra(false, "../j.sql")]),
            ("jobs/nightly", vec![ra(false, "../.."), ra(false, "models")]),
            ("jobs/nightly", vec![ra(false, "./../nightly/../../jobs/nightly/models"), ra(false, "../../models/a.sql"), ra(true, "jobs/../models")]),
            ("jobs/nightly/deep/er", vec![ra(false, "../../../../models"), ra(false, "../../models"), ra(false, "../..")]),
            ("jobs", vec![ra(false, "../models"), ra(false, "nightly/../../other/o.sql")]),
            ("jobs/nightly", vec![]),
        ] {
            nav_reg.push(NavCase { tree: t3.clone(), exts_cfg: s(""), lines: None, cwd: p(cwd), args, cls: "regression" });
        }
        // every file below models/ has a namesake below the working directory
        let mut t4 = t3.clone();
        t4.push((p("jobs/nightly/models/staging"), true));
        t4.push((p("jobs/nightly/models/staging/b.sql"), false));
        nav_reg.push(NavCase { tree: t4.clone(), exts_cfg: s(""), lines: None, cwd: p("jobs/nightly"), args: vec![ra(false, "../../models")], cls: "regression" });
        nav_reg.push(NavCase { tree: t4, exts_cfg: s(""), lines: None, cwd: p("jobs/nightly"), args: vec![ra(false, "../../models"), ra(false, "models")], cls: "regression" });
        nav_reg.push(NavCase { tree: t3.clone(), exts_cfg: s(""), lines: Some(vec![s("temp/"), s("/n.sql")]), cwd: p("jobs/nightly"), args: vec![ra(false, "."), ra(true, "jobs/nightly/deep/../temp")], cls: "regression" });
        for c in &nav_reg {
            items.push(Item::Nav(0, c.clone()));
            navlib_items.push(c.clone());
        }
        let (n_nav, n_navlib, n_norm) = if args.thorough() { (3000, 1500, 1000) } else { (320, 160, 100) };
        for _ in 0..n_nav {
            items.push(Item::Nav(0, gen_nav_case(&mut rng)));
        }
        for _ in 0..n_navlib {
            navlib_items.push(gen_nav_case(&mut rng));
        }
        for _ in 0..n_norm {
            items.push(Item::Norm(NormItem { paths: (0..20).map(|_| gen_written(&mut rng)).collect() }));
        }
    }
    let mut k = 0usize;
    for it in items.iter_mut() {
        if let Item::Pipe(i, _) | Item::Lib(i, _) | Item::Nav(i, _) = it {
            *i = k;
            k += 1;
        }
    }
    par_run(&mut out, &items, || (), |_, it, buf| match it {
        Item::Gi(g) => run_gi(g, buf),
        Item::Git(i, g) => run_git(&env.scratch, *i, g, buf),
        Item::Pipe(i, c) => run_pipe(&env, *i, c, buf),
        Item::Lib(i, c) => run_lib(&env, *i, c, buf),
        Item::Nav(i, c) => run_nav(&env, *i, c, buf),
        Item::Norm(n) => run_norm(n, buf),
    });
    // the library entry point with the working directory of the process inside the tree: one after the
    // other on this thread, every other thread has finished
    for (i, c) in navlib_items.iter().enumerate() {
        let mut buf = Buf::default();
        run_navlib(&env, i, c, &mut buf);
        out.absorb(buf);
    }
    let _ = std::fs::remove_dir_all(&scratch);
    out.finish();
}
