//! C15 — templating keeps an exact source-to-rendered map.
//!
//! For generated (source, placeholder configuration) pairs and for synthetic slice lists:
//!  * group `process`: real `PlaceholderTemplater::process` (templated string, slices, raw
//!    slices, Err, panic) vs the Gallina `process` run on the capture list of the *same*
//!    regex (`H_caps` is monitored on that list);
//!  * groups `lex` / `lexsyn`: position markers produced by the real
//!    `Lexer::lex(StringOrTemplate::Template(tf))` vs the Gallina `lex_segments` on the slice
//!    list and the lexed elements (obtained by lexing the rendered string on its own);
//!  * group `lit`: `TemplatedFile::is_source_slice_literal` vs the model;
//!  * direct observations of the property itself: rendered = substitution, slices tile both
//!    texts, literal slices cover identical text, every token's source range = `map_spec`,
//!    tokens refine the lexed elements (only whitespace is split), no panic.
use std::str::FromStr;

use serde_json::{Value as J, json};
use sqruff_lib::core::config::{FluffConfig, Value};
use sqruff_lib::templaters::Templater;
use sqruff_lib::templaters::placeholder::{PlaceholderTemplater, get_known_styles};
use sqruff_lib_core::dialects::base::Dialect;
use sqruff_lib_core::dialects::init::DialectKind;
use sqruff_lib_core::dialects::syntax::SyntaxKind;
use sqruff_lib_core::parser::lexer::StringOrTemplate;
use sqruff_lib_core::parser::segments::base::Tables;
use sqruff_lib_core::templaters::base::{RawFileSlice, TemplatedFile, TemplatedFileSlice};

use crate::common::*;

// ------------------------------------------------------------------ items
#[derive(Clone, Debug)]
enum Val {
    S(String),
    I(i32),
    B(bool),
    F,    // a float: not a valid replacement
    None, // Value::None
}
impl Val {
    fn to_value(&self) -> Value {
        match self {
            Val::S(s) => Value::String(s.as_str().into()),
            Val::I(i) => Value::Int(*i),
            Val::B(b) => Value::Bool(*b),
            Val::F => Value::Float(1.5),
            Val::None => Value::None,
        }
    }
    fn to_json(&self) -> J {
        match self {
            Val::S(s) => json!({"s":s}),
            Val::I(i) => json!({"i":i}),
            Val::B(b) => json!({"b":b}),
            Val::F => json!({"f":1.5}),
            Val::None => json!({"none":true}),
        }
    }
    fn from_json(v: &J) -> Val {
        if let Some(s) = v.get("s") {
            Val::S(s.as_str().unwrap_or("").to_string())
        } else if let Some(i) = v.get("i") {
            Val::I(i.as_i64().unwrap_or(0) as i32)
        } else if let Some(b) = v.get("b") {
            Val::B(b.as_bool().unwrap_or(false))
        } else if v.get("f").is_some() {
            Val::F
        } else {
            Val::None
        }
    }
}

/// slice: (type code, s0, s1, t0, t1); type codes: 0 literal, 1 templated, 2 block_start, 3 anything else
type Sl = (u8, usize, usize, usize, usize);

#[derive(Clone, Debug)]
enum Item {
    Placeholder { cls: String, dialect: String, style: String, regex: Option<String>, src: String, vals: Vec<(String, Val)> },
    /// parts: (type name, source text, templated text)
    Synthetic { cls: String, dialect: String, parts: Vec<(String, String, String)> },
}
impl Item {
    fn to_json(&self) -> J {
        match self {
            Item::Placeholder { cls, dialect, style, regex, src, vals } => json!({
                "kind":"placeholder","cls":cls,"dialect":dialect,"style":style,"regex":regex,"src":src,
                "vals": vals.iter().map(|(k,v)| json!([k, v.to_json()])).collect::<Vec<_>>() }),
            Item::Synthetic { cls, dialect, parts } => json!({
                "kind":"synthetic","cls":cls,"dialect":dialect,
                "parts": parts.iter().map(|(a,b,c)| json!([a,b,c])).collect::<Vec<_>>() }),
        }
    }
    fn from_json(v: &J) -> Item {
        let s = |k: &str| v[k].as_str().unwrap_or("").to_string();
        if v["kind"] == "synthetic" {
            Item::Synthetic {
                cls: "replay".into(),
                dialect: s("dialect"),
                parts: v["parts"].as_array().map(|a| a.iter().map(|p| (p[0].as_str().unwrap_or("").to_string(), p[1].as_str().unwrap_or("").to_string(), p[2].as_str().unwrap_or("").to_string())).collect()).unwrap_or_default(),
            }
        } else {
            Item::Placeholder {
                cls: "replay".into(),
                dialect: s("dialect"),
                style: s("style"),
                regex: v["regex"].as_str().map(|x| x.to_string()),
                src: s("src"),
                vals: v["vals"].as_array().map(|a| a.iter().map(|p| (p[0].as_str().unwrap_or("").to_string(), Val::from_json(&p[1]))).collect()).unwrap_or_default(),
            }
        }
    }
}

fn ty_code(t: &str) -> u8 {
    match t {
        "literal" => 0,
        "templated" => 1,
        "block_start" => 2,
        _ => 3,
    }
}
fn g_ty(c: u8) -> &'static str {
    match c {
        0 => "SLit",
        1 => "STempl",
        2 => "SBlockStart",
        _ => "SOther",
    }
}
fn g_slice(s: &Sl) -> String {
    format!("mk_ts {} {} {} {} {}", g_ty(s.0), s.1, s.2, s.3, s.4)
}
fn hash_str(s: &str) -> u64 {
    let mut h: u64 = 0xcbf29ce484222325;
    for b in s.as_bytes() {
        h ^= *b as u64;
        h = h.wrapping_mul(0x100000001b3);
    }
    h
}
fn parse_like<T: FromStr>(_witness: &T, s: &str) -> Option<T> {
    T::from_str(s).ok()
}

// ------------------------------------------------------------------ the specification, in Rust, for direct observation
fn map_spec(sl: &[Sl], a: usize, b: usize) -> Option<(usize, usize)> {
    let sa = sl.iter().find(|s| s.3 <= a && a < s.4)?;
    let sb = sl.iter().find(|s| s.3 < b && b <= s.4)?;
    let start = if sa.0 == 0 { sa.1 + (a - sa.3) } else { sa.1 };
    let end = if sb.0 == 0 { sb.1 + (b - sb.3) } else { sb.2 };
    Some((start, end))
}

/// `--legacy`: the harness is built against a tree with fix 7940035 reverted; only the lex tie is
/// emitted, into group `lexlegacy` (checked against `iter_segments_legacy`), nothing is judged.
static LEGACY: std::sync::atomic::AtomicBool = std::sync::atomic::AtomicBool::new(false);
fn legacy() -> bool {
    LEGACY.load(std::sync::atomic::Ordering::Relaxed)
}

// ------------------------------------------------------------------ per-thread state
#[derive(Default)]
struct St {}
static DIALECT_MAP: std::sync::OnceLock<std::collections::HashMap<String, Dialect>> = std::sync::OnceLock::new();
impl St {
    /// dialects are built once and shared (building one costs a few hundred ms)
    fn dialect(&mut self, name: &str) -> &'static Dialect {
        let m = DIALECT_MAP.get_or_init(|| {
            let names: Vec<&str> = DIALECTS.to_vec();
            let built: Vec<(String, Dialect)> = std::thread::scope(|sc| {
                let hs: Vec<_> = names
                    .iter()
                    .map(|n| {
                        sc.spawn(move || {
                            let kind = DialectKind::from_str(n).unwrap_or(DialectKind::Ansi);
                            (n.to_string(), sqruff_lib_dialects::kind_to_dialect(&kind).expect("dialect"))
                        })
                    })
                    .collect();
                hs.into_iter().map(|h| h.join().unwrap()).collect()
            });
            built.into_iter().collect()
        });
        m.get(name).unwrap_or_else(|| &m["ansi"])
    }
}

fn slices_of(tf: &TemplatedFile) -> Vec<Sl> {
    tf.sliced_file
        .iter()
        .map(|s| (ty_code(&s.slice_type), s.source_slice.start, s.source_slice.end, s.templated_slice.start, s.templated_slice.end))
        .collect()
}

/// Lex the rendered string on its own: the lexed elements (templated range, is-whitespace).
fn elements(d: &Dialect, tpl: &str) -> Result<Vec<(usize, usize, bool)>, String> {
    catch(|| {
        let tables = Tables::default();
        let (segs, _) = d.lexer().lex(&tables, StringOrTemplate::String(tpl)).unwrap();
        let mut out = vec![];
        for s in &segs {
            if s.is_type(SyntaxKind::EndOfFile) {
                continue;
            }
            let pm = s.get_position_marker().unwrap();
            out.push((pm.templated_slice.start, pm.templated_slice.end, s.is_type(SyntaxKind::Whitespace)));
        }
        out
    })
}

/// (s0, s1, t0, t1, raw) of every token of the real templated lex, end-of-file included.
fn real_lex(d: &Dialect, tf: &TemplatedFile) -> Result<Vec<(usize, usize, usize, usize, String)>, String> {
    catch(|| {
        let tables = Tables::default();
        let (segs, _) = d.lexer().lex(&tables, StringOrTemplate::Template(tf.clone())).unwrap();
        segs.iter()
            .map(|s| {
                let pm = s.get_position_marker().unwrap();
                (pm.source_slice.start, pm.source_slice.end, pm.templated_slice.start, pm.templated_slice.end, s.raw().to_string())
            })
            .collect()
    })
}

/// Everything that happens once a templated file exists: lex tie, direct observation of the
/// token map, literal-ness tie.
#[allow(clippy::too_many_arguments)]
fn lex_part(st: &mut St, group: &str, cls: &str, dialect: &str, tf: &TemplatedFile, src: &str, tpl: &str, input: &J, rng: &mut Rng, out: &mut Buf) {
    let sl = slices_of(tf);
    let d = st.dialect(dialect);
    let els = match elements(d, tpl) {
        Ok(e) => e,
        Err(_) => {
            out.count("plain_lex_panicked_skipped", 1);
            return;
        }
    };
    let covered = els.last().map(|e| e.1).unwrap_or(0);
    // hypotheses of C15_map, monitored on real data
    {
        let mut pos = 0;
        let mut ok = true;
        for e in &els {
            if e.0 != pos || e.1 <= e.0 {
                ok = false;
            }
            pos = e.1;
        }
        out.hyp("wf_elems(lexed elements non-empty, contiguous from 0, inside the rendered text)", "blocking", ok && pos <= tpl.len(), json!({"input":input,"elements":els}));
        let mut pt = 0;
        let mut okc = true;
        for s in &sl {
            if s.3 != pt || s.4 < s.3 || !(s.3 == s.4 || s.0 <= 1) {
                okc = false;
            }
            pt = s.4;
        }
        if group == "lex" {
            out.hyp("wf_slices(process output: templated ranges contiguous from 0, literal/templated)", "blocking", okc && pt == tpl.len(), json!({"input":input,"slices":sl}));
        } else if okc {
            out.count("synthetic_lists_satisfying_wf_slices", 1);
        }
    }
    if covered != tpl.len() {
        out.count("lexer_dropped_tail(C01)", 1);
    }
    let real = real_lex(d, tf);
    let args = g_tuple(&[g_list(sl.iter().map(g_slice)), g_list(els.iter().map(|e| format!("mk_el {} {} {}", e.0, e.1, g_bool(e.2))))]);
    let exp = match &real {
        Ok(segs) => format!("(Some {})", g_list(segs.iter().map(|g| format!("mk_seg {} {} {} {} 0 {}", g.0, g.1, g.2, g.3, g.4.len())))),
        Err(_) => "None".to_string(),
    };
    // non-trivial: some element overlaps more than one slice of non-zero templated length
    let straddles = els.iter().filter(|e| sl.iter().filter(|s| s.3 < s.4 && s.3 < e.1 && e.0 < s.4).count() > 1).count();
    let ws_straddles = els.iter().filter(|e| e.2 && sl.iter().filter(|s| s.3 < s.4 && s.3 < e.1 && e.0 < s.4).count() > 1).count();
    let shifted = sl.iter().any(|s| s.1 != s.3);
    out.count("elements", els.len());
    out.count("elements_straddling_a_border", straddles);
    out.count("whitespace_elements_straddling_a_border", ws_straddles);
    if shifted {
        out.count("files_with_shifted_offsets", 1);
    }
    let sample = json!({"input":input,"slices":sl,"elements":els,
        "real": match &real { Ok(s) => json!(s.iter().map(|g| json!([g.0,g.1,g.2,g.3])).collect::<Vec<_>>()), Err(m) => json!({"panic":trunc(m,200)}) }});
    if legacy() {
        out.case("lexlegacy", cls, straddles > 0, args, exp, sample);
        if real.is_err() {
            out.count("legacy_panics", 1);
        }
        return;
    }
    out.case(group, cls, straddles > 0, args, exp, sample);

    // ---- direct observation of the property on the implementation
    let key = format!("c15-lex-{:016x}", hash_str(&input.to_string()));
    let wf = sl.iter().all(|s| s.3 == s.4 || s.0 <= 1);
    match &real {
        Err(msg) => {
            if wf {
                out.direct(cls, false, &key, &format!("lexing the templated file panicked: {}", trunc(msg, 200)), input.clone());
            } else {
                out.count("malformed_slice_list_panics(expected)", 1);
            }
        }
        Ok(segs) => {
            let toks = &segs[..segs.len().saturating_sub(1)];
            let mut bad: Option<String> = None;
            // (1) each token: text = text of its templated range, source range = map_spec, inside the source
            for g in toks {
                if tpl.get(g.2..g.3) != Some(g.4.as_str()) {
                    bad = Some(format!("token raw {:?} is not the rendered text at {}..{}", g.4, g.2, g.3));
                    break;
                }
                let spec = map_spec(&sl, g.2, g.3);
                if spec != Some((g.0, g.1)) {
                    bad = Some(format!("token {:?} at templated {}..{} maps to source {}..{}, specification says {:?}", g.4, g.2, g.3, g.0, g.1, spec));
                    break;
                }
                if !(g.0 <= g.1 && g.1 <= src.len()) {
                    bad = Some(format!("token {:?} source range {}..{} not inside the source (len {})", g.4, g.0, g.1, src.len()));
                    break;
                }
            }
            // (2) tokens refine the elements: contiguous, only whitespace is split, cuts at literal slice ends
            if bad.is_none() {
                let mut i = 0;
                for e in &els {
                    let mut pos = e.0;
                    let mut n = 0;
                    while pos < e.1 {
                        match toks.get(i) {
                            Some(g) if g.2 == pos && g.3 <= e.1 && g.3 > pos => {
                                if g.3 < e.1 && !sl.iter().any(|s| s.0 == 0 && s.4 == g.3 && s.3 <= pos) {
                                    bad = Some(format!("element {}..{} cut at {} which is not the end of a literal slice containing the piece", e.0, e.1, g.3));
                                }
                                pos = g.3;
                                i += 1;
                                n += 1;
                            }
                            other => {
                                bad = Some(format!("element {}..{} not covered by tokens at {} (next token {:?})", e.0, e.1, pos, other.map(|g| (g.2, g.3))));
                                break;
                            }
                        }
                        if bad.is_some() {
                            break;
                        }
                    }
                    if bad.is_none() && n > 1 && !e.2 {
                        bad = Some(format!("non-whitespace element {}..{} split into {} tokens", e.0, e.1, n));
                    }
                    if bad.is_some() {
                        break;
                    }
                }
                if bad.is_none() && i != toks.len() {
                    bad = Some("more tokens than elements".into());
                }
            }
            // (3) end of file sits at the end of the last token
            if bad.is_none() {
                let eof = segs.last().unwrap();
                let want = toks.last().map(|g| (g.1, g.1, g.3, g.3)).unwrap_or((0, 0, 0, 0));
                if (eof.0, eof.1, eof.2, eof.3) != want {
                    bad = Some(format!("end-of-file marker {:?} but last token ends at {:?}", (eof.0, eof.1, eof.2, eof.3), want));
                }
            }
            match bad {
                Some(msg) if wf => out.direct(cls, false, &key, &msg, input.clone()),
                Some(_) => out.count("malformed_slice_list_mismaps(expected)", 1),
                None => out.direct(cls, true, "", "", J::Null),
            }
        }
    }

    // ---- literal-ness of random source ranges
    let raws = tf.verif_raw_sliced();
    if raws.iter().all(|r| r.0.is_ascii()) || true {
        for _ in 0..(if rng.chance(1, 3) { 1 } else { 0 }) {
            let a = rng.below(src.len() + 1);
            let b = (a + rng.below(8)).min(src.len());
            let got = tf.is_source_slice_literal(&(a..b));
            let args = g_tuple(&[
                g_list(raws.iter().map(|r| format!("mk_rs {} {} {}", g_str(&r.0), g_ty(ty_code(&r.1)), r.2))),
                g_n(a),
                g_n(b),
            ]);
            out.case("lit", cls, raws.len() > 1, args, g_bool(got), json!({"input":input,"range":[a,b],"got":got}));
        }
    }
}

fn run_placeholder(st: &mut St, cls: &str, dialect: &str, style: &str, regex: &Option<String>, src: &str, vals: &[(String, Val)], item_json: &J, rng: &mut Rng, out: &mut Buf) {
    out.count("placeholder_files", 1);
    // configuration
    let ini = format!(
        "[sqruff]\ndialect = {}\ntemplater = placeholder\n\n[sqruff:templater:placeholder]\n{}\n",
        dialect,
        match regex {
            Some(r) => format!("param_regex = {}", r),
            None => format!("param_style = {}", style),
        }
    );
    let cfg = catch(|| {
        let mut cfg = FluffConfig::from_source(&ini, None);
        {
            let m = cfg.raw.get_mut("templater").unwrap().as_map_mut().unwrap().get_mut("placeholder").unwrap().as_map_mut().unwrap();
            for (k, v) in vals {
                m.insert(k.clone(), v.to_value());
            }
        }
        cfg
    });
    let Ok(cfg) = cfg else {
        out.count("config_failed_skipped", 1);
        return;
    };
    // the regex the templater will use, and its captures on this source. A custom regex is read back
    // from the parsed configuration (the ini reader may cut a value at a comment sign), as `derive_style` does.
    let styles = get_known_styles();
    let regex_in_cfg: Option<String> = match regex {
        Some(r) => {
            let got = cfg.get("placeholder", "templater").as_map().and_then(|m| m.get("param_regex")).and_then(|v| v.as_string()).map(|x| x.to_string());
            if got.as_deref() != Some(r.as_str()) {
                out.count("custom_regex_changed_by_config_reader", 1);
            }
            got
        }
        None => None,
    };
    let re = match &regex_in_cfg {
        Some(r) => match parse_like(styles.values().next().unwrap(), r) {
            Some(x) => x,
            None => {
                out.count("bad_custom_regex_skipped", 1);
                return;
            }
        },
        None => match styles.get(style) {
            Some(r) => r.clone(),
            None => return,
        },
    };
    let mut caps: Vec<(usize, usize, Option<String>)> = vec![];
    for c in re.captures_iter(src) {
        let Ok(c) = c else {
            out.count("regex_error_skipped", 1);
            return;
        };
        let m = c.get(0).unwrap();
        caps.push((m.start(), m.end(), c.name("param_name").map(|n| n.as_str().to_string())));
    }
    // H_caps: spans sorted, disjoint, within the source
    let mut ok = true;
    let mut last = 0usize;
    for c in &caps {
        if !(last <= c.0 && c.0 <= c.1 && c.1 <= src.len()) {
            ok = false;
        }
        last = c.1;
    }
    out.hyp("H_caps(captures sorted, disjoint, in range)", "blocking", ok, json!({"input":item_json,"caps":caps}));
    // the configuration map the templater looks names up in
    let mut map: Vec<(String, String)> = vec![];
    if let Some(m) = cfg.get("placeholder", "templater").as_map() {
        for (k, v) in m {
            let gv = match v {
                Value::String(s) => format!("VStr {}", g_str(s)),
                Value::Int(i) => format!("VInt {} {}", g_bool(*i < 0), (*i as i64).unsigned_abs()),
                Value::Bool(b) => format!("VBool {}", g_bool(*b)),
                _ => "VOther".to_string(),
            };
            map.push((k.clone(), gv));
        }
    }
    map.sort();
    let args = g_tuple(&[
        g_str(src),
        g_list(map.iter().map(|(k, v)| format!("({},{})", g_str(k), v))),
        g_list(caps.iter().map(|c| format!("mk_cap {} {} {}", c.0, c.1, g_opt(c.2.as_ref().map(|n| g_str(n)))))),
    ]);
    // the real templater
    let r = catch(|| PlaceholderTemplater.process(src, "f.sql", &cfg, &None));
    let exp = match &r {
        Ok(Ok(tf)) => {
            let sl = slices_of(tf);
            let raws = tf.verif_raw_sliced();
            format!(
                "(ROk (mk_tf {} {} {}))",
                g_str(tf.templated()),
                g_list(sl.iter().map(g_slice)),
                g_list(raws.iter().map(|r| format!("mk_rs {} {} {}", g_str(&r.0), g_ty(ty_code(&r.1)), r.2)))
            )
        }
        Ok(Err(_)) => "RErr".to_string(),
        Err(_) => "RPanic".to_string(),
    };
    let sample = json!({"input":item_json,"caps":caps,
        "result": match &r { Ok(Ok(tf)) => json!({"templated":tf.templated(),"slices":slices_of(tf)}), Ok(Err(e)) => json!({"err":e.value}), Err(m) => json!({"panic":trunc(m,200)}) }});
    let changing = matches!(&r, Ok(Ok(tf)) if tf.templated() != src);
    if !legacy() {
        out.case("process", cls, changing, args, exp, sample);
    }
    if caps.is_empty() {
        out.count("files_without_placeholder", 1);
    }
    // numbering of positional placeholders among named ones (custom regexes with an optional `param_name`)
    {
        let named = caps.iter().filter(|c| c.2.is_some()).count();
        if named > 0 && named < caps.len() {
            out.count("files_mixing_named_and_positional_placeholders", 1);
            let first_named = caps.iter().position(|c| c.2.is_some()).unwrap();
            if caps[first_named..].iter().any(|c| c.2.is_none()) {
                out.count("files_with_a_positional_placeholder_after_a_named_one", 1);
            }
        }
        if caps.iter().any(|c| c.2.as_deref() == Some("")) {
            out.count("files_with_an_empty_placeholder_name", 1);
        }
    }
    out.count("placeholders", caps.len());

    let key = format!("c15-process-{:016x}", hash_str(&item_json.to_string()));
    let tf = match r {
        Err(msg) => {
            out.direct(cls, false, &key, &format!("process panicked: {}", trunc(&msg, 200)), item_json.clone());
            return;
        }
        Ok(Err(_)) => {
            // only allowed for a replacement value that is not a string/int/bool
            let invalid = vals.iter().any(|(_, v)| matches!(v, Val::F | Val::None));
            out.direct(cls, invalid, &key, "process returned Err although every configured value is a string, int or bool", item_json.clone());
            out.count("process_err", 1);
            return;
        }
        Ok(Ok(tf)) => tf,
    };
    // ---- direct: rendered = substitution; slices tile both texts; literal slices identical
    let tpl = tf.templated().to_string();
    let mut bad: Option<String> = None;
    {
        let lookup = |name: &str| -> String {
            match map.iter().find(|(k, _)| k == name) {
                None => name.to_string(),
                Some((k, _)) => match cfg.get("placeholder", "templater").as_map().unwrap().get(k).unwrap() {
                    Value::String(s) => s.to_string(),
                    Value::Int(i) => i.to_string(),
                    Value::Bool(b) => b.to_string(),
                    _ => String::new(),
                },
            }
        };
        let mut want = String::new();
        let mut pos = 0;
        let mut counter = 1;
        let mut repls = vec![];
        for c in &caps {
            want.push_str(&src[pos..c.0]);
            let name = match &c.2 {
                Some(n) => n.clone(),
                None => {
                    counter += 1;
                    (counter - 1).to_string()
                }
            };
            let r = lookup(&name);
            want.push_str(&r);
            repls.push(r);
            pos = c.1;
        }
        want.push_str(&src[pos..]);
        if want != tpl {
            bad = Some(format!("rendered text {:?} is not the substitution {:?}", trunc(&tpl, 120), trunc(&want, 120)));
        }
        let sl = slices_of(&tf);
        let (mut ps, mut pt) = (0usize, 0usize);
        let mut k = 0;
        for s in &sl {
            if bad.is_some() {
                break;
            }
            if s.1 != ps || s.3 != pt || s.2 < s.1 || s.4 < s.3 {
                bad = Some(format!("slice {:?} does not continue at source {} / templated {}", s, ps, pt));
                break;
            }
            ps = s.2;
            pt = s.4;
            match s.0 {
                0 => {
                    if src.get(s.1..s.2) != tpl.get(s.3..s.4) || src.get(s.1..s.2).is_none() {
                        bad = Some(format!("literal slice {:?} covers different text", s));
                    }
                }
                1 => {
                    let c = caps.get(k);
                    if c.map(|c| (c.0, c.1)) != Some((s.1, s.2)) || tpl.get(s.3..s.4) != repls.get(k).map(|x| x.as_str()) {
                        bad = Some(format!("templated slice {:?} is not placeholder #{} / its replacement", s, k));
                    }
                    k += 1;
                }
                _ => bad = Some(format!("unexpected slice type in {:?}", s)),
            }
        }
        if bad.is_none() && (ps != src.len() || pt != tpl.len() || k != caps.len()) {
            bad = Some(format!("slices end at source {} / templated {} (lengths {} / {}), {} of {} placeholders", ps, pt, src.len(), tpl.len(), k, caps.len()));
        }
    }
    match bad {
        Some(msg) => out.direct(cls, false, &key, &msg, item_json.clone()),
        None => out.direct(cls, true, "", "", J::Null),
    }
    lex_part(st, "lex", cls, dialect, &tf, src, &tpl, item_json, rng, out);
}

fn run_synthetic(st: &mut St, cls: &str, dialect: &str, parts: &[(String, String, String)], item_json: &J, rng: &mut Rng, out: &mut Buf) {
    out.count("synthetic_files", 1);
    let mut src = String::new();
    let mut tpl = String::new();
    let mut slices = vec![];
    let mut raws = vec![];
    for (ty, s, t) in parts {
        slices.push(TemplatedFileSlice::new(ty, src.len()..src.len() + s.len(), tpl.len()..tpl.len() + t.len()));
        raws.push(RawFileSlice::new(s.clone(), ty.clone(), src.len(), None, None));
        src.push_str(s);
        tpl.push_str(t);
    }
    let tf = catch(|| TemplatedFile::new(src.clone(), "syn.sql".to_string(), Some(tpl.clone()), Some(slices), Some(raws)));
    let tf = match tf {
        Ok(Ok(tf)) => tf,
        _ => {
            out.count("synthetic_rejected_by_constructor", 1);
            return;
        }
    };
    lex_part(st, "lexsyn", cls, dialect, &tf, &src, &tpl, item_json, rng, out);
}

fn run_one(st: &mut St, it: &(Item, u64), out: &mut Buf) {
    let j = it.0.to_json();
    let mut rng = Rng::new(it.1);
    match &it.0 {
        Item::Placeholder { cls, dialect, style, regex, src, vals } => run_placeholder(st, cls, dialect, style, regex, src, vals, &j, &mut rng, out),
        Item::Synthetic { cls, dialect, parts } => run_synthetic(st, cls, dialect, parts, &j, &mut rng, out),
    }
}

// ------------------------------------------------------------------ generators
const BASES: &[&str] = &[
    "SELECT a, b FROM tab WHERE c = 1\n",
    "SELECT user_mail, city_id\nFROM users_data\nWHERE userid = 42 AND date > '2020-01-01'\n",
    "select  a ,b  from t\nwhere  x  in (1, 2, 3)\n",
    "SELECT 'some text' AS s, \"Quoted\" AS q -- trailing comment\nFROM t1 JOIN t2 ON t1.id = t2.id\n",
    "INSERT INTO t (a, b) VALUES (1, 'x'), (2, 'y');\n",
    "/* block\n   comment */ SELECT COUNT(*) FROM schema1.tbl1 GROUP BY 1 ORDER BY 1 DESC LIMIT 10",
    "UPDATE t SET a = a + 1, b = 'z'   WHERE id >= 10;\n\nDELETE FROM t WHERE id < 3;\n",
    "SELECT\n    CASE WHEN a > 0 THEN 'p' ELSE 'n' END AS sign,\n    SUM(v) OVER (PARTITION BY g)\nFROM tt\n",
    "USE db1.schema_name;",
    "",
    "SELECT 1",
    "  \n\t SELECT a::int, b || 'c' FROM t;   ",
];
const NAMES: &[&str] = &["x", "y", "user_id", "n1", "param_style", "a_b"];

/// Text of placeholder number `k` (1-based) in a style; returns (text, key under which its value is configured).
fn placeholder(rng: &mut Rng, style: &str, k: usize) -> (String, String) {
    let name = NAMES[rng.below(NAMES.len())].to_string();
    let num = format!("{}", rng.range(1, 3));
    match style {
        "colon" | "colon_nospaces" => (format!(":{}", name), name),
        "numeric_colon" => (format!(":{}", num), num),
        "pyformat" => (format!("%({})s", name), name),
        "dollar" => {
            if rng.chance(1, 2) {
                (format!("${}", name), name)
            } else {
                (format!("${{{}}}", name), name)
            }
        }
        "flyway_var" => (format!("${{flyway:{}}}", name), format!("flyway:{}", name)),
        "question_mark" => ("?".to_string(), format!("{}", k)),
        "numeric_dollar" => {
            if rng.chance(1, 2) {
                (format!("${}", num), num)
            } else {
                (format!("${{{}}}", num), num)
            }
        }
        "percent" => ("%s".to_string(), format!("{}", k)),
        "ampersand" => {
            if rng.chance(1, 2) {
                (format!("&{}", name), name)
            } else {
                (format!("&{{{}}}", name), name)
            }
        }
        "apache_camel" => (format!(":#${{{}}}", name), name),
        "custom_named" => (format!("__{}__", name), name),
        // custom regexes whose `param_name` group is optional: one file holds named and positional placeholders
        "custom_mixed_qmark_colon" => match rng.below(5) {
            0 | 1 => ("?".to_string(), format!("{}", k)),
            2 => (format!(":{}", num), num),
            _ => (format!(":{}", name), name),
        },
        "custom_mixed_pyformat" => {
            if rng.chance(1, 2) {
                ("%s".to_string(), format!("{}", k))
            } else {
                (format!("%({})s", name), name)
            }
        }
        "custom_mixed_braces" => {
            if rng.chance(1, 2) {
                ("${}".to_string(), format!("{}", k))
            } else {
                (format!("${{{}}}", name), name)
            }
        }
        "custom_mixed_numeric" => {
            if rng.chance(1, 2) {
                ("?".to_string(), format!("{}", k))
            } else {
                (format!("${}", num), num)
            }
        }
        // other capture groups beside `param_name` (named and unnamed, one of them optional)
        "custom_extra_groups" => {
            let sigil = if rng.chance(1, 2) { "@" } else { "!" };
            if rng.chance(1, 3) {
                (format!("{}t.{}", sigil, name), name)
            } else {
                (format!("{}{}", sigil, name), name)
            }
        }
        // the named group may match the empty string: a *named* placeholder whose name is ""
        "custom_empty_name" => {
            if rng.chance(1, 2) {
                ("~".to_string(), String::new())
            } else {
                (format!("~{}", name), name)
            }
        }
        _ => ("@@".to_string(), format!("{}", k)), // custom_positional
    }
}

fn gen_value(rng: &mut Rng, ph_len: usize) -> Option<Val> {
    Some(match rng.below(20) {
        0 | 1 => return None, // absent: the name itself
        2 => Val::I(rng.below(10) as i32),
        3 => Val::I([42, -7, 1000000, 0, i32::MIN, i32::MAX][rng.below(6)]),
        4 => Val::B(rng.chance(1, 2)),
        5 => Val::S(String::new()),
        6 => Val::S("a".into()),
        7 => Val::S("ab"[..ph_len.min(2)].to_string() + &"c".repeat(ph_len.saturating_sub(2))), // same length
        8 => Val::S("'2020-01-01'".into()),
        9 => Val::S("(1, 2, 3)".into()),
        10 => Val::S("a, b".into()),
        11 => Val::S(" b".into()),
        12 => Val::S("a ".into()),
        13 => Val::S("  ".into()),
        14 => Val::S("1,\n  2".into()),
        15 => Val::S("\n".into()),
        16 => Val::S("t -- c\n".into()),
        17 => Val::S("some_long_identifier_name".into()),
        18 => {
            if rng.chance(1, 6) {
                if rng.chance(1, 2) { Val::F } else { Val::None }
            } else {
                Val::S("'it''s'".into())
            }
        }
        _ => Val::S(" ".into()),
    })
}

/// Split a base query into crude pieces (words, whitespace runs, single other chars).
fn pieces(s: &str) -> Vec<String> {
    let mut out: Vec<String> = vec![];
    let mut cur = String::new();
    let mut kind = 0u8;
    for ch in s.chars() {
        let k = if ch.is_alphanumeric() || ch == '_' {
            1
        } else if ch == ' ' || ch == '\t' {
            2
        } else {
            3
        };
        if k != kind || k == 3 {
            if !cur.is_empty() {
                out.push(std::mem::take(&mut cur));
            }
            kind = k;
        }
        cur.push(ch);
    }
    if !cur.is_empty() {
        out.push(cur);
    }
    out
}

const STYLES: &[&str] = &[
    "colon", "colon_nospaces", "numeric_colon", "pyformat", "dollar", "flyway_var", "question_mark", "numeric_dollar", "percent", "ampersand", "apache_camel",
    "custom_named", "custom_positional",
    "custom_mixed_qmark_colon", "custom_mixed_pyformat", "custom_mixed_braces", "custom_mixed_numeric", "custom_extra_groups", "custom_empty_name",
];

/// `param_regex` of the custom styles (everything in `STYLES` that is not a built-in style).
fn custom_regex(style: &str) -> Option<&'static str> {
    Some(match style {
        "custom_named" => r"__(?P<param_name>[\w_]+)__",
        "custom_positional" => "@@",
        "custom_mixed_qmark_colon" => r"\?|(?<!:):(?P<param_name>\w+)",
        "custom_mixed_pyformat" => r"%s|%\((?P<param_name>[\w_]+)\)s",
        "custom_mixed_braces" => r"\$\{(?P<param_name>\w+)?\}",
        "custom_mixed_numeric" => r"\?|\$(?P<param_name>\d+)",
        "custom_extra_groups" => r"(?P<sigil>[@!])(\w+\.)?(?P<param_name>\w+)",
        "custom_empty_name" => r"~(?P<param_name>\w*)",
        _ => return None,
    })
}

fn gen_placeholder(rng: &mut Rng, bases: &[String]) -> Item {
    let style = STYLES[rng.below(STYLES.len())];
    let regex = custom_regex(style).map(|r| r.to_string());
    let base = &bases[rng.below(bases.len())];
    let mut ps = pieces(base);
    let n = [0, 1, 1, 2, 2, 3, 4][rng.below(7)];
    let mut vals: Vec<(String, Val)> = vec![];
    let mut cls = "separate";
    for k in 1..=n {
        let (text, key) = placeholder(rng, style, k);
        if let Some(v) = gen_value(rng, text.len()) {
            // `param_style` / `param_regex` are configuration keys of the same map: a placeholder of that
            // name renders as the configured style, but giving it a "value" would change the style itself
            if !vals.iter().any(|(k2, _)| *k2 == key) && key != "param_style" && key != "param_regex" {
                vals.push((key, v));
            }
        }
        let words: Vec<usize> = ps.iter().enumerate().filter(|(_, p)| p.chars().next().map(|c| c.is_alphanumeric()).unwrap_or(false)).map(|(i, _)| i).collect();
        match rng.below(9) {
            0 if !words.is_empty() => {
                // glued to an identifier
                let i = words[rng.below(words.len())];
                ps[i].push_str(&text);
                cls = "glued";
            }
            1 if !words.is_empty() => {
                let i = words[rng.below(words.len())];
                ps[i] = format!("{}{}", text, ps[i]);
                cls = "glued";
            }
            2 => {
                // inside a quoted string
                if let Some(i) = ps.iter().position(|p| p == "'") {
                    ps.insert(i + 1, format!(" {} ", text));
                } else {
                    ps.push(format!(" ' {} {} '", text, text));
                }
                cls = "in-string";
            }
            3 => {
                ps.insert(0, text);
                cls = "file-start";
            }
            4 => {
                ps.push(text);
                cls = "file-end";
            }
            5 => {
                // adjacent placeholders
                let i = rng.below(ps.len() + 1);
                let (t2, k2) = placeholder(rng, style, k);
                let _ = k2;
                ps.insert(i, format!("{}{}", text, t2));
                cls = "adjacent";
            }
            6 => {
                // inside a whitespace run
                if let Some(i) = ps.iter().position(|p| p.starts_with(' ')) {
                    ps[i] = format!("  {}  ", text);
                } else {
                    ps.push(format!("  {}  ", text));
                }
                cls = "in-whitespace";
            }
            _ if !words.is_empty() => {
                // replaces a word: a separate token
                let i = words[rng.below(words.len())];
                ps[i] = text;
            }
            _ => ps.push(format!(" {}", text)),
        }
    }
    let src: String = ps.concat();
    let dialect = if rng.chance(1, 4) { DIALECTS[rng.below(DIALECTS.len())] } else { "ansi" };
    Item::Placeholder { cls: format!("{}/{}", style, cls), dialect: dialect.to_string(), style: style.to_string(), regex, src, vals }
}

/// Synthetic slice lists over a rendered string of words, blanks, commas, quotes and newlines,
/// cut at arbitrary offsets (so that tokens straddle borders densely).
fn gen_synthetic(rng: &mut Rng, malformed: bool) -> Item {
    const TOK: &[&str] = &["ab", "c", " ", "  ", "   ", ",", "'q r'", "\n", "1", "x_y", "(", ")", "=", "\t", "-- k\n", "/* m */"];
    let ntok = rng.range(1, 14);
    let mut tpl = String::new();
    for _ in 0..ntok {
        let lim = if rng.chance(1, 2) { 6 } else { TOK.len() };
        tpl.push_str(TOK[rng.below(lim)]);
    }
    // cut points
    let ncut = rng.below(6);
    let mut cuts: Vec<usize> = (0..ncut).map(|_| rng.below(tpl.len() + 1)).collect();
    cuts.push(0);
    cuts.push(tpl.len());
    cuts.sort();
    let mut parts: Vec<(String, String, String)> = vec![];
    let zero = |rng: &mut Rng, parts: &mut Vec<(String, String, String)>| {
        if rng.chance(1, 4) {
            let ty = ["templated", "comment", "block_start", "block_end", "literal"][rng.below(5)];
            let s = ["{{x}}", "{# c #}", "{% if a %}", "", ":p"][rng.below(5)];
            parts.push((ty.to_string(), if ty == "literal" { String::new() } else { s.to_string() }, String::new()));
        }
    };
    let mut lit_next = rng.chance(1, 2);
    for w in cuts.windows(2) {
        zero(rng, &mut parts);
        let t = &tpl[w[0]..w[1]];
        if t.is_empty() && rng.chance(1, 2) {
            continue;
        }
        if lit_next {
            parts.push(("literal".into(), t.to_string(), t.to_string()));
        } else {
            let s = ["{{x}}", ":p", "", "{{ a_long_expression }}", "?"][rng.below(5)];
            let ty = if malformed && rng.chance(1, 3) { ["block_start", "comment", "escaped"][rng.below(3)] } else { "templated" };
            parts.push((ty.to_string(), s.to_string(), t.to_string()));
        }
        lit_next = if rng.chance(1, 5) { lit_next } else { !lit_next };
    }
    zero(rng, &mut parts);
    Item::Synthetic { cls: if malformed { "synthetic-malformed".into() } else { "synthetic".into() }, dialect: "ansi".into(), parts }
}

fn ph(style: &str, src: &str, vals: &[(&str, Val)]) -> Item {
    Item::Placeholder {
        cls: "regression".into(),
        dialect: "ansi".into(),
        style: style.into(),
        regex: None,
        src: src.into(),
        vals: vals.iter().map(|(k, v)| (k.to_string(), v.clone())).collect(),
    }
}

/// regression input for one of the custom regexes of `custom_regex`
fn phc(style: &str, src: &str, vals: &[(&str, Val)]) -> Item {
    match ph(style, src, vals) {
        Item::Placeholder { cls, dialect, style, src, vals, .. } => {
            let regex = custom_regex(&style).map(|r| r.to_string());
            Item::Placeholder { cls, dialect, style, regex, src, vals }
        }
        other => other,
    }
}

pub fn main(args: &Args) {
    silence_panics();
    if args.extra.iter().any(|a| a == "--legacy") {
        LEGACY.store(true, std::sync::atomic::Ordering::Relaxed);
    }
    let mut out = Out::new(&args.out);
    let mut rng = Rng::new(args.seed);
    let mut items: Vec<(Item, u64)> = vec![];
    if let Some(path) = args.flag("--replay-input") {
        let v: J = serde_json::from_str(&std::fs::read_to_string(path).unwrap()).unwrap();
        let v = if v.get("input").is_some() { v["input"].clone() } else { v };
        items.push((Item::from_json(&v), 1));
    } else {
        // regression corpus: the confirmed defects first
        let reg = vec![
            ph("colon", "SELECT a FROM t WHERE d > :start_date AND e = 1\n", &[("start_date", Val::S("'2020-01-01'".into()))]),
            ph("colon", "SELECT ' :x :x ' FROM t", &[("x", Val::I(1))]),
            ph("colon_nospaces", "SELECT a, b FROM tab:x WHERE c:x = 1", &[]),
            ph("colon", "ab:x c", &[("x", Val::I(1))]),
            ph("colon_nospaces", "ab:x cd:x", &[("x", Val::I(1))]),
            ph("colon", "SELECT a :x", &[("x", Val::S(" b".into()))]),
            ph("colon", "SELECT :x :y", &[("x", Val::S("a ".into())), ("y", Val::S(" b".into()))]),
            ph("colon", "a :x :y b", &[("x", Val::S("".into())), ("y", Val::S("".into()))]),
            ph("colon", "SELECT :x,\n   b  from t\n", &[("x", Val::I(1))]),
            ph("colon", "SELECT :param_style", &[]),
            ph("question_mark", "SELECT ?, ? FROM t WHERE a = ?", &[("1", Val::S("'a'".into())), ("3", Val::I(3))]),
            // custom regexes: named and positional placeholders in one file, names colliding with positions,
            // other capture groups, an empty name
            phc("custom_mixed_qmark_colon", "SELECT :a, ?, :1, ? FROM t WHERE b = ?\n", &[("1", Val::I(10)), ("2", Val::S("'two'".into())), ("a", Val::S("x, y".into()))]),
            phc("custom_mixed_braces", "SELECT ${}, ${n1}, ${} FROM ${}\n", &[("2", Val::S("b".into())), ("n1", Val::S("".into()))]),
            phc("custom_mixed_pyformat", "SELECT %(x)s FROM t WHERE a = %s AND b = %(y)s AND c = %s\n", &[("1", Val::I(-7)), ("x", Val::S("a, b".into()))]),
            phc("custom_extra_groups", "SELECT @x, !t.y FROM @tt.user_id", &[("y", Val::S("'2020-01-01'".into()))]),
            phc("custom_empty_name", "SELECT ~, ~x, a~ FROM t", &[("x", Val::I(1))]),
        ];
        for r in reg {
            let s = rng.next();
            items.push((r, s));
        }
        let mut bases: Vec<String> = BASES.iter().map(|s| s.to_string()).collect();
        // some corpus variety: short rule snippets
        let snippets = rule_snippets();
        let mut k = 0;
        for (_, s) in snippets.iter() {
            if s.len() < 160 && s.is_ascii() && !s.contains('\r') {
                k += 1;
                if k % 9 == 0 {
                    bases.push(s.clone());
                }
            }
        }
        let (n_ph, n_syn, n_mal) = if args.thorough() { (36000, 30000, 3000) } else { (2400, 2000, 200) };
        for _ in 0..n_ph {
            let it = gen_placeholder(&mut rng, &bases);
            let s = rng.next();
            items.push((it, s));
        }
        for _ in 0..n_syn {
            let it = gen_synthetic(&mut rng, false);
            let s = rng.next();
            items.push((it, s));
        }
        for _ in 0..n_mal {
            let it = gen_synthetic(&mut rng, true);
            let s = rng.next();
            items.push((it, s));
        }
    }
    par_run(&mut out, &items, St::default, run_one);
    out.finish();
}
