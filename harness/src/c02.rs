//! C02 — parsing never drops, duplicates or reorders tokens.
//! For every input: lex with the dialect's lexer, parse with `Parser::parse`, take the root
//! grammar match recorded by the `root_parse` hook, and
//!  * observe the property directly (leaves of the tree minus inserted metas == lexer tokens:
//!    ids, raws, positions, order; tree text == token text; file root);
//!  * monitor `WF` on the recorded `MatchResult` (hypothesis of the Coq theorems);
//!  * emit the correspondence case `root_parse tokens match == real tree` and
//!    `append`/`wrap` cases on operand pairs taken from the recorded match.
use std::collections::{HashMap, HashSet};

use serde_json::{Value, json};
use sqruff_lib::core::config::FluffConfig;
use sqruff_lib_core::dialects::syntax::SyntaxKind;
use sqruff_lib_core::parser::lexer::StringOrTemplate;
use sqruff_lib_core::parser::context::ParseContext;
use sqruff_lib_core::parser::match_result::{MatchResult, Matched};
use sqruff_lib_core::parser::matchable::{Matchable, MatchableTrait, MatchableTraitImpl};
use sqruff_lib_core::parser::parser::Parser;
use sqruff_lib_core::parser::segments::base::{ErasedSegment, Tables};
use sqruff_lib_core::parser::segments::file::verif_hook;

use crate::common::*;

pub fn kind_n(k: SyntaxKind) -> usize {
    k as usize
}
pub fn is_ins_meta_kind(k: SyntaxKind) -> bool {
    matches!(k, SyntaxKind::Indent | SyntaxKind::Dedent | SyntaxKind::Implicit)
}

// ---------------------------------------------------------------- Gallina printers
pub fn g_tok(t: &ErasedSegment) -> String {
    format!("(mkTok {} {} {})", t.id(), kind_n(t.get_type()), g_bool(t.is_code()))
}
pub fn g_mr(m: &MatchResult) -> String {
    let matched = match &m.matched {
        None => "None".to_string(),
        Some(Matched::SyntaxKind(k)) => format!("(Some (MKind {}))", kind_n(*k)),
        Some(Matched::Newtype(k)) => format!("(Some (MNewtype {}))", kind_n(*k)),
    };
    format!(
        "(MR {} {} {} {} {})",
        m.span.start,
        m.span.end,
        matched,
        g_list(m.insert_segments.iter().map(|(p, k)| format!("({},{})", p, kind_n(*k)))),
        g_list(m.child_matches.iter().map(g_mr))
    )
}
pub fn g_tree(t: &ErasedSegment, tok_ids: &std::collections::HashSet<u32>) -> String {
    if t.segments().is_empty() {
        if tok_ids.contains(&t.id()) {
            format!("(Tok {} {})", t.id(), kind_n(t.get_type()))
        } else {
            format!("(Meta {} 0)", kind_n(t.get_type()))
        }
    } else {
        format!("(Node {} {})", kind_n(t.get_type()), g_list(t.segments().iter().map(|c| g_tree(c, tok_ids))))
    }
}

// ---------------------------------------------------------------- WF monitor (mirror of Apply.Model.wf)
pub fn has_match(m: &MatchResult) -> bool {
    m.span.start != m.span.end || !m.insert_segments.is_empty()
}
/// mirror of Apply.Model.produces: `apply` yields at least one segment
fn produces(m: &MatchResult) -> bool {
    m.span.start != m.span.end || !m.insert_segments.is_empty() || m.child_matches.iter().any(produces)
}
fn wf_node(n: u32, m: &MatchResult) -> Result<(), String> {
    let (s, e) = (m.span.start, m.span.end);
    let sp: Vec<(u32, u32)> = m.child_matches.iter().map(|c| (c.span.start, c.span.end)).collect();
    let ins = &m.insert_segments;
    if !(s <= e && e <= n) {
        return Err(format!("span {s}..{e} not within 0..{n}"));
    }
    for c in &sp {
        if !(s <= c.0 && c.0 <= c.1 && c.1 <= e) {
            return Err(format!("child {}..{} not nested in {s}..{e}", c.0, c.1));
        }
    }
    for c in &sp {
        for d in &sp {
            if c.0 < d.0 && !(c.1 <= d.0) {
                return Err(format!("children {}..{} and {}..{} overlap", c.0, c.1, d.0, d.1));
            }
        }
        for q in ins {
            if c.0 < q.0 && !(c.1 <= q.0) {
                return Err(format!("insert at {} inside child {}..{}", q.0, c.0, c.1));
            }
        }
    }
    for (i, c) in sp.iter().enumerate() {
        for d in &sp[i + 1..] {
            if c.0 == d.0 && c.1 != c.0 {
                return Err(format!("children {}..{} and {}..{} start together", c.0, c.1, d.0, d.1));
            }
        }
    }
    for q in ins {
        if !(s <= q.0 && q.0 <= e) {
            return Err(format!("insert at {} outside {s}..{e}", q.0));
        }
    }
    if !(ins.is_empty() || n > 0) {
        return Err("insert over an empty token array".into());
    }
    match &m.matched {
        None => {}
        Some(Matched::SyntaxKind(k)) => {
            if !(s != e || !ins.is_empty() || m.child_matches.iter().any(produces)) {
                return Err(format!("empty node match of kind {:?} at {s}", k));
            }
        }
        Some(Matched::Newtype(k)) => {
            if !(e == s + 1 && ins.is_empty() && sp.is_empty()) {
                return Err(format!("Newtype {:?} over {s}..{e} with {} inserts, {} children", k, ins.len(), sp.len()));
            }
        }
    }
    Ok(())
}
pub fn wf(n: u32, m: &MatchResult) -> Result<(), String> {
    for c in &m.child_matches {
        wf(n, c)?;
    }
    wf_node(n, m)
}
pub fn start_end_idx(tokens: &[ErasedSegment]) -> (u32, u32) {
    let si = tokens.iter().position(|s| s.is_code()).unwrap_or(0) as u32;
    let ei = tokens.iter().rposition(|s| s.is_code()).map_or(si, |i| i as u32 + 1);
    (si, ei)
}
pub fn wf_root(tokens: &[ErasedSegment], m: &MatchResult) -> Result<(), String> {
    wf(tokens.len() as u32, m)?;
    let (si, ei) = start_end_idx(tokens);
    if m.span.start != si {
        return Err(format!("root match starts at {} not at start_idx {}", m.span.start, si));
    }
    if m.span.end > ei {
        return Err(format!("root match ends at {} after end_idx {}", m.span.end, ei));
    }
    Ok(())
}
/// children in list order are sorted and disjoint (stronger than WF; measured only)
fn sorted_children(m: &MatchResult) -> bool {
    m.child_matches.windows(2).all(|w| w[0].span.end <= w[1].span.start) && m.child_matches.iter().all(sorted_children)
}
fn mr_size(m: &MatchResult) -> usize {
    1 + m.child_matches.iter().map(mr_size).sum::<usize>()
}

// ---------------------------------------------------------------- inputs
pub struct Item {
    pub cls: &'static str,
    pub dialect: String,
    pub sql: String,
}

pub struct Ctx {
    cfgs: HashMap<String, FluffConfig>,
    orcs: HashMap<String, Oracle>,
}
impl Ctx {
    pub fn new() -> Ctx {
        Ctx { cfgs: HashMap::new(), orcs: HashMap::new() }
    }
    pub fn cfg(&mut self, dialect: &str) -> &FluffConfig {
        self.cfgs
            .entry(dialect.to_string())
            .or_insert_with(|| FluffConfig::from_source(&format!("[sqruff]\ndialect = {}\n", dialect), None))
    }
    /// the dialect's configuration together with its "can any terminal match this token" oracle
    pub fn parts(&mut self, dialect: &str) -> (&FluffConfig, &mut Oracle) {
        self.cfg(dialect);
        let cfg = &self.cfgs[dialect];
        let orc = self.orcs.entry(dialect.to_string()).or_insert_with(|| Oracle::new(cfg));
        (cfg, orc)
    }
}

// ---------------------------------------------------------------- "text the grammar cannot match"
/// Second sentence of C02, observed directly: a code token that *no terminal parser anywhere in the
/// dialect's grammar library* accepts (keyword / string / multi-string / typed / regex parsers, each asked
/// through its real `match_segments` on the one-token stream) cannot be matched by the grammar, so in a
/// returned tree it has to sit under an `unparsable` node (or the parse must be reported as an error).
/// The only grammar element that takes a token without looking at it is `Anything`: node kinds whose own
/// grammar (up to the next NodeMatcher) contains `Anything` are exempt.
pub struct Oracle {
    /// string / multi-string / regex parsers (look at the raw) and typed parsers (look at the token's types)
    raw_terminals: Vec<(Matchable, SyntaxKind)>,
    typed_terminals: Vec<(Matchable, SyntaxKind)>,
    /// a NodeMatcher also accepts, unchanged, a token that already has its node kind
    node_kinds: HashSet<SyntaxKind>,
    anything_kinds: HashSet<SyntaxKind>,
    /// per node kind: the `Bracketed` grammars in `ParseMode::Strict` of its own grammar (up to the next NodeMatcher)
    strict_brackets: HashMap<SyntaxKind, Vec<Matchable>>,
    typed_cache: HashMap<SyntaxKind, HashSet<SyntaxKind>>,
    raw_cache: HashMap<(SyntaxKind, String), HashSet<SyntaxKind>>,
    /// (raw, separator to put after it) of probe strings that lex to one code token no terminal accepts
    pub junk: Vec<(String, &'static str)>,
}

const CANDIDATES: &[&str] = &[
    "\u{a7}", "\u{a4}", "\u{1}", "\u{7f}", "\u{20ac}", "#", "?", "??", "$", "$$", "@", "@@", "`", "\\", "!", "!!", "~", "^", "|", "||", "&", "&&", "%", ":", "::", ":=", "=>", "->", "->>",
    "<=>", "<>", "!=", "==", "<<", ">>", "{", "}", "\u{ab}", "\u{2026}", "\u{00d7}",
];

fn children_of(m: &Matchable, lib: &HashMap<String, Matchable>, follow_refs: bool) -> (Vec<Matchable>, Vec<Matchable>) {
    // (elements, terminator-like)
    let any = |a: &sqruff_lib_core::parser::grammar::anyof::AnyNumberOf| {
        let mut t: Vec<Matchable> = a.terminators.clone();
        t.extend(a.exclude.iter().cloned());
        (a.verif_elements().to_vec(), t)
    };
    match m.verif_inner() {
        MatchableTraitImpl::Ref(r) => {
            let mut t = r.verif_terminators().to_vec();
            t.extend(r.verif_exclude().cloned());
            let e = if follow_refs { lib.get(r.verif_reference()).cloned().into_iter().collect() } else { vec![] };
            (e, t)
        }
        MatchableTraitImpl::Sequence(s) => (s.verif_elements().to_vec(), s.terminators.clone()),
        MatchableTraitImpl::Bracketed(b) => (b.this.verif_elements().to_vec(), b.this.terminators.clone()),
        MatchableTraitImpl::AnyNumberOf(a) => any(a),
        MatchableTraitImpl::Delimited(d) => {
            let (e, mut t) = any(&d.base);
            t.push(d.verif_delimiter().clone());
            (e, t)
        }
        MatchableTraitImpl::NodeMatcher(n) => (vec![n.verif_match_grammar().clone()], vec![]),
        MatchableTraitImpl::Anything(a) => (vec![], a.verif_terminators().to_vec()),
        _ => (vec![], vec![]),
    }
}

impl Oracle {
    pub fn new(cfg: &FluffConfig) -> Oracle {
        let d = cfg.get_dialect();
        let lib: HashMap<String, Matchable> = d.verif_library().filter_map(|(n, m)| m.map(|m| (n.to_string(), m.clone()))).collect();
        // every matchable of the library (refs are library entries themselves, so they need not be followed)
        let mut seen: HashSet<usize> = HashSet::new();
        let mut all: Vec<Matchable> = vec![];
        let mut work: Vec<Matchable> = lib.values().cloned().collect();
        while let Some(m) = work.pop() {
            if !seen.insert(m.verif_ptr()) {
                continue;
            }
            let (e, t) = children_of(&m, &lib, false);
            work.extend(e);
            work.extend(t);
            all.push(m);
        }
        let mut raw_terminals = vec![];
        let mut typed_terminals = vec![];
        let mut node_kinds = HashSet::new();
        for m in &all {
            match m.verif_inner() {
                MatchableTraitImpl::StringParser(p) => raw_terminals.push((m.clone(), p.verif_kind())),
                MatchableTraitImpl::MultiStringParser(p) => raw_terminals.push((m.clone(), p.verif_kind())),
                MatchableTraitImpl::RegexParser(p) => raw_terminals.push((m.clone(), p.verif_kind())),
                MatchableTraitImpl::TypedParser(p) => typed_terminals.push((m.clone(), p.verif_kind())),
                MatchableTraitImpl::NodeMatcher(n) => {
                    node_kinds.insert(n.get_type());
                }
                _ => {}
            }
        }
        // node kinds whose grammar reaches `Anything` before the next NodeMatcher
        let mut anything_kinds = HashSet::new();
        let mut strict_brackets: HashMap<SyntaxKind, Vec<Matchable>> = HashMap::new();
        for m in &all {
            if let MatchableTraitImpl::NodeMatcher(n) = m.verif_inner() {
                let mut seen2: HashSet<usize> = HashSet::new();
                let mut work2 = vec![n.verif_match_grammar().clone()];
                while let Some(x) = work2.pop() {
                    if !seen2.insert(x.verif_ptr()) {
                        continue;
                    }
                    match x.verif_inner() {
                        MatchableTraitImpl::Anything(_) => {
                            anything_kinds.insert(n.get_type());
                        }
                        MatchableTraitImpl::NodeMatcher(_) => {}
                        _ => {
                            if let MatchableTraitImpl::Bracketed(b) = x.verif_inner() {
                                if b.this.parse_mode == sqruff_lib_core::parser::types::ParseMode::Strict {
                                    strict_brackets.entry(n.get_type()).or_default().push(x.clone());
                                }
                            }
                            work2.extend(children_of(&x, &lib, true).0)
                        }
                    }
                }
            }
        }
        let mut o = Oracle { raw_terminals, typed_terminals, node_kinds, anything_kinds, strict_brackets, typed_cache: HashMap::new(), raw_cache: HashMap::new(), junk: vec![] };
        // which probes lex to exactly one code token that nothing accepts (and how to separate them from
        // what follows: the last-resort lexer swallows the rest of the line)
        let tables = Tables::default();
        for c in CANDIDATES {
            for sep in [" ", "\n"] {
                let probe = format!("{}{}1", c, sep);
                if let Ok((t, _)) = lex(cfg, &tables, &probe) {
                    if t.len() >= 3 && t[0].raw().as_str() == *c && t[0].is_code() && t[2].raw().as_str() == "1" && o.accepted_kinds(cfg, &t[0]).is_empty() {
                        o.junk.push((c.to_string(), sep));
                        break;
                    }
                }
            }
        }
        o
    }
    pub fn n_terminals(&self) -> usize {
        self.raw_terminals.len() + self.typed_terminals.len()
    }

    fn ask(cfg: &FluffConfig, ms: &[(Matchable, SyntaxKind)], tok: &ErasedSegment) -> HashSet<SyntaxKind> {
        let parser: Parser = cfg.into();
        let segs = [tok.clone()];
        let mut kinds = HashSet::new();
        for (m, k) in ms {
            let mut cx = ParseContext::new(cfg.get_dialect(), parser.indentation_config());
            match catch(|| m.match_segments(&segs, 0, &mut cx)) {
                Ok(Ok(r)) if !r.has_match() => {}
                // a match (or an error / a panic: not provably a refusal)
                _ => {
                    kinds.insert(*k);
                }
            }
        }
        kinds
    }

    /// the kinds under which some terminal parser of the dialect accepts the lexer token `tok`
    /// (each terminal is asked through its real `match_segments` on the one-token stream)
    pub fn accepted_kinds(&mut self, cfg: &FluffConfig, tok: &ErasedSegment) -> HashSet<SyntaxKind> {
        let l = tok.get_type();
        if !self.typed_cache.contains_key(&l) {
            let mut ks = Self::ask(cfg, &self.typed_terminals, tok);
            if self.node_kinds.contains(&l) {
                ks.insert(l);
            }
            self.typed_cache.insert(l, ks);
        }
        let key = (l, tok.raw().to_string());
        if !self.raw_cache.contains_key(&key) {
            let ks = Self::ask(cfg, &self.raw_terminals, tok);
            self.raw_cache.insert(key.clone(), ks);
        }
        self.typed_cache[&l].union(&self.raw_cache[&key]).copied().collect()
    }
}

/// ids of the first and last child of the `bracketed` node that has the leaf `id` as a direct child
fn enclosing_bracket(t: &ErasedSegment, id: u32) -> Option<(u32, u32)> {
    for c in t.segments() {
        if c.segments().is_empty() {
            if c.id() == id && t.get_type() == SyntaxKind::Bracketed {
                return Some((t.segments().first()?.id(), t.segments().last()?.id()));
            }
        } else if let Some(r) = enclosing_bracket(c, id) {
            return Some(r);
        }
    }
    None
}

/// Diagnosis of finding F2 (notes/C02.md; repaired in the repo, this only annotates the message should it come
/// back): the content `Sequence` of a Strict `Bracketed` of the node `owner` runs out of
/// tokens before a required element and reports its failure as an empty match *at the end index*, which
/// `Bracketed::match_segments` (`content_match.span.end != end_idx`) takes for a complete match. Re-run the real
/// content grammar on the real tokens of the bracket that holds `tok` and look for exactly that signature.
fn strict_bracket_failure_taken_as_complete(cfg: &FluffConfig, orc: &Oracle, tokens: &[ErasedSegment], tree: &ErasedSegment, tok: &ErasedSegment, owner: Option<SyntaxKind>) -> bool {
    let Some(owner) = owner else { return false };
    let Some(brs) = orc.strict_brackets.get(&owner) else { return false };
    let Some((first, last)) = enclosing_bracket(tree, tok.id()) else { return false };
    let pos = |id: u32| tokens.iter().position(|t| t.id() == id);
    let (Some(s), Some(e)) = (pos(first), pos(last)) else { return false };
    // as in Bracketed::match_segments: skip to code after the opening bracket, back to code before the closing one
    let mut idx = s + 1;
    while idx < tokens.len() && !tokens[idx].is_code() {
        idx += 1;
    }
    let mut end_idx = e;
    while end_idx > idx && !tokens[end_idx - 1].is_code() {
        end_idx -= 1;
    }
    if idx >= end_idx {
        return false;
    }
    let parser: Parser = cfg.into();
    brs.iter().any(|b| {
        let MatchableTraitImpl::Bracketed(b) = b.verif_inner() else { return false };
        let mut cx = ParseContext::new(cfg.get_dialect(), parser.indentation_config());
        match catch(|| b.this.match_segments(&tokens[..end_idx], idx as u32, &mut cx)) {
            Ok(Ok(m)) => !m.has_match() && m.span.start == end_idx as u32,
            _ => false,
        }
    })
}

fn unparsable_parents(t: &ErasedSegment, out: &mut Vec<SyntaxKind>) {
    for c in t.segments() {
        if c.get_type() == SyntaxKind::Unparsable {
            out.push(t.get_type());
        }
        unparsable_parents(c, out);
    }
}

/// leaves of `t` (token ids) that are outside every `unparsable` node, with the kinds on their path
fn outside_unparsable(t: &ErasedSegment, path: &mut Vec<SyntaxKind>, out: &mut HashMap<u32, (SyntaxKind, Vec<SyntaxKind>)>) {
    if t.get_type() == SyntaxKind::Unparsable {
        return;
    }
    if t.segments().is_empty() {
        out.insert(t.id(), (t.get_type(), path.clone()));
        return;
    }
    path.push(t.get_type());
    for c in t.segments() {
        outside_unparsable(c, path, out);
    }
    path.pop();
}

pub fn lex(cfg: &FluffConfig, tables: &Tables, sql: &str) -> Result<(Vec<ErasedSegment>, usize), String> {
    catch(|| cfg.get_dialect().lexer().lex(tables, StringOrTemplate::String(sql)))
        .and_then(|r| r.map_err(|e| format!("{:?}", e)))
        .map(|(t, errs)| (t, errs.len()))
}

const KEYWORDS: &[&str] = &["SELECT", "FROM", "WHERE", ")", "(", ",", ";", "JOIN", "AS", "1", "'x'", "foo", "CASE", "END", "BY", "--c\n", "/*c*/"];

/// Token-level corruptions of `sql` (token boundaries from the real lexer).
fn mutate(rng: &mut Rng, raws: &[String]) -> String {
    let mut v: Vec<String> = raws.to_vec();
    let code: Vec<usize> = (0..v.len()).filter(|&i| !v[i].trim().is_empty()).collect();
    if code.is_empty() {
        return v.concat();
    }
    let nops = rng.range(1, 3);
    for _ in 0..nops {
        if v.is_empty() {
            break;
        }
        let code: Vec<usize> = (0..v.len()).filter(|&i| !v[i].trim().is_empty()).collect();
        if code.is_empty() {
            break;
        }
        let i = code[rng.below(code.len())];
        match rng.below(6) {
            0 => {
                v.remove(i);
            }
            1 => {
                let x = v[i].clone();
                v.insert(i, " ".into());
                v.insert(i, x);
            }
            2 => {
                let j = code[rng.below(code.len())];
                v.swap(i, j);
            }
            3 => {
                let kw = KEYWORDS[rng.below(KEYWORDS.len())];
                v.insert(i, " ".into());
                v.insert(i, kw.to_string());
            }
            4 => {
                v.truncate(i);
            }
            _ => {
                let j = code[rng.below(code.len())];
                let (a, b) = (i.min(j), i.max(j));
                v.drain(a..b);
            }
        }
    }
    v.concat()
}

const JUNK: &[&str] = &[
    "",
    " ",
    "\n",
    "\n\n  \n",
    "-- only a comment",
    "-- only a comment\n",
    "/* c */",
    "  /* c */  \n-- x\n",
    ";",
    ";;",
    " ; ",
    ")",
    "(",
    "((",
    "))",
    "()",
    "SELECT",
    "SELECT ",
    " SELECT 1",
    "\nSELECT 1\n",
    "SELECT 1;",
    "SELECT 1 ;  ",
    "SELECT 1; -- c",
    "SELECT 1;; SELECT 2",
    "SELECT 1 SELECT 2",
    "SELECT (1",
    "SELECT 1)",
    "SELECT 1) FROM t",
    "SELECT a FROM (SELECT b FROM",
    "SELECT a,, b FROM t",
    "SELECT FROM WHERE",
    "FROM t SELECT a",
    "foo bar baz",
    "1 2 3",
    "SELECT a FROM t WHERE",
    "SELECT a FROM t WHERE ;",
    "SELECT a FROM t ORDER",
    "SELECT CASE WHEN a THEN b",
    "SELECT a FROM t; garbage here; SELECT 2",
    "garbage; SELECT 1",
    "SELECT 'unterminated",
    "SELECT \"unterminated",
    "SELECT /* unterminated",
    "SELECT a\r\nFROM t\r\n",
    "SELECT\ta\tFROM\tt",
    "SELECT 'multi\nline' FROM t",
    "SELECT 'é', \"ü\" FROM t -- ñ",
    "CREATE TABLE t (a int",
    "CREATE TABLE t (a int))",
    "INSERT INTO t VALUES (1, 2",
    "WITH a AS (SELECT 1) ",
    "WITH a AS (SELECT 1) SELECT",
    "SELECT a FROM t JOIN",
    "SELECT [a] FROM t",
    "SELECT {a} FROM t",
    "SELECT a FROM t LIMIT",
    "BEGIN; SELECT 1; END",
];

fn deep_brackets(n: usize) -> String {
    format!("SELECT {}1{} FROM t", "(".repeat(n), ")".repeat(n))
}

// ---------------------------------------------------------------- one input
fn short_hash(s: &str) -> String {
    // FNV-1a, enough for a key
    let mut h: u64 = 0xcbf29ce484222325;
    for b in s.as_bytes() {
        h ^= *b as u64;
        h = h.wrapping_mul(0x100000001b3);
    }
    format!("{:012x}", h & 0xffff_ffff_ffff)
}

fn thorough_tier() -> bool {
    std::env::args().any(|a| a == "thorough")
}
fn args_ops_all() -> bool {
    std::env::var("SQV_C02_ALL_OPS").is_ok()
}

fn collect_ops(m: &MatchResult, out: &mut Vec<(MatchResult, MatchResult)>, limit: usize) {
    // all sibling pairs (bounded), those carrying inserts of their own first: they exercise the
    // flattening of `insert_segments` in append/wrap
    fn walk(m: &MatchResult, all: &mut Vec<(MatchResult, MatchResult)>) {
        for w in m.child_matches.windows(2) {
            if all.len() >= 400 {
                return;
            }
            all.push((w[0].clone(), w[1].clone()));
        }
        for c in &m.child_matches {
            walk(c, all);
        }
    }
    let mut all = vec![];
    walk(m, &mut all);
    all.sort_by_key(|(a, b)| {
        let small = mr_size(a) + mr_size(b) <= 60;
        let ins = !a.insert_segments.is_empty() || !b.insert_segments.is_empty();
        (!(small && ins), !small)
    });
    out.extend(all.into_iter().take(limit));
}

pub struct Parsed {
    pub tokens: Vec<ErasedSegment>,
    pub lex_errors: usize,
    pub root: Option<verif_hook::RootMatch>,
    /// Ok(Some(tree)) | Ok(None) (parse error) | Err(panic message)
    pub result: Result<Option<ErasedSegment>, String>,
}

pub fn lex_and_parse(cfg: &FluffConfig, tables: &Tables, sql: &str) -> Result<Parsed, String> {
    let (tokens, lex_errors) = lex(cfg, tables, sql)?;
    let parser: Parser = cfg.into();
    let _ = verif_hook::take();
    let result = catch(|| parser.parse(tables, &tokens, None)).map(|r| match r {
        Ok(t) => t,
        Err(_) => None,
    });
    let root = verif_hook::take();
    Ok(Parsed { tokens, lex_errors, root, result })
}

fn run_one(cx: &mut Ctx, it: &Item, out: &mut Buf) {
    let input = json!({"dialect": it.dialect, "sql": it.sql});
    let (cfg, orc) = cx.parts(&it.dialect);
    let tables = Tables::default();
    out.count("inputs", 1);
    let p = match lex_and_parse(cfg, &tables, &it.sql) {
        Ok(p) => p,
        Err(msg) => {
            // the lexer itself failed: outside C02 (C01/C03), counted
            out.count("lexer_failed", 1);
            let _ = msg;
            return;
        }
    };
    if p.lex_errors > 0 {
        out.count("inputs_with_lex_errors", 1);
    }
    let tokens = &p.tokens;
    if tokens.is_empty() {
        out.count("no_tokens", 1);
        return;
    }
    let tok_ids: std::collections::HashSet<u32> = tokens.iter().map(|t| t.id()).collect();
    out.hyp("token_ids_distinct", "blocking", tok_ids.len() == tokens.len(), json!({"input": input}));
    out.hyp(
        "tokens_are_leaves_without_inserted_meta_kinds",
        "blocking",
        tokens.iter().all(|t| t.segments().is_empty() && !is_ins_meta_kind(t.get_type())),
        json!({"input": input}),
    );
    let key_base = format!("{}:{}", it.dialect, short_hash(&it.sql));

    // ---- direct observation of the property
    let (cls_res, exp_g): (&str, String) = match &p.result {
        Err(msg) => {
            out.count("parse_panics", 1);
            // a reference to a keyword the dialect does not define panics in `Dialect::ref` (the C14 defect):
            // keyed by (dialect, keyword); any other panic is keyed by the input
            let key = match msg.strip_prefix("Grammar refers to the '").and_then(|r| r.split_once("' keyword which was not found")) {
                Some((kw, _)) => format!("c02-dangling-keyword:{}:{}", it.dialect, kw),
                None => format!("c02-panic:{}", key_base),
            };
            out.direct(it.cls, false, &key, &format!("Parser::parse panicked (neither a tree nor a parse error): {}", trunc(msg, 300)), input.clone());
            ("panic", "None".to_string())
        }
        Ok(None) => {
            out.count("parse_errors", 1);
            out.direct(it.cls, true, "", "", Value::Null);
            ("parse-error", "(Some PErr)".to_string())
        }
        Ok(Some(tree)) => {
            if it.cls == "replay" && std::env::var("SQV_C02_DUMP_TREE").is_ok() {
                fn dump(t: &ErasedSegment, d: usize) {
                    if t.segments().is_empty() {
                        eprintln!("{}{:?} {:?}", "  ".repeat(d), t.get_type(), t.raw());
                    } else {
                        eprintln!("{}{:?}", "  ".repeat(d), t.get_type());
                        for c in t.segments() {
                            dump(c, d + 1);
                        }
                    }
                }
                dump(tree, 0);
            }
            let leaves: Vec<ErasedSegment> = tree.get_raw_segments();
            let kept: Vec<&ErasedSegment> = leaves.iter().filter(|l| !(is_ins_meta_kind(l.get_type()) && !tok_ids.contains(&l.id()))).collect();
            let mut why = String::new();
            if tree.get_type() != SyntaxKind::File {
                why = format!("root is {:?}, not a file", tree.get_type());
            } else if kept.len() != tokens.len() {
                why = format!("{} non-meta leaves for {} tokens", kept.len(), tokens.len());
            } else {
                for (i, (l, t)) in kept.iter().zip(tokens.iter()).enumerate() {
                    let (lp, tp) = (l.get_position_marker(), t.get_position_marker());
                    let pos_same = match (lp, tp) {
                        (Some(a), Some(b)) => a.source_slice == b.source_slice && a.templated_slice == b.templated_slice && a.working_loc() == b.working_loc(),
                        _ => false,
                    };
                    if l.id() != t.id() || l.raw() != t.raw() || !pos_same {
                        why = format!("leaf {} is id {} {:?}, token is id {} {:?} (positions equal: {})", i, l.id(), l.raw(), t.id(), t.raw(), pos_same);
                        break;
                    }
                }
            }
            if why.is_empty() {
                let text: String = tokens.iter().map(|t| t.raw().as_str()).collect();
                if tree.raw().as_str() != text {
                    why = "tree text differs from the token text".into();
                } else if p.lex_errors == 0 && text != it.sql {
                    // lexer lossless-ness is C01; only counted here
                    out.count("token_text_differs_from_input_without_lex_error", 1);
                }
            }
            let has_unparsable = tree.recursive_crawl_all(false).iter().any(|s| s.get_type() == SyntaxKind::Unparsable);
            if has_unparsable {
                out.count("trees_with_unparsable", 1);
            }
            out.direct(it.cls, why.is_empty(), &format!("c02-leaves:{}", key_base), &why, input.clone());
            // ---- second sentence: what the grammar cannot match is under `unparsable` (or an error was returned).
            // Every terminal parser re-tags the token it accepts (`Matched::Newtype(kind)`), so a code leaf outside
            // the unparsable nodes that still has its lexer kind must be a token that some terminal accepts under
            // that very kind; otherwise nothing in the grammar matched it and it was kept silently.
            {
                let mut outside = HashMap::new();
                outside_unparsable(tree, &mut vec![], &mut outside);
                let mut bad = String::new();
                let mut bad_key = String::new();
                let (mut asked, mut exempt) = (0usize, 0usize);
                for t in tokens.iter().filter(|t| t.is_code() && !t.is_meta()) {
                    let Some((kind, path)) = outside.get(&t.id()) else { continue };
                    if *kind != t.get_type() {
                        continue; // re-tagged by a terminal
                    }
                    asked += 1;
                    if orc.accepted_kinds(cfg, t).contains(kind) {
                        continue;
                    }
                    // nearest ancestor that is a grammar node of its own (brackets are built by `Bracketed`)
                    let owner = path.iter().rev().find(|k| **k != SyntaxKind::Bracketed).copied();
                    if owner.map_or(false, |k| orc.anything_kinds.contains(&k)) {
                        exempt += 1;
                    } else if bad.is_empty() {
                        let owner_s = owner.map_or("none".to_string(), |k| format!("{:?}", k).to_lowercase());
                        let f2 = strict_bracket_failure_taken_as_complete(cfg, orc, tokens, tree, t, owner);
                        bad_key = format!("c02-unmatched-kept-silently:{}:{}", it.dialect, owner_s);
                        bad = format!(
                            "token {:?} (id {}, {:?}) keeps its lexer kind, which none of the {} terminal parsers of the {} grammar gives to it, yet it is outside every unparsable node (path {}) and no parse error is returned{}",
                            t.raw(), t.id(), t.get_type(), orc.n_terminals(), it.dialect,
                            path.iter().map(|k| format!("{:?}", k).to_lowercase()).collect::<Vec<_>>().join(">"),
                            if f2 { format!(" [diagnosed: the Strict content sequence of a bracket of {} fails at the end index and Bracketed takes the empty match for a complete one]", owner_s) } else { String::new() }
                        );
                    }
                }
                out.count("leaves_with_lexer_kind_checked_against_terminals", asked);
                out.count("unmatched_tokens_under_anything_exempt", exempt);
                out.direct(it.cls, bad.is_empty(), &bad_key, &bad, input.clone());
            }
            // where the unparsable sections were produced (coverage of the greedy paths of the engine)
            let mut parents = vec![];
            unparsable_parents(tree, &mut parents);
            for k in parents {
                out.count(&format!("unparsable_under_{}", format!("{:?}", k).to_lowercase()), 1);
            }
            (if has_unparsable { "tree-unparsable" } else { "tree-clean" }, format!("(Some (POk {}))", g_tree(tree, &tok_ids)))
        }
    };
    out.count(&format!("result_{}", cls_res), 1);

    // ---- WF monitor and correspondence case
    let (si, ei) = start_end_idx(tokens);
    let (gm_g, wf_ok, root_mr) = match &p.root {
        Some(r) => {
            if r.start_idx != si || r.end_idx != ei {
                out.hyp("root_span_is_first_to_last_code_token", "blocking", false, json!({"input": input, "recorded": [r.start_idx, r.end_idx], "expected": [si, ei]}));
            } else {
                out.hyp("root_span_is_first_to_last_code_token", "blocking", true, Value::Null);
            }
            let w = wf_root(tokens, &r.match_result);
            out.hyp("H_WF_root_match", "blocking", w.is_ok(), json!({"input": input, "why": w.clone().err()}));
            out.count("match_nodes", mr_size(&r.match_result));
            if !sorted_children(&r.match_result) {
                out.count("matches_with_unsorted_children", 1);
            }
            if r.match_result.span.end < ei && has_match(&r.match_result) {
                out.count("matches_with_unmatched_tail", 1);
            }
            if !has_match(&r.match_result) {
                out.count("matches_empty", 1);
            }
            (format!("(GOk {})", g_mr(&r.match_result)), w.is_ok(), Some(&r.match_result))
        }
        None => {
            // no grammar call (no code token) or the grammar returned Err / panicked
            if si != ei {
                out.count("grammar_err_or_panic", 1);
            } else {
                out.count("no_code_tokens", 1);
            }
            ("GErr".to_string(), true, None)
        }
    };
    // a panic inside the grammar (before root_parse's apply) is not in the model's domain
    let grammar_panicked = p.result.is_err() && p.root.is_none() && si != ei;
    let limit = 260;
    // thorough tier: every other input is replayed through Coq (all are observed directly)
    let sampled = if it.cls.starts_with("gap-junk") {
        // observed directly on every input; one in 24 (thorough: 120) is also replayed through the Gallina root_parse
        u64::from_str_radix(&short_hash(&it.sql)[..6], 16).unwrap_or(0) % (if thorough_tier() { 120 } else { 24 }) == 0
    } else {
        !thorough_tier() || short_hash(&it.sql).as_bytes()[10] % 2 == 0
    };
    if tokens.len() <= limit && !grammar_panicked && sampled {
        let args = g_tuple(&[g_list(tokens.iter().map(g_tok)), gm_g]);
        let exp = g_tuple(&[g_bool(wf_ok), exp_g]);
        let nontrivial = root_mr.map(|m| mr_size(m) >= 3).unwrap_or(false);
        let sample = json!({"input": input, "tokens": tokens.len(), "result": cls_res});
        out.case("root", it.cls, nontrivial, args, exp, sample);
    } else {
        out.count("root_cases_skipped_too_large_or_grammar_panic", 1);
    }

    // ---- append / wrap on operand pairs taken from the recorded match
    let do_ops = (args_ops_all() || short_hash(&it.sql).as_bytes()[11] % 6 == 0) && (!it.cls.starts_with("gap-junk") || sampled);
    if let (Some(m), true) = (root_mr, do_ops) {
        let mut ops = vec![];
        collect_ops(m, &mut ops, 2);
        let n = tokens.len() as u32;
        for (k, (a, b)) in ops.iter().enumerate() {
            if mr_size(a) + mr_size(b) > 60 {
                continue;
            }
            let r = catch(|| a.clone().verif_append(b));
            if let Ok(r) = r {
                let pre = wf(n, a).is_ok() && wf(n, b).is_ok() && a.span.end <= b.span.start;
                if pre {
                    out.hyp("append_preserves_WF_on_real_operands", "blocking", wf(n, &r).is_ok(), json!({"input": input, "a": g_mr(a), "b": g_mr(b)}));
                }
                out.case("append", it.cls, has_match(a) && has_match(b), g_tuple(&[g_mr(a), g_mr(b)]), g_mr(&r), json!({"input": input, "op": "append", "pair": k}));
            }
            if k == 0 {
                let e = MatchResult::empty_at(a.span.end);
                if let Ok(r) = catch(|| a.clone().verif_append(&e)) {
                    out.case("append", it.cls, false, g_tuple(&[g_mr(a), g_mr(&e)]), g_mr(&r), json!({"input": input, "op": "append-empty", "pair": k}));
                }
                if let Ok(r) = catch(|| e.clone().verif_append(b)) {
                    out.case("append", it.cls, false, g_tuple(&[g_mr(&e), g_mr(b)]), g_mr(&r), json!({"input": input, "op": "empty-append", "pair": k}));
                }
            }
            // the same operands without their name: un-named matches with inserts and children are what
            // NodeMatcher wraps and what Sequence appends (flattening path of both constructors)
            // (inserts are added synthetically at the span ends: when the engine's own wrap/append is
            // broken, recorded matches may carry none)
            let strip = |m: &MatchResult| {
                let mut u = MatchResult { matched: None, ..m.clone() };
                u.insert_segments.insert(0, (m.span.start, SyntaxKind::Indent));
                u.insert_segments.push((m.span.end, SyntaxKind::Dedent));
                u
            };
            let (ua, ub) = (strip(a), strip(b));
            if mr_size(&ua) + mr_size(&ub) <= 60 {
                for (x, y, tag) in [(&ua, &ub, "append-unnamed"), (&ua, b, "append-unnamed-named"), (a, &ub, "append-named-unnamed")] {
                    if let Ok(r) = catch(|| x.clone().verif_append(y)) {
                        let nontriv = has_match(x) && has_match(y) && (!x.insert_segments.is_empty() || !y.insert_segments.is_empty());
                        out.case("append", it.cls, nontriv, g_tuple(&[g_mr(x), g_mr(y)]), g_mr(&r), json!({"input": input, "op": tag, "pair": k}));
                    }
                }
                for x in [&ua, &ub] {
                    if let Ok(r) = catch(|| x.clone().verif_wrap(Matched::SyntaxKind(SyntaxKind::Expression))) {
                        if wf(n, x).is_ok() {
                            out.hyp("wrap_preserves_WF_on_real_operands", "blocking", wf(n, &r).is_ok(), json!({"input": input, "a": g_mr(x)}));
                        }
                        out.case("wrap", it.cls, has_match(x) && !x.insert_segments.is_empty(), g_tuple(&[g_mr(x), g_n(kind_n(SyntaxKind::Expression))]), g_mr(&r), json!({"input": input, "op": "wrap-unnamed", "pair": k}));
                    }
                }
            }
            let kind = SyntaxKind::Expression;
            if let Ok(r) = catch(|| a.clone().verif_wrap(Matched::SyntaxKind(kind))) {
                if wf(n, a).is_ok() {
                    out.hyp("wrap_preserves_WF_on_real_operands", "blocking", wf(n, &r).is_ok(), json!({"input": input, "a": g_mr(a)}));
                }
                out.case("wrap", it.cls, has_match(a), g_tuple(&[g_mr(a), g_n(kind_n(kind))]), g_mr(&r), json!({"input": input, "op": "wrap", "pair": k}));
            }
        }
    }
}

pub fn corpus_items(rng: &mut Rng, thorough: bool, n_cross: usize, n_mut: usize) -> Vec<Item> {
    let mut items: Vec<Item> = vec![];
    let files = corpus();
    // regression / junk stream first
    for d in DIALECTS {
        for j in JUNK {
            if d == "ansi" || thorough || rng.chance(1, 6) {
                items.push(Item { cls: "junk", dialect: d.to_string(), sql: j.to_string() });
            }
        }
    }
    for n in [1usize, 8, 64] {
        items.push(Item { cls: "junk", dialect: "ansi".into(), sql: deep_brackets(n) });
    }
    for f in &files {
        items.push(Item { cls: "corpus", dialect: f.dialect.clone(), sql: f.text.clone() });
    }
    for (i, (_, s)) in rule_snippets().into_iter().enumerate() {
        if thorough || i % 3 == 0 {
            items.push(Item { cls: "rule-snippet", dialect: "ansi".into(), sql: s });
        }
    }
    if thorough {
        for f in &files {
            for d in DIALECTS {
                if d != f.dialect {
                    items.push(Item { cls: "cross-dialect", dialect: d.to_string(), sql: f.text.clone() });
                }
            }
        }
    } else {
        for _ in 0..n_cross {
            let f = &files[rng.below(files.len())];
            let d = DIALECTS[rng.below(DIALECTS.len())];
            if d != f.dialect {
                items.push(Item { cls: "cross-dialect", dialect: d.to_string(), sql: f.text.clone() });
            }
        }
    }
    // token corruptions
    let mut cx = Ctx::new();
    let small: Vec<&CorpusFile> = files.iter().filter(|f| f.text.len() <= 1500).collect();
    for _ in 0..n_mut {
        let f = small[rng.below(small.len())];
        let dialect = if rng.chance(1, 5) { DIALECTS[rng.below(DIALECTS.len())].to_string() } else { f.dialect.clone() };
        let tables = Tables::default();
        let raws: Vec<String> = match lex(cx.cfg(&dialect), &tables, &f.text) {
            Ok((t, _)) => t.iter().map(|t| t.raw().to_string()).collect(),
            Err(_) => continue,
        };
        items.push(Item { cls: "token-corruption", dialect, sql: mutate(rng, &raws) });
    }
    items
}

/// Small well-formed statements that sit on the greedy paths of the engine (bracketed sections parsed in
/// `ParseMode::Greedy`, delimited lists, window specs, scripting blocks ...); junk is inserted at *every* gap of
/// each of them under every dialect (what a dialect cannot parse at all still exercises the root-level paths).
const GREEDY_BASES: &[&str] = &[
    "SELECT a FROM t WHERE x IN (1, 2)\n",
    "INSERT INTO t (a, b) VALUES (1, 2), (3, 4)\n",
    "SELECT a FROM t JOIN u USING (a, b)\n",
    "SELECT SUM(a) OVER (PARTITION BY b ORDER BY c) FROM t\n",
    "SELECT f(a, b), CAST(a AS int) FROM t GROUP BY a ORDER BY b\n",
    "CREATE TABLE t (a int, b varchar(10))\n",
    "SELECT ARRAY[1, 2], a[1] FROM t\n",
    "WITH c AS (SELECT 1) SELECT * FROM c\n",
    "SELECT CASE WHEN a THEN b ELSE c END FROM t;\nSELECT 2;\n",
    "IF x THEN SELECT 1; SELECT 2; END IF;\n",
    "WHILE x DO SELECT 1; SELECT 2; END WHILE;\n",
    "LOOP SELECT 1; BREAK; END LOOP;\n",
    "BEGIN SELECT 1; SELECT 2; END;\n",
    "FOR r IN (SELECT 1) DO SELECT 2; SELECT 3; END FOR;\n",
    "REPEAT SELECT 1; SELECT 2; UNTIL x END REPEAT;\n",
    "CREATE PROCEDURE p() BEGIN SELECT 1; SELECT 2; END;\n",
];
const PLAIN_JUNK: &[&str] = &[",", "foo", "1", ";", "foo;", ")", "(", "SELECT", "'x'", "END", "."];

/// Class `gap-junk`: one junk token inserted into a well-formed input at a token gap. The junk is either a
/// token no terminal of the dialect accepts (then the tree must flag it, see `Oracle`) or an ordinary token.
/// Gaps: right after every opening bracket, right before every closing bracket, right after every `;`
/// (where the greedy modes of Bracketed / Sequence / AnyNumberOf / Delimited decide what is unparsable), and
/// random other gaps.
pub fn gap_items(rng: &mut Rng, thorough: bool) -> Vec<Item> {
    let mut items = vec![];
    let mut cx = Ctx::new();
    let tables = Tables::default();
    let files = corpus();
    let mut bases: Vec<(String, String, bool)> = vec![]; // (dialect, text, dense)
    for d in DIALECTS {
        for b in GREEDY_BASES {
            bases.push((d.to_string(), b.to_string(), true));
        }
    }
    for f in files.iter().filter(|f| f.text.len() <= 1500) {
        bases.push((f.dialect.clone(), f.text.clone(), false));
    }
    for (dialect, text, dense) in bases {
        let (cfg, orc) = cx.parts(&dialect);
        let toks = match lex(cfg, &tables, &text) {
            Ok((t, _)) => t,
            Err(_) => continue,
        };
        let raws: Vec<String> = toks.iter().map(|t| t.raw().to_string()).collect();
        let code: Vec<usize> = (0..toks.len()).filter(|&i| toks[i].is_code() && !toks[i].raw().is_empty()).collect();
        if code.is_empty() {
            continue;
        }
        // gap g = "insert before token g"
        let is_open = |i: usize| matches!(raws[i].as_str(), "(" | "[" | "{");
        let is_close = |i: usize| matches!(raws[i].as_str(), ")" | "]" | "}");
        let next_code = |i: usize| code.iter().copied().find(|&j| j > i);
        let mut after_open: Vec<usize> = code.iter().copied().filter(|&i| is_open(i)).filter_map(next_code).collect();
        let mut before_close: Vec<usize> = code.iter().copied().filter(|&i| is_close(i)).collect();
        let mut after_semi: Vec<usize> = code.iter().copied().filter(|&i| raws[i] == ";").filter_map(next_code).collect();
        let mut gaps: Vec<usize> = vec![];
        if dense || thorough {
            gaps.extend(code.iter().copied());
            gaps.push(toks.len());
        } else {
            rng.shuffle(&mut after_open);
            rng.shuffle(&mut before_close);
            rng.shuffle(&mut after_semi);
            gaps.extend(after_open.iter().take(5));
            gaps.extend(before_close.iter().take(2));
            gaps.extend(after_semi.iter().take(5));
            for _ in 0..3 {
                gaps.push(code[rng.below(code.len())]);
            }
            gaps.sort();
            gaps.dedup();
        }
        let junk = orc.junk.clone();
        for (n, g) in gaps.into_iter().enumerate() {
            let mut js: Vec<(String, &'static str)> = vec![];
            if !junk.is_empty() {
                js.push(junk[(n + g) % junk.len()].clone());
                if dense || thorough {
                    js.push(junk[0].clone()); // an unlexable character, when the dialect has one
                }
            }
            js.push((PLAIN_JUNK[rng.below(PLAIN_JUNK.len())].to_string(), " "));
            if dense {
                js.push((",".to_string(), " "));
                js.push(("foo".to_string(), " "));
            }
            js.dedup();
            for (j, sep) in js {
                let mut sql = raws[..g.min(raws.len())].concat();
                if g >= raws.len() && !sql.ends_with(|c: char| c.is_whitespace()) {
                    sql.push(' ');
                }
                sql.push_str(&j);
                sql.push_str(sep);
                sql.push_str(&raws[g.min(raws.len())..].concat());
                items.push(Item { cls: if dense { "gap-junk-greedy-site" } else { "gap-junk-corpus" }, dialect: dialect.clone(), sql });
            }
        }
    }
    items
}

pub fn main(args: &Args) {
    silence_panics();
    let mut out = Out::new(&args.out);
    let mut rng = Rng::new(args.seed);
    let items: Vec<Item> = if let Some(path) = args.flag("--replay-input") {
        let v: Value = serde_json::from_str(&std::fs::read_to_string(path).unwrap()).unwrap();
        let v = if v.get("input").is_some() { v["input"].clone() } else { v };
        vec![Item { cls: "replay", dialect: v["dialect"].as_str().unwrap_or("ansi").to_string(), sql: v["sql"].as_str().unwrap_or("").to_string() }]
    } else {
        let mut v = if args.thorough() { corpus_items(&mut rng, true, 0, 30000) } else { corpus_items(&mut rng, false, 400, 900) };
        let only = args.flag("--only-class");
        v.extend(gap_items(&mut rng, args.thorough()));
        if let Some(c) = only {
            v.retain(|i| i.cls.starts_with(c.as_str()));
        }
        v
    };
    par_run(&mut out, &items, Ctx::new, run_one);
    out.finish();
}
