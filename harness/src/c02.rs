//! C02 — parsing never drops, duplicates or reorders tokens.
//! For every input: lex with the dialect's lexer, parse with `Parser::parse`, take the root
//! grammar match recorded by the `root_parse` hook, and
//!  * observe the property directly (leaves of the tree minus inserted metas == lexer tokens:
//!    ids, raws, positions, order; tree text == token text; file root);
//!  * monitor `WF` on the recorded `MatchResult` (hypothesis of the Coq theorems);
//!  * emit the correspondence case `root_parse tokens match == real tree` and
//!    `append`/`wrap` cases on operand pairs taken from the recorded match.
use std::collections::HashMap;

use serde_json::{Value, json};
use sqruff_lib::core::config::FluffConfig;
use sqruff_lib_core::dialects::syntax::SyntaxKind;
use sqruff_lib_core::parser::lexer::StringOrTemplate;
use sqruff_lib_core::parser::match_result::{MatchResult, Matched};
use sqruff_lib_core::parser::parser::Parser;
use sqruff_lib_core::parser::segments::base::{ErasedSegment, Tables};
use sqruff_lib_core::parser::segments::file::verif_hook;

use crate::common::*;

pub fn kind_n(k: SyntaxKind) -> usize {
    k as usize
}
pub fn is_ins_meta_kind(k: SyntaxKind) -> bool {
    matches!(k, SyntaxKind::Indent | SyntaxKind::Dedent | SyntaxKind::Implicit)
}

// ---------------------------------------------------------------- Gallina printers
pub fn g_tok(t: &ErasedSegment) -> String {
    format!("(mkTok {} {} {})", t.id(), kind_n(t.get_type()), g_bool(t.is_code()))
}
pub fn g_mr(m: &MatchResult) -> String {
    let matched = match &m.matched {
        None => "None".to_string(),
        Some(Matched::SyntaxKind(k)) => format!("(Some (MKind {}))", kind_n(*k)),
        Some(Matched::Newtype(k)) => format!("(Some (MNewtype {}))", kind_n(*k)),
    };
    format!(
        "(MR {} {} {} {} {})",
        m.span.start,
        m.span.end,
        matched,
        g_list(m.insert_segments.iter().map(|(p, k)| format!("({},{})", p, kind_n(*k)))),
        g_list(m.child_matches.iter().map(g_mr))
    )
}
pub fn g_tree(t: &ErasedSegment, tok_ids: &std::collections::HashSet<u32>) -> String {
    if t.segments().is_empty() {
        if tok_ids.contains(&t.id()) {
            format!("(Tok {} {})", t.id(), kind_n(t.get_type()))
        } else {
            format!("(Meta {} 0)", kind_n(t.get_type()))
        }
    } else {
        format!("(Node {} {})", kind_n(t.get_type()), g_list(t.segments().iter().map(|c| g_tree(c, tok_ids))))
    }
}

// ---------------------------------------------------------------- WF monitor (mirror of Apply.Model.wf)
pub fn has_match(m: &MatchResult) -> bool {
    m.span.start != m.span.end || !m.insert_segments.is_empty()
}
fn wf_node(n: u32, m: &MatchResult) -> Result<(), String> {
    let (s, e) = (m.span.start, m.span.end);
    let sp: Vec<(u32, u32)> = m.child_matches.iter().map(|c| (c.span.start, c.span.end)).collect();
    let ins = &m.insert_segments;
    if !(s <= e && e <= n) {
        return Err(format!("span {s}..{e} not within 0..{n}"));
    }
    for c in &sp {
        if !(s <= c.0 && c.0 <= c.1 && c.1 <= e) {
            return Err(format!("child {}..{} not nested in {s}..{e}", c.0, c.1));
        }
    }
    for c in &sp {
        for d in &sp {
            if c.0 < d.0 && !(c.1 <= d.0) {
                return Err(format!("children {}..{} and {}..{} overlap", c.0, c.1, d.0, d.1));
            }
        }
        for q in ins {
            if c.0 < q.0 && !(c.1 <= q.0) {
                return Err(format!("insert at {} inside child {}..{}", q.0, c.0, c.1));
            }
        }
    }
    for (i, c) in sp.iter().enumerate() {
        for d in &sp[i + 1..] {
            if c.0 == d.0 && c.1 != c.0 {
                return Err(format!("children {}..{} and {}..{} start together", c.0, c.1, d.0, d.1));
            }
        }
    }
    for q in ins {
        if !(s <= q.0 && q.0 <= e) {
            return Err(format!("insert at {} outside {s}..{e}", q.0));
        }
    }
    if !(ins.is_empty() || n > 0) {
        return Err("insert over an empty token array".into());
    }
    match &m.matched {
        None => {}
        Some(Matched::SyntaxKind(k)) => {
            if !(s != e || !ins.is_empty()) {
                return Err(format!("empty node match of kind {:?} at {s}", k));
            }
        }
        Some(Matched::Newtype(k)) => {
            if !(e == s + 1 && ins.is_empty() && sp.is_empty()) {
                return Err(format!("Newtype {:?} over {s}..{e} with {} inserts, {} children", k, ins.len(), sp.len()));
            }
        }
    }
    Ok(())
}
pub fn wf(n: u32, m: &MatchResult) -> Result<(), String> {
    for c in &m.child_matches {
        wf(n, c)?;
    }
    wf_node(n, m)
}
pub fn start_end_idx(tokens: &[ErasedSegment]) -> (u32, u32) {
    let si = tokens.iter().position(|s| s.is_code()).unwrap_or(0) as u32;
    let ei = tokens.iter().rposition(|s| s.is_code()).map_or(si, |i| i as u32 + 1);
    (si, ei)
}
pub fn wf_root(tokens: &[ErasedSegment], m: &MatchResult) -> Result<(), String> {
    wf(tokens.len() as u32, m)?;
    let (si, ei) = start_end_idx(tokens);
    if m.span.start != si {
        return Err(format!("root match starts at {} not at start_idx {}", m.span.start, si));
    }
    if m.span.end > ei {
        return Err(format!("root match ends at {} after end_idx {}", m.span.end, ei));
    }
    Ok(())
}
/// children in list order are sorted and disjoint (stronger than WF; measured only)
fn sorted_children(m: &MatchResult) -> bool {
    m.child_matches.windows(2).all(|w| w[0].span.end <= w[1].span.start) && m.child_matches.iter().all(sorted_children)
}
fn mr_size(m: &MatchResult) -> usize {
    1 + m.child_matches.iter().map(mr_size).sum::<usize>()
}

// ---------------------------------------------------------------- inputs
pub struct Item {
    pub cls: &'static str,
    pub dialect: String,
    pub sql: String,
}

pub struct Ctx {
    cfgs: HashMap<String, FluffConfig>,
}
impl Ctx {
    pub fn new() -> Ctx {
        Ctx { cfgs: HashMap::new() }
    }
    pub fn cfg(&mut self, dialect: &str) -> &FluffConfig {
        self.cfgs
            .entry(dialect.to_string())
            .or_insert_with(|| FluffConfig::from_source(&format!("[sqruff]\ndialect = {}\n", dialect), None))
    }
}

pub fn lex(cfg: &FluffConfig, tables: &Tables, sql: &str) -> Result<(Vec<ErasedSegment>, usize), String> {
    catch(|| cfg.get_dialect().lexer().lex(tables, StringOrTemplate::String(sql)))
        .and_then(|r| r.map_err(|e| format!("{:?}", e)))
        .map(|(t, errs)| (t, errs.len()))
}

const KEYWORDS: &[&str] = &["SELECT", "FROM", "WHERE", ")", "(", ",", ";", "JOIN", "AS", "1", "'x'", "foo", "CASE", "END", "BY", "--c\n", "/*c*/"];

/// Token-level corruptions of `sql` (token boundaries from the real lexer).
fn mutate(rng: &mut Rng, raws: &[String]) -> String {
    let mut v: Vec<String> = raws.to_vec();
    let code: Vec<usize> = (0..v.len()).filter(|&i| !v[i].trim().is_empty()).collect();
    if code.is_empty() {
        return v.concat();
    }
    let nops = rng.range(1, 3);
    for _ in 0..nops {
        if v.is_empty() {
            break;
        }
        let code: Vec<usize> = (0..v.len()).filter(|&i| !v[i].trim().is_empty()).collect();
        if code.is_empty() {
            break;
        }
        let i = code[rng.below(code.len())];
        match rng.below(6) {
            0 => {
                v.remove(i);
            }
            1 => {
                let x = v[i].clone();
                v.insert(i, " ".into());
                v.insert(i, x);
            }
            2 => {
                let j = code[rng.below(code.len())];
                v.swap(i, j);
            }
            3 => {
                let kw = KEYWORDS[rng.below(KEYWORDS.len())];
                v.insert(i, " ".into());
                v.insert(i, kw.to_string());
            }
            4 => {
                v.truncate(i);
            }
            _ => {
                let j = code[rng.below(code.len())];
                let (a, b) = (i.min(j), i.max(j));
                v.drain(a..b);
            }
        }
    }
    v.concat()
}

const JUNK: &[&str] = &[
    "",
    " ",
    "\n",
    "\n\n  \n",
    "-- only a comment",
    "-- only a comment\n",
    "/* c */",
    "  /* c */  \n-- x\n",
    ";",
    ";;",
    " ; ",
    ")",
    "(",
    "((",
    "))",
    "()",
    "SELECT",
    "SELECT ",
    " SELECT 1",
    "\nSELECT 1\n",
    "SELECT 1;",
    "SELECT 1 ;  ",
    "SELECT 1; -- c",
    "SELECT 1;; SELECT 2",
    "SELECT 1 SELECT 2",
    "SELECT (1",
    "SELECT 1)",
    "SELECT 1) FROM t",
    "SELECT a FROM (SELECT b FROM",
    "SELECT a,, b FROM t",
    "SELECT FROM WHERE",
    "FROM t SELECT a",
    "foo bar baz",
    "1 2 3",
    "SELECT a FROM t WHERE",
    "SELECT a FROM t WHERE ;",
    "SELECT a FROM t ORDER",
    "SELECT CASE WHEN a THEN b",
    "SELECT a FROM t; garbage here; SELECT 2",
    "garbage; SELECT 1",
    "SELECT 'unterminated",
    "SELECT \"unterminated",
    "SELECT /* unterminated",
    "SELECT a\r\nFROM t\r\n",
    "SELECT\ta\tFROM\tt",
    "SELECT 'multi\nline' FROM t",
    "SELECT 'é', \"ü\" FROM t -- ñ",
    "CREATE TABLE t (a int",
    "CREATE TABLE t (a int))",
    "INSERT INTO t VALUES (1, 2",
    "WITH a AS (SELECT 1) ",
    "WITH a AS (SELECT 1) SELECT",
    "SELECT a FROM t JOIN",
    "SELECT [a] FROM t",
    "SELECT {a} FROM t",
    "SELECT a FROM t LIMIT",
    "BEGIN; SELECT 1; END",
];

fn deep_brackets(n: usize) -> String {
    format!("SELECT {}1{} FROM t", "(".repeat(n), ")".repeat(n))
}

// ---------------------------------------------------------------- one input
fn short_hash(s: &str) -> String {
    // FNV-1a, enough for a key
    let mut h: u64 = 0xcbf29ce484222325;
    for b in s.as_bytes() {
        h ^= *b as u64;
        h = h.wrapping_mul(0x100000001b3);
    }
    format!("{:012x}", h & 0xffff_ffff_ffff)
}

fn args_ops_all() -> bool {
    std::env::var("SQV_C02_ALL_OPS").is_ok()
}

fn collect_ops(m: &MatchResult, out: &mut Vec<(MatchResult, MatchResult)>, limit: usize) {
    for w in m.child_matches.windows(2) {
        if out.len() >= limit {
            return;
        }
        out.push((w[0].clone(), w[1].clone()));
    }
    for c in &m.child_matches {
        if out.len() >= limit {
            return;
        }
        collect_ops(c, out, limit);
    }
}

pub struct Parsed {
    pub tokens: Vec<ErasedSegment>,
    pub lex_errors: usize,
    pub root: Option<verif_hook::RootMatch>,
    /// Ok(Some(tree)) | Ok(None) (parse error) | Err(panic message)
    pub result: Result<Option<ErasedSegment>, String>,
}

pub fn lex_and_parse(cfg: &FluffConfig, tables: &Tables, sql: &str) -> Result<Parsed, String> {
    let (tokens, lex_errors) = lex(cfg, tables, sql)?;
    let parser: Parser = cfg.into();
    let _ = verif_hook::take();
    let result = catch(|| parser.parse(tables, &tokens, None)).map(|r| match r {
        Ok(t) => t,
        Err(_) => None,
    });
    let root = verif_hook::take();
    Ok(Parsed { tokens, lex_errors, root, result })
}

fn run_one(cx: &mut Ctx, it: &Item, out: &mut Buf) {
    let input = json!({"dialect": it.dialect, "sql": it.sql});
    let cfg = cx.cfg(&it.dialect);
    let tables = Tables::default();
    out.count("inputs", 1);
    let p = match lex_and_parse(cfg, &tables, &it.sql) {
        Ok(p) => p,
        Err(msg) => {
            // the lexer itself failed: outside C02 (C01/C03), counted
            out.count("lexer_failed", 1);
            let _ = msg;
            return;
        }
    };
    if p.lex_errors > 0 {
        out.count("inputs_with_lex_errors", 1);
    }
    let tokens = &p.tokens;
    if tokens.is_empty() {
        out.count("no_tokens", 1);
        return;
    }
    let tok_ids: std::collections::HashSet<u32> = tokens.iter().map(|t| t.id()).collect();
    out.hyp("token_ids_distinct", "blocking", tok_ids.len() == tokens.len(), json!({"input": input}));
    out.hyp(
        "tokens_are_leaves_without_inserted_meta_kinds",
        "blocking",
        tokens.iter().all(|t| t.segments().is_empty() && !is_ins_meta_kind(t.get_type())),
        json!({"input": input}),
    );
    let key_base = format!("{}:{}", it.dialect, short_hash(&it.sql));

    // ---- direct observation of the property
    let (cls_res, exp_g): (&str, String) = match &p.result {
        Err(msg) => {
            out.count("parse_panics", 1);
            // a reference to a keyword the dialect does not define panics in `Dialect::ref` (the C14 defect):
            // keyed by (dialect, keyword); any other panic is keyed by the input
            let key = match msg.strip_prefix("Grammar refers to the '").and_then(|r| r.split_once("' keyword which was not found")) {
                Some((kw, _)) => format!("c02-dangling-keyword:{}:{}", it.dialect, kw),
                None => format!("c02-panic:{}", key_base),
            };
            out.direct(it.cls, false, &key, &format!("Parser::parse panicked (neither a tree nor a parse error): {}", trunc(msg, 300)), input.clone());
            ("panic", "None".to_string())
        }
        Ok(None) => {
            out.count("parse_errors", 1);
            out.direct(it.cls, true, "", "", Value::Null);
            ("parse-error", "(Some PErr)".to_string())
        }
        Ok(Some(tree)) => {
            let leaves: Vec<ErasedSegment> = tree.get_raw_segments();
            let kept: Vec<&ErasedSegment> = leaves.iter().filter(|l| !(is_ins_meta_kind(l.get_type()) && !tok_ids.contains(&l.id()))).collect();
            let mut why = String::new();
            if tree.get_type() != SyntaxKind::File {
                why = format!("root is {:?}, not a file", tree.get_type());
            } else if kept.len() != tokens.len() {
                why = format!("{} non-meta leaves for {} tokens", kept.len(), tokens.len());
            } else {
                for (i, (l, t)) in kept.iter().zip(tokens.iter()).enumerate() {
                    let (lp, tp) = (l.get_position_marker(), t.get_position_marker());
                    let pos_same = match (lp, tp) {
                        (Some(a), Some(b)) => a.source_slice == b.source_slice && a.templated_slice == b.templated_slice && a.working_loc() == b.working_loc(),
                        _ => false,
                    };
                    if l.id() != t.id() || l.raw() != t.raw() || !pos_same {
                        why = format!("leaf {} is id {} {:?}, token is id {} {:?} (positions equal: {})", i, l.id(), l.raw(), t.id(), t.raw(), pos_same);
                        break;
                    }
                }
            }
            if why.is_empty() {
                let text: String = tokens.iter().map(|t| t.raw().as_str()).collect();
                if tree.raw().as_str() != text {
                    why = "tree text differs from the token text".into();
                } else if p.lex_errors == 0 && text != it.sql {
                    // lexer lossless-ness is C01; only counted here
                    out.count("token_text_differs_from_input_without_lex_error", 1);
                }
            }
            let has_unparsable = tree.recursive_crawl_all(false).iter().any(|s| s.get_type() == SyntaxKind::Unparsable);
            if has_unparsable {
                out.count("trees_with_unparsable", 1);
            }
            out.direct(it.cls, why.is_empty(), &format!("c02-leaves:{}", key_base), &why, input.clone());
            (if has_unparsable { "tree-unparsable" } else { "tree-clean" }, format!("(Some (POk {}))", g_tree(tree, &tok_ids)))
        }
    };
    out.count(&format!("result_{}", cls_res), 1);

    // ---- WF monitor and correspondence case
    let (si, ei) = start_end_idx(tokens);
    let (gm_g, wf_ok, root_mr) = match &p.root {
        Some(r) => {
            if r.start_idx != si || r.end_idx != ei {
                out.hyp("root_span_is_first_to_last_code_token", "blocking", false, json!({"input": input, "recorded": [r.start_idx, r.end_idx], "expected": [si, ei]}));
            } else {
                out.hyp("root_span_is_first_to_last_code_token", "blocking", true, Value::Null);
            }
            let w = wf_root(tokens, &r.match_result);
            out.hyp("H_WF_root_match", "blocking", w.is_ok(), json!({"input": input, "why": w.clone().err()}));
            out.count("match_nodes", mr_size(&r.match_result));
            if !sorted_children(&r.match_result) {
                out.count("matches_with_unsorted_children", 1);
            }
            if r.match_result.span.end < ei && has_match(&r.match_result) {
                out.count("matches_with_unmatched_tail", 1);
            }
            if !has_match(&r.match_result) {
                out.count("matches_empty", 1);
            }
            (format!("(GOk {})", g_mr(&r.match_result)), w.is_ok(), Some(&r.match_result))
        }
        None => {
            // no grammar call (no code token) or the grammar returned Err / panicked
            if si != ei {
                out.count("grammar_err_or_panic", 1);
            } else {
                out.count("no_code_tokens", 1);
            }
            ("GErr".to_string(), true, None)
        }
    };
    // a panic inside the grammar (before root_parse's apply) is not in the model's domain
    let grammar_panicked = p.result.is_err() && p.root.is_none() && si != ei;
    let limit = 260;
    if tokens.len() <= limit && !grammar_panicked {
        let args = g_tuple(&[g_list(tokens.iter().map(g_tok)), gm_g]);
        let exp = g_tuple(&[g_bool(wf_ok), exp_g]);
        let nontrivial = root_mr.map(|m| mr_size(m) >= 3).unwrap_or(false);
        let sample = json!({"input": input, "tokens": tokens.len(), "result": cls_res});
        out.case("root", it.cls, nontrivial, args, exp, sample);
    } else {
        out.count("root_cases_skipped_too_large_or_grammar_panic", 1);
    }

    // ---- append / wrap on operand pairs taken from the recorded match
    let do_ops = args_ops_all() || short_hash(&it.sql).as_bytes()[11] % 4 == 0;
    if let (Some(m), true) = (root_mr, do_ops) {
        let mut ops = vec![];
        collect_ops(m, &mut ops, 3);
        let n = tokens.len() as u32;
        for (k, (a, b)) in ops.iter().enumerate() {
            if mr_size(a) + mr_size(b) > 60 {
                continue;
            }
            let r = catch(|| a.clone().verif_append(b));
            if let Ok(r) = r {
                let pre = wf(n, a).is_ok() && wf(n, b).is_ok() && a.span.end <= b.span.start;
                if pre {
                    out.hyp("append_preserves_WF_on_real_operands", "blocking", wf(n, &r).is_ok(), json!({"input": input, "a": g_mr(a), "b": g_mr(b)}));
                }
                out.case("append", it.cls, has_match(a) && has_match(b), g_tuple(&[g_mr(a), g_mr(b)]), g_mr(&r), json!({"input": input, "op": "append", "pair": k}));
            }
            if k == 0 {
                let e = MatchResult::empty_at(a.span.end);
                if let Ok(r) = catch(|| a.clone().verif_append(&e)) {
                    out.case("append", it.cls, false, g_tuple(&[g_mr(a), g_mr(&e)]), g_mr(&r), json!({"input": input, "op": "append-empty", "pair": k}));
                }
                if let Ok(r) = catch(|| e.clone().verif_append(b)) {
                    out.case("append", it.cls, false, g_tuple(&[g_mr(&e), g_mr(b)]), g_mr(&r), json!({"input": input, "op": "empty-append", "pair": k}));
                }
            }
            let kind = SyntaxKind::Expression;
            if let Ok(r) = catch(|| a.clone().verif_wrap(Matched::SyntaxKind(kind))) {
                if wf(n, a).is_ok() {
                    out.hyp("wrap_preserves_WF_on_real_operands", "blocking", wf(n, &r).is_ok(), json!({"input": input, "a": g_mr(a)}));
                }
                out.case("wrap", it.cls, has_match(a), g_tuple(&[g_mr(a), g_n(kind_n(kind))]), g_mr(&r), json!({"input": input, "op": "wrap", "pair": k}));
            }
        }
    }
}

pub fn corpus_items(rng: &mut Rng, thorough: bool, n_cross: usize, n_mut: usize) -> Vec<Item> {
    let mut items: Vec<Item> = vec![];
    let files = corpus();
    // regression / junk stream first
    for d in DIALECTS {
        for j in JUNK {
            if d == "ansi" || thorough || rng.chance(1, 6) {
                items.push(Item { cls: "junk", dialect: d.to_string(), sql: j.to_string() });
            }
        }
    }
    for n in [1usize, 8, 64] {
        items.push(Item { cls: "junk", dialect: "ansi".into(), sql: deep_brackets(n) });
    }
    for f in &files {
        items.push(Item { cls: "corpus", dialect: f.dialect.clone(), sql: f.text.clone() });
    }
    for (i, (_, s)) in rule_snippets().into_iter().enumerate() {
        if thorough || i % 3 == 0 {
            items.push(Item { cls: "rule-snippet", dialect: "ansi".into(), sql: s });
        }
    }
    if thorough {
        for f in &files {
            for d in DIALECTS {
                if d != f.dialect {
                    items.push(Item { cls: "cross-dialect", dialect: d.to_string(), sql: f.text.clone() });
                }
            }
        }
    } else {
        for _ in 0..n_cross {
            let f = &files[rng.below(files.len())];
            let d = DIALECTS[rng.below(DIALECTS.len())];
            if d != f.dialect {
                items.push(Item { cls: "cross-dialect", dialect: d.to_string(), sql: f.text.clone() });
            }
        }
    }
    // token corruptions
    let mut cx = Ctx::new();
    let small: Vec<&CorpusFile> = files.iter().filter(|f| f.text.len() <= 1500).collect();
    for _ in 0..n_mut {
        let f = small[rng.below(small.len())];
        let dialect = if rng.chance(1, 5) { DIALECTS[rng.below(DIALECTS.len())].to_string() } else { f.dialect.clone() };
        let tables = Tables::default();
        let raws: Vec<String> = match lex(cx.cfg(&dialect), &tables, &f.text) {
            Ok((t, _)) => t.iter().map(|t| t.raw().to_string()).collect(),
            Err(_) => continue,
        };
        items.push(Item { cls: "token-corruption", dialect, sql: mutate(rng, &raws) });
    }
    items
}

pub fn main(args: &Args) {
    silence_panics();
    let mut out = Out::new(&args.out);
    let mut rng = Rng::new(args.seed);
    let items: Vec<Item> = if let Some(path) = args.flag("--replay-input") {
        let v: Value = serde_json::from_str(&std::fs::read_to_string(path).unwrap()).unwrap();
        let v = if v.get("input").is_some() { v["input"].clone() } else { v };
        vec![Item { cls: "replay", dialect: v["dialect"].as_str().unwrap_or("ansi").to_string(), sql: v["sql"].as_str().unwrap_or("").to_string() }]
    } else if args.thorough() {
        corpus_items(&mut rng, true, 0, 30000)
    } else {
        corpus_items(&mut rng, false, 400, 900)
    };
    par_run(&mut out, &items, Ctx::new, run_one);
    out.finish();
}
