//! C02 — parsing never drops, duplicates or reorders tokens.
//! For every input: lex with the dialect's lexer, parse with `Parser::parse`, take the root
//! grammar match recorded by the `root_parse` hook, and
//!  * observe the property directly (leaves of the tree minus inserted metas == lexer tokens:
//!    ids, raws, positions, order; tree text == token text; file root);
//!  * monitor `WF` on the recorded `MatchResult` (hypothesis of the Coq theorems);
//!  * emit the correspondence case `root_parse tokens match == real tree` and
//!    `append`/`wrap` cases on operand pairs taken from the recorded match.
//!
//! Every input runs under a CPU-time watchdog (`par_run_watched`): a parse that does not come back is a
//! concrete failing input ("neither a tree nor a parse error"), not a killed harness.
//! Token streams also come from *templated* files (placeholder templater; values that render to several
//! tokens, cut out of real statements so that tokens repeat inside one templated slice).
//! `sqv c02 --flag-cases` emits, for truncated / element-deleted / grammar-derived cut statements, the
//! root match of the real parser as a case for the Gallina interpreter of the engine (Corr/C02Pem.v).
use std::collections::{HashMap, HashSet};
use std::sync::atomic::{AtomicBool, AtomicUsize, Ordering};
use std::sync::{Arc, Mutex};

use serde_json::{Value, json};
use sqruff_lib::core::config::{FluffConfig, Value as CfgValue};
use sqruff_lib::core::linter::core::Linter;
use sqruff_lib_core::dialects::syntax::SyntaxKind;
use sqruff_lib_core::parser::lexer::StringOrTemplate;
use sqruff_lib_core::parser::context::ParseContext;
use sqruff_lib_core::parser::match_result::{MatchResult, Matched};
use sqruff_lib_core::parser::matchable::{Matchable, MatchableTrait, MatchableTraitImpl};
use sqruff_lib_core::parser::parser::Parser;
use sqruff_lib_core::parser::segments::base::{ErasedSegment, Tables};
use sqruff_lib_core::parser::segments::file::verif_hook;

use crate::c04::Templ;
use crate::common::*;

// the grammar-driven sentence generator of C03 (a private sub-module there; compiled here a second time)
#[allow(dead_code)]
#[path = "c03g.rs"]
mod c03g;

pub fn kind_n(k: SyntaxKind) -> usize {
    k as usize
}
pub fn is_ins_meta_kind(k: SyntaxKind) -> bool {
    matches!(k, SyntaxKind::Indent | SyntaxKind::Dedent | SyntaxKind::Implicit)
}

// ---------------------------------------------------------------- Gallina printers
pub fn g_tok(t: &ErasedSegment) -> String {
    format!("(mkTok {} {} {})", t.id(), kind_n(t.get_type()), g_bool(t.is_code()))
}
pub fn g_mr(m: &MatchResult) -> String {
    let matched = match &m.matched {
        None => "None".to_string(),
        Some(Matched::SyntaxKind(k)) => format!("(Some (MKind {}))", kind_n(*k)),
        Some(Matched::Newtype(k)) => format!("(Some (MNewtype {}))", kind_n(*k)),
    };
    format!(
        "(MR {} {} {} {} {})",
        m.span.start,
        m.span.end,
        matched,
        g_list(m.insert_segments.iter().map(|(p, k)| format!("({},{})", p, kind_n(*k)))),
        g_list(m.child_matches.iter().map(g_mr))
    )
}
pub fn g_tree(t: &ErasedSegment, tok_ids: &std::collections::HashSet<u32>) -> String {
    if t.segments().is_empty() {
        if tok_ids.contains(&t.id()) {
            format!("(Tok {} {})", t.id(), kind_n(t.get_type()))
        } else {
            format!("(Meta {} 0)", kind_n(t.get_type()))
        }
    } else {
        format!("(Node {} {})", kind_n(t.get_type()), g_list(t.segments().iter().map(|c| g_tree(c, tok_ids))))
    }
}

// ---------------------------------------------------------------- WF monitor (mirror of Apply.Model.wf)
pub fn has_match(m: &MatchResult) -> bool {
    m.span.start != m.span.end || !m.insert_segments.is_empty()
}
/// mirror of Apply.Model.produces: `apply` yields at least one segment
fn produces(m: &MatchResult) -> bool {
    m.span.start != m.span.end || !m.insert_segments.is_empty() || m.child_matches.iter().any(produces)
}
fn wf_node(n: u32, m: &MatchResult) -> Result<(), String> {
    let (s, e) = (m.span.start, m.span.end);
    let sp: Vec<(u32, u32)> = m.child_matches.iter().map(|c| (c.span.start, c.span.end)).collect();
    let ins = &m.insert_segments;
    if !(s <= e && e <= n) {
        return Err(format!("span {s}..{e} not within 0..{n}"));
    }
    for c in &sp {
        if !(s <= c.0 && c.0 <= c.1 && c.1 <= e) {
            return Err(format!("child {}..{} not nested in {s}..{e}", c.0, c.1));
        }
    }
    for c in &sp {
        for d in &sp {
            if c.0 < d.0 && !(c.1 <= d.0) {
                return Err(format!("children {}..{} and {}..{} overlap", c.0, c.1, d.0, d.1));
            }
        }
        for q in ins {
            if c.0 < q.0 && !(c.1 <= q.0) {
                return Err(format!("insert at {} inside child {}..{}", q.0, c.0, c.1));
            }
        }
    }
    for (i, c) in sp.iter().enumerate() {
        for d in &sp[i + 1..] {
            if c.0 == d.0 && c.1 != c.0 {
                return Err(format!("children {}..{} and {}..{} start together", c.0, c.1, d.0, d.1));
            }
        }
    }
    for q in ins {
        if !(s <= q.0 && q.0 <= e) {
            return Err(format!("insert at {} outside {s}..{e}", q.0));
        }
    }
    if !(ins.is_empty() || n > 0) {
        return Err("insert over an empty token array".into());
    }
    match &m.matched {
        None => {}
        Some(Matched::SyntaxKind(k)) => {
            if !(s != e || !ins.is_empty() || m.child_matches.iter().any(produces)) {
                return Err(format!("empty node match of kind {:?} at {s}", k));
            }
        }
        Some(Matched::Newtype(k)) => {
            if !(e == s + 1 && ins.is_empty() && sp.is_empty()) {
                return Err(format!("Newtype {:?} over {s}..{e} with {} inserts, {} children", k, ins.len(), sp.len()));
            }
        }
    }
    Ok(())
}
pub fn wf(n: u32, m: &MatchResult) -> Result<(), String> {
    for c in &m.child_matches {
        wf(n, c)?;
    }
    wf_node(n, m)
}
pub fn start_end_idx(tokens: &[ErasedSegment]) -> (u32, u32) {
    let si = tokens.iter().position(|s| s.is_code()).unwrap_or(0) as u32;
    let ei = tokens.iter().rposition(|s| s.is_code()).map_or(si, |i| i as u32 + 1);
    (si, ei)
}
pub fn wf_root(tokens: &[ErasedSegment], m: &MatchResult) -> Result<(), String> {
    wf(tokens.len() as u32, m)?;
    let (si, ei) = start_end_idx(tokens);
    if m.span.start != si {
        return Err(format!("root match starts at {} not at start_idx {}", m.span.start, si));
    }
    if m.span.end > ei {
        return Err(format!("root match ends at {} after end_idx {}", m.span.end, ei));
    }
    Ok(())
}
/// children in list order are sorted and disjoint (stronger than WF; measured only)
fn sorted_children(m: &MatchResult) -> bool {
    m.child_matches.windows(2).all(|w| w[0].span.end <= w[1].span.start) && m.child_matches.iter().all(sorted_children)
}
fn mr_size(m: &MatchResult) -> usize {
    1 + m.child_matches.iter().map(mr_size).sum::<usize>()
}

// ---------------------------------------------------------------- inputs
pub struct Item {
    pub cls: &'static str,
    pub dialect: String,
    pub sql: String,
}

/// An input of the main run: a plain string, or the source of a placeholder-templated file with its parameter values.
pub struct Work {
    pub it: Item,
    pub templ: Option<Templ>,
    /// `Some(dense)`: not an input itself but a well-formed text whose cut variants (`cuts_of`) are the inputs; they are
    /// derived by the worker, because deriving them parses the text and every parse has to run under the watchdog
    pub expand: Option<bool>,
}
impl Work {
    fn plain(it: Item) -> Work {
        Work { it, templ: None, expand: None }
    }
    fn input_json(&self) -> Value {
        match &self.templ {
            None => json!({"dialect": self.it.dialect, "sql": self.it.sql}),
            Some(t) => json!({"dialect": self.it.dialect, "sql": self.it.sql, "templ": {"style": t.style, "regex": t.regex, "params": t.params}}),
        }
    }
}

pub struct Ctx {
    cfgs: HashMap<String, FluffConfig>,
    orcs: HashMap<String, Oracle>,
    templ_base: Option<FluffConfig>,
}
impl Ctx {
    pub fn new() -> Ctx {
        Ctx { cfgs: HashMap::new(), orcs: HashMap::new(), templ_base: None }
    }
    /// Configuration for the placeholder templater with the parameter values of `t`, every value set through the
    /// configuration object (so that multi-line / padded / comment-sign values arrive exactly as intended). Only the
    /// templater reads it; lexer and parser come from the dialect's own configuration.
    pub fn templ_cfg(&mut self, t: &Templ) -> FluffConfig {
        let base = self.templ_base.get_or_insert_with(|| {
            FluffConfig::from_source("[sqruff]\ndialect = ansi\ntemplater = placeholder\n\n[sqruff:templater:placeholder]\nparam_style = colon\n", None)
        });
        let mut cfg = base.clone();
        if let Some(m) = cfg.raw.get_mut("templater").and_then(|x| x.as_map_mut()).and_then(|x| x.get_mut("placeholder")).and_then(|x| x.as_map_mut()) {
            m.remove("param_style");
            match &t.regex {
                Some(r) => m.insert("param_regex".into(), CfgValue::String(r.as_str().into())),
                None => m.insert("param_style".into(), CfgValue::String(t.style.as_str().into())),
            };
            for (k, v) in &t.params {
                if k != "param_style" && k != "param_regex" {
                    m.insert(k.clone(), CfgValue::String(v.as_str().into()));
                }
            }
        }
        cfg
    }
    pub fn cfg(&mut self, dialect: &str) -> &FluffConfig {
        self.cfgs
            .entry(dialect.to_string())
            .or_insert_with(|| FluffConfig::from_source(&format!("[sqruff]\ndialect = {}\n", dialect), None))
    }
    /// the dialect's configuration together with its "can any terminal match this token" oracle
    pub fn parts(&mut self, dialect: &str) -> (&FluffConfig, &mut Oracle) {
        self.cfg(dialect);
        let cfg = &self.cfgs[dialect];
        let orc = self.orcs.entry(dialect.to_string()).or_insert_with(|| Oracle::new(cfg));
        (cfg, orc)
    }
}

// ---------------------------------------------------------------- "text the grammar cannot match"
/// Second sentence of C02, observed directly: a code token that *no terminal parser anywhere in the
/// dialect's grammar library* accepts (keyword / string / multi-string / typed / regex parsers, each asked
/// through its real `match_segments` on the one-token stream) cannot be matched by the grammar, so in a
/// returned tree it has to sit under an `unparsable` node (or the parse must be reported as an error).
/// The only grammar element that takes a token without looking at it is `Anything`: node kinds whose own
/// grammar (up to the next NodeMatcher) contains `Anything` are exempt.
pub struct Oracle {
    /// string / multi-string / regex parsers (look at the raw) and typed parsers (look at the token's types)
    raw_terminals: Vec<(Matchable, SyntaxKind)>,
    typed_terminals: Vec<(Matchable, SyntaxKind)>,
    /// a NodeMatcher also accepts, unchanged, a token that already has its node kind
    node_kinds: HashSet<SyntaxKind>,
    anything_kinds: HashSet<SyntaxKind>,
    /// per node kind: the `Bracketed` grammars in `ParseMode::Strict` of its own grammar (up to the next NodeMatcher)
    strict_brackets: HashMap<SyntaxKind, Vec<Matchable>>,
    typed_cache: HashMap<SyntaxKind, HashSet<SyntaxKind>>,
    raw_cache: HashMap<(SyntaxKind, String), HashSet<SyntaxKind>>,
    /// (raw, separator to put after it) of probe strings that lex to one code token no terminal accepts
    pub junk: Vec<(String, &'static str)>,
}

const CANDIDATES: &[&str] = &[
    "\u{a7}", "\u{a4}", "\u{1}", "\u{7f}", "\u{20ac}", "#", "?", "??", "$", "$$", "@", "@@", "`", "\\", "!", "!!", "~", "^", "|", "||", "&", "&&", "%", ":", "::", ":=", "=>", "->", "->>",
    "<=>", "<>", "!=", "==", "<<", ">>", "{", "}", "\u{ab}", "\u{2026}", "\u{00d7}",
];

fn children_of(m: &Matchable, lib: &HashMap<String, Matchable>, follow_refs: bool) -> (Vec<Matchable>, Vec<Matchable>) {
    // (elements, terminator-like)
    let any = |a: &sqruff_lib_core::parser::grammar::anyof::AnyNumberOf| {
        let mut t: Vec<Matchable> = a.terminators.clone();
        t.extend(a.exclude.iter().cloned());
        (a.verif_elements().to_vec(), t)
    };
    match m.verif_inner() {
        MatchableTraitImpl::Ref(r) => {
            let mut t = r.verif_terminators().to_vec();
            t.extend(r.verif_exclude().cloned());
            let e = if follow_refs { lib.get(r.verif_reference()).cloned().into_iter().collect() } else { vec![] };
            (e, t)
        }
        MatchableTraitImpl::Sequence(s) => (s.verif_elements().to_vec(), s.terminators.clone()),
        MatchableTraitImpl::Bracketed(b) => (b.this.verif_elements().to_vec(), b.this.terminators.clone()),
        MatchableTraitImpl::AnyNumberOf(a) => any(a),
        MatchableTraitImpl::Delimited(d) => {
            let (e, mut t) = any(&d.base);
            t.push(d.verif_delimiter().clone());
            (e, t)
        }
        MatchableTraitImpl::NodeMatcher(n) => (vec![n.verif_match_grammar().clone()], vec![]),
        MatchableTraitImpl::Anything(a) => (vec![], a.verif_terminators().to_vec()),
        _ => (vec![], vec![]),
    }
}

impl Oracle {
    pub fn new(cfg: &FluffConfig) -> Oracle {
        let d = cfg.get_dialect();
        let lib: HashMap<String, Matchable> = d.verif_library().filter_map(|(n, m)| m.map(|m| (n.to_string(), m.clone()))).collect();
        // every matchable of the library (refs are library entries themselves, so they need not be followed)
        let mut seen: HashSet<usize> = HashSet::new();
        let mut all: Vec<Matchable> = vec![];
        let mut work: Vec<Matchable> = lib.values().cloned().collect();
        while let Some(m) = work.pop() {
            if !seen.insert(m.verif_ptr()) {
                continue;
            }
            let (e, t) = children_of(&m, &lib, false);
            work.extend(e);
            work.extend(t);
            all.push(m);
        }
        let mut raw_terminals = vec![];
        let mut typed_terminals = vec![];
        let mut node_kinds = HashSet::new();
        for m in &all {
            match m.verif_inner() {
                MatchableTraitImpl::StringParser(p) => raw_terminals.push((m.clone(), p.verif_kind())),
                MatchableTraitImpl::MultiStringParser(p) => raw_terminals.push((m.clone(), p.verif_kind())),
                MatchableTraitImpl::RegexParser(p) => raw_terminals.push((m.clone(), p.verif_kind())),
                MatchableTraitImpl::TypedParser(p) => typed_terminals.push((m.clone(), p.verif_kind())),
                MatchableTraitImpl::NodeMatcher(n) => {
                    node_kinds.insert(n.get_type());
                }
                _ => {}
            }
        }
        // node kinds whose grammar reaches `Anything` before the next NodeMatcher
        let mut anything_kinds = HashSet::new();
        let mut strict_brackets: HashMap<SyntaxKind, Vec<Matchable>> = HashMap::new();
        for m in &all {
            if let MatchableTraitImpl::NodeMatcher(n) = m.verif_inner() {
                let mut seen2: HashSet<usize> = HashSet::new();
                let mut work2 = vec![n.verif_match_grammar().clone()];
                while let Some(x) = work2.pop() {
                    if !seen2.insert(x.verif_ptr()) {
                        continue;
                    }
                    match x.verif_inner() {
                        MatchableTraitImpl::Anything(_) => {
                            anything_kinds.insert(n.get_type());
                        }
                        MatchableTraitImpl::NodeMatcher(_) => {}
                        _ => {
                            if let MatchableTraitImpl::Bracketed(b) = x.verif_inner() {
                                if b.this.parse_mode == sqruff_lib_core::parser::types::ParseMode::Strict {
                                    strict_brackets.entry(n.get_type()).or_default().push(x.clone());
                                }
                            }
                            work2.extend(children_of(&x, &lib, true).0)
                        }
                    }
                }
            }
        }
        let mut o = Oracle { raw_terminals, typed_terminals, node_kinds, anything_kinds, strict_brackets, typed_cache: HashMap::new(), raw_cache: HashMap::new(), junk: vec![] };
        // which probes lex to exactly one code token that nothing accepts (and how to separate them from
        // what follows: the last-resort lexer swallows the rest of the line)
        let tables = Tables::default();
        for c in CANDIDATES {
            for sep in [" ", "\n"] {
                let probe = format!("{}{}1", c, sep);
                if let Ok((t, _)) = lex(cfg, &tables, &probe) {
                    if t.len() >= 3 && t[0].raw().as_str() == *c && t[0].is_code() && t[2].raw().as_str() == "1" && o.accepted_kinds(cfg, &t[0]).is_empty() {
                        o.junk.push((c.to_string(), sep));
                        break;
                    }
                }
            }
        }
        o
    }
    pub fn n_terminals(&self) -> usize {
        self.raw_terminals.len() + self.typed_terminals.len()
    }

    fn ask(cfg: &FluffConfig, ms: &[(Matchable, SyntaxKind)], tok: &ErasedSegment) -> HashSet<SyntaxKind> {
        let parser: Parser = cfg.into();
        let segs = [tok.clone()];
        let mut kinds = HashSet::new();
        for (m, k) in ms {
            let mut cx = ParseContext::new(cfg.get_dialect(), parser.indentation_config());
            match catch(|| m.match_segments(&segs, 0, &mut cx)) {
                Ok(Ok(r)) if !r.has_match() => {}
                // a match (or an error / a panic: not provably a refusal)
                _ => {
                    kinds.insert(*k);
                }
            }
        }
        kinds
    }

    /// the kinds under which some terminal parser of the dialect accepts the lexer token `tok`
    /// (each terminal is asked through its real `match_segments` on the one-token stream)
    pub fn accepted_kinds(&mut self, cfg: &FluffConfig, tok: &ErasedSegment) -> HashSet<SyntaxKind> {
        let l = tok.get_type();
        if !self.typed_cache.contains_key(&l) {
            let mut ks = Self::ask(cfg, &self.typed_terminals, tok);
            if self.node_kinds.contains(&l) {
                ks.insert(l);
            }
            self.typed_cache.insert(l, ks);
        }
        let key = (l, tok.raw().to_string());
        if !self.raw_cache.contains_key(&key) {
            let ks = Self::ask(cfg, &self.raw_terminals, tok);
            self.raw_cache.insert(key.clone(), ks);
        }
        self.typed_cache[&l].union(&self.raw_cache[&key]).copied().collect()
    }
}

/// ids of the first and last child of the `bracketed` node that has the leaf `id` as a direct child
fn enclosing_bracket(t: &ErasedSegment, id: u32) -> Option<(u32, u32)> {
    for c in t.segments() {
        if c.segments().is_empty() {
            if c.id() == id && t.get_type() == SyntaxKind::Bracketed {
                return Some((t.segments().first()?.id(), t.segments().last()?.id()));
            }
        } else if let Some(r) = enclosing_bracket(c, id) {
            return Some(r);
        }
    }
    None
}

/// Diagnosis of finding F2 (notes/C02.md; repaired in the repo, this only annotates the message should it come
/// back): the content `Sequence` of a Strict `Bracketed` of the node `owner` runs out of
/// tokens before a required element and reports its failure as an empty match *at the end index*, which
/// `Bracketed::match_segments` (`content_match.span.end != end_idx`) takes for a complete match. Re-run the real
/// content grammar on the real tokens of the bracket that holds `tok` and look for exactly that signature.
fn strict_bracket_failure_taken_as_complete(cfg: &FluffConfig, orc: &Oracle, tokens: &[ErasedSegment], tree: &ErasedSegment, tok: &ErasedSegment, owner: Option<SyntaxKind>) -> bool {
    let Some(owner) = owner else { return false };
    let Some(brs) = orc.strict_brackets.get(&owner) else { return false };
    let Some((first, last)) = enclosing_bracket(tree, tok.id()) else { return false };
    let pos = |id: u32| tokens.iter().position(|t| t.id() == id);
    let (Some(s), Some(e)) = (pos(first), pos(last)) else { return false };
    // as in Bracketed::match_segments: skip to code after the opening bracket, back to code before the closing one
    let mut idx = s + 1;
    while idx < tokens.len() && !tokens[idx].is_code() {
        idx += 1;
    }
    let mut end_idx = e;
    while end_idx > idx && !tokens[end_idx - 1].is_code() {
        end_idx -= 1;
    }
    if idx >= end_idx {
        return false;
    }
    let parser: Parser = cfg.into();
    brs.iter().any(|b| {
        let MatchableTraitImpl::Bracketed(b) = b.verif_inner() else { return false };
        let mut cx = ParseContext::new(cfg.get_dialect(), parser.indentation_config());
        match catch(|| b.this.match_segments(&tokens[..end_idx], idx as u32, &mut cx)) {
            Ok(Ok(m)) => !m.has_match() && m.span.start == end_idx as u32,
            _ => false,
        }
    })
}

fn unparsable_parents(t: &ErasedSegment, out: &mut Vec<SyntaxKind>) {
    for c in t.segments() {
        if c.get_type() == SyntaxKind::Unparsable {
            out.push(t.get_type());
        }
        unparsable_parents(c, out);
    }
}

/// leaves of `t` (token ids) that are outside every `unparsable` node, with the kinds on their path
fn outside_unparsable(t: &ErasedSegment, path: &mut Vec<SyntaxKind>, out: &mut HashMap<u32, (SyntaxKind, Vec<SyntaxKind>)>) {
    if t.get_type() == SyntaxKind::Unparsable {
        return;
    }
    if t.segments().is_empty() {
        out.insert(t.id(), (t.get_type(), path.clone()));
        return;
    }
    path.push(t.get_type());
    for c in t.segments() {
        outside_unparsable(c, path, out);
    }
    path.pop();
}

pub fn lex(cfg: &FluffConfig, tables: &Tables, sql: &str) -> Result<(Vec<ErasedSegment>, usize), String> {
    catch(|| cfg.get_dialect().lexer().lex(tables, StringOrTemplate::String(sql)))
        .and_then(|r| r.map_err(|e| format!("{:?}", e)))
        .map(|(t, errs)| (t, errs.len()))
}

const KEYWORDS: &[&str] = &["SELECT", "FROM", "WHERE", ")", "(", ",", ";", "JOIN", "AS", "1", "'x'", "foo", "CASE", "END", "BY", "--c\n", "/*c*/"];

/// Token-level corruptions of `sql` (token boundaries from the real lexer).
fn mutate(rng: &mut Rng, raws: &[String]) -> String {
    let mut v: Vec<String> = raws.to_vec();
    let code: Vec<usize> = (0..v.len()).filter(|&i| !v[i].trim().is_empty()).collect();
    if code.is_empty() {
        return v.concat();
    }
    let nops = rng.range(1, 3);
    for _ in 0..nops {
        if v.is_empty() {
            break;
        }
        let code: Vec<usize> = (0..v.len()).filter(|&i| !v[i].trim().is_empty()).collect();
        if code.is_empty() {
            break;
        }
        let i = code[rng.below(code.len())];
        match rng.below(6) {
            0 => {
                v.remove(i);
            }
            1 => {
                let x = v[i].clone();
                v.insert(i, " ".into());
                v.insert(i, x);
            }
            2 => {
                let j = code[rng.below(code.len())];
                v.swap(i, j);
            }
            3 => {
                let kw = KEYWORDS[rng.below(KEYWORDS.len())];
                v.insert(i, " ".into());
                v.insert(i, kw.to_string());
            }
            4 => {
                v.truncate(i);
            }
            _ => {
                let j = code[rng.below(code.len())];
                let (a, b) = (i.min(j), i.max(j));
                v.drain(a..b);
            }
        }
    }
    v.concat()
}

const JUNK: &[&str] = &[
    "",
    " ",
    "\n",
    "\n\n  \n",
    "-- only a comment",
    "-- only a comment\n",
    "/* c */",
    "  /* c */  \n-- x\n",
    ";",
    ";;",
    " ; ",
    ")",
    "(",
    "((",
    "))",
    "()",
    "SELECT",
    "SELECT ",
    " SELECT 1",
    "\nSELECT 1\n",
    "SELECT 1;",
    "SELECT 1 ;  ",
    "SELECT 1; -- c",
    "SELECT 1;; SELECT 2",
    "SELECT 1 SELECT 2",
    "SELECT (1",
    "SELECT 1)",
    "SELECT 1) FROM t",
    "SELECT a FROM (SELECT b FROM",
    "SELECT a,, b FROM t",
    "SELECT FROM WHERE",
    "FROM t SELECT a",
    "foo bar baz",
    "1 2 3",
    "SELECT a FROM t WHERE",
    "SELECT a FROM t WHERE ;",
    "SELECT a FROM t ORDER",
    "SELECT CASE WHEN a THEN b",
    "SELECT a FROM t; garbage here; SELECT 2",
    "garbage; SELECT 1",
    "SELECT 'unterminated",
    "SELECT \"unterminated",
    "SELECT /* unterminated",
    "SELECT a\r\nFROM t\r\n",
    "SELECT\ta\tFROM\tt",
    "SELECT 'multi\nline' FROM t",
    "SELECT 'é', \"ü\" FROM t -- ñ",
    "CREATE TABLE t (a int",
    "CREATE TABLE t (a int))",
    "INSERT INTO t VALUES (1, 2",
    "WITH a AS (SELECT 1) ",
    "WITH a AS (SELECT 1) SELECT",
    "SELECT a FROM t JOIN",
    "SELECT [a] FROM t",
    "SELECT {a} FROM t",
    "SELECT a FROM t LIMIT",
    "BEGIN; SELECT 1; END",
];

fn deep_brackets(n: usize) -> String {
    format!("SELECT {}1{} FROM t", "(".repeat(n), ")".repeat(n))
}

// ---------------------------------------------------------------- one input
fn short_hash(s: &str) -> String {
    // FNV-1a, enough for a key
    let mut h: u64 = 0xcbf29ce484222325;
    for b in s.as_bytes() {
        h ^= *b as u64;
        h = h.wrapping_mul(0x100000001b3);
    }
    format!("{:012x}", h & 0xffff_ffff_ffff)
}

fn thorough_tier() -> bool {
    std::env::args().any(|a| a == "thorough")
}
fn args_ops_all() -> bool {
    std::env::var("SQV_C02_ALL_OPS").is_ok()
}

fn collect_ops(m: &MatchResult, out: &mut Vec<(MatchResult, MatchResult)>, limit: usize) {
    // all sibling pairs (bounded), those carrying inserts of their own first: they exercise the
    // flattening of `insert_segments` in append/wrap
    fn walk(m: &MatchResult, all: &mut Vec<(MatchResult, MatchResult)>) {
        for w in m.child_matches.windows(2) {
            if all.len() >= 400 {
                return;
            }
            all.push((w[0].clone(), w[1].clone()));
        }
        for c in &m.child_matches {
            walk(c, all);
        }
    }
    let mut all = vec![];
    walk(m, &mut all);
    all.sort_by_key(|(a, b)| {
        let small = mr_size(a) + mr_size(b) <= 60;
        let ins = !a.insert_segments.is_empty() || !b.insert_segments.is_empty();
        (!(small && ins), !small)
    });
    out.extend(all.into_iter().take(limit));
}

pub struct Parsed {
    pub tokens: Vec<ErasedSegment>,
    pub lex_errors: usize,
    pub root: Option<verif_hook::RootMatch>,
    /// Ok(Some(tree)) | Ok(None) (parse error) | Err(panic message)
    pub result: Result<Option<ErasedSegment>, String>,
}

pub fn lex_and_parse(cfg: &FluffConfig, tables: &Tables, sql: &str) -> Result<Parsed, String> {
    let (tokens, lex_errors) = lex(cfg, tables, sql)?;
    let parser: Parser = cfg.into();
    let _ = verif_hook::take();
    let result = catch(|| parser.parse(tables, &tokens, None)).map(|r| match r {
        Ok(t) => t,
        Err(_) => None,
    });
    let root = verif_hook::take();
    Ok(Parsed { tokens, lex_errors, root, result })
}

/// The same for a templated file: `tcfg` configures the placeholder templater, the rendered file is lexed by the
/// dialect's lexer (`StringOrTemplate::Template`). Returns the rendered text as well.
pub fn lex_and_parse_templ(cfg: &FluffConfig, tcfg: &FluffConfig, tables: &Tables, sql: &str) -> Result<(Parsed, String), String> {
    let templater = catch(|| Linter::get_templater(tcfg))?;
    let tf = catch(|| templater.process(sql, "c02.sql", tcfg, &None)).and_then(|r| r.map_err(|e| format!("templater: {:?}", e)))?;
    let rendered = tf.templated().to_string();
    let (tokens, lex_errors) = catch(|| cfg.get_dialect().lexer().lex(tables, StringOrTemplate::Template(tf)))
        .and_then(|r| r.map_err(|e| format!("{:?}", e)))
        .map(|(t, errs)| (t, errs.len()))?;
    let parser: Parser = cfg.into();
    let _ = verif_hook::take();
    let result = catch(|| parser.parse(tables, &tokens, None)).map(|r| match r {
        Ok(t) => t,
        Err(_) => None,
    });
    let root = verif_hook::take();
    Ok((Parsed { tokens, lex_errors, root, result }, rendered))
}

/// kinds and raws of a tree in pre-order (no ids, no positions)
fn shape(t: &ErasedSegment, out: &mut String) {
    if t.segments().is_empty() {
        out.push_str(&format!("[{:?}:{}]", t.get_type(), t.raw()));
    } else {
        out.push_str(&format!("{:?}(", t.get_type()));
        for c in t.segments() {
            shape(c, out);
        }
        out.push(')');
    }
}

static RUN_SEED: std::sync::atomic::AtomicU64 = std::sync::atomic::AtomicU64::new(1);

/// One unit of work: an input, or a text to be cut into inputs. `announce` is told each input before it is parsed.
fn run_one(cx: &mut Ctx, w: &Work, out: &mut Buf, announce: &mut dyn FnMut(&Work)) {
    match w.expand {
        None => {
            announce(w);
            run_input(cx, w, out)
        }
        Some(dense) => {
            announce(w);
            let cfg = cx.cfg(&w.it.dialect).clone();
            let mut rng = Rng::new(RUN_SEED.load(Ordering::Relaxed) ^ u64::from_str_radix(&short_hash(&w.it.sql), 16).unwrap_or(7) ^ short_hash(&w.it.dialect).len() as u64);
            out.count("texts_cut", 1);
            for (cls, sql) in cuts_of(&cfg, &w.it.sql, &mut rng, dense) {
                let v = Work::plain(Item { cls, dialect: w.it.dialect.clone(), sql });
                announce(&v);
                run_input(cx, &v, out);
            }
        }
    }
}

fn run_input(cx: &mut Ctx, w: &Work, out: &mut Buf) {
    let it = &w.it;
    let input = w.input_json();
    let tcfg = w.templ.as_ref().map(|t| cx.templ_cfg(t));
    let (cfg, orc) = cx.parts(&it.dialect);
    let tables = Tables::default();
    out.count("inputs", 1);
    let lexed = match &tcfg {
        None => lex_and_parse(cfg, &tables, &it.sql).map(|p| (p, it.sql.clone())),
        Some(tcfg) => lex_and_parse_templ(cfg, tcfg, &tables, &it.sql),
    };
    let (p, text_in) = match lexed {
        Ok(p) => p,
        Err(msg) => {
            // the templater or the lexer itself failed: outside C02 (C01/C03/C15), counted
            out.count(if msg.starts_with("templater") { "templater_failed" } else { "lexer_failed" }, 1);
            return;
        }
    };
    if w.templ.is_some() {
        out.count("templated_inputs", 1);
        // token streams in which several tokens share one source position (lexed out of one templated slice)
        let mut seen: HashMap<(usize, usize), usize> = HashMap::new();
        for t in p.tokens.iter().filter(|t| t.is_code()) {
            if let Some(pm) = t.get_position_marker() {
                *seen.entry((pm.source_slice.start, pm.source_slice.end)).or_default() += 1;
            }
        }
        if seen.values().any(|n| *n >= 2) {
            out.count("templated_inputs_with_a_multi_token_slice", 1);
        }
        let mut rep: HashSet<(usize, usize, String)> = HashSet::new();
        if p.tokens.iter().filter(|t| t.is_code()).any(|t| t.get_position_marker().map_or(false, |pm| !rep.insert((pm.source_slice.start, pm.source_slice.end, t.raw().to_string())))) {
            out.count("templated_inputs_with_a_repeated_token_in_one_slice", 1);
        }
    }
    if p.lex_errors > 0 {
        out.count("inputs_with_lex_errors", 1);
    }
    let tokens = &p.tokens;
    if tokens.is_empty() {
        out.count("no_tokens", 1);
        return;
    }
    let tok_ids: std::collections::HashSet<u32> = tokens.iter().map(|t| t.id()).collect();
    out.hyp("token_ids_distinct", "blocking", tok_ids.len() == tokens.len(), json!({"input": input}));
    out.hyp(
        "tokens_are_leaves_without_inserted_meta_kinds",
        "blocking",
        tokens.iter().all(|t| t.segments().is_empty() && !is_ins_meta_kind(t.get_type())),
        json!({"input": input}),
    );
    let key_base = format!("{}:{}", it.dialect, if w.templ.is_some() { short_hash(&input.to_string()) } else { short_hash(&it.sql) });

    // ---- direct observation of the property
    let (cls_res, exp_g): (&str, String) = match &p.result {
        Err(msg) => {
            out.count("parse_panics", 1);
            // a reference to a keyword the dialect does not define panics in `Dialect::ref` (the C14 defect):
            // keyed by (dialect, keyword); any other panic is keyed by the input
            let key = match msg.strip_prefix("Grammar refers to the '").and_then(|r| r.split_once("' keyword which was not found")) {
                Some((kw, _)) => format!("c02-dangling-keyword:{}:{}", it.dialect, kw),
                None => format!("c02-panic:{}", key_base),
            };
            out.direct(it.cls, false, &key, &format!("Parser::parse panicked (neither a tree nor a parse error): {}", trunc(msg, 300)), input.clone());
            ("panic", "None".to_string())
        }
        Ok(None) => {
            out.count("parse_errors", 1);
            out.direct(it.cls, true, "", "", Value::Null);
            ("parse-error", "(Some PErr)".to_string())
        }
        Ok(Some(tree)) => {
            if it.cls == "replay" && std::env::var("SQV_C02_DUMP_TREE").is_ok() {
                fn dump(t: &ErasedSegment, d: usize) {
                    if t.segments().is_empty() {
                        eprintln!("{}{:?} {:?}", "  ".repeat(d), t.get_type(), t.raw());
                    } else {
                        eprintln!("{}{:?}", "  ".repeat(d), t.get_type());
                        for c in t.segments() {
                            dump(c, d + 1);
                        }
                    }
                }
                dump(tree, 0);
            }
            let leaves: Vec<ErasedSegment> = tree.get_raw_segments();
            let kept: Vec<&ErasedSegment> = leaves.iter().filter(|l| !(is_ins_meta_kind(l.get_type()) && !tok_ids.contains(&l.id()))).collect();
            let mut why = String::new();
            if tree.get_type() != SyntaxKind::File {
                why = format!("root is {:?}, not a file", tree.get_type());
            } else if kept.len() != tokens.len() {
                why = format!("{} non-meta leaves for {} tokens", kept.len(), tokens.len());
            } else {
                for (i, (l, t)) in kept.iter().zip(tokens.iter()).enumerate() {
                    let (lp, tp) = (l.get_position_marker(), t.get_position_marker());
                    let pos_same = match (lp, tp) {
                        (Some(a), Some(b)) => a.source_slice == b.source_slice && a.templated_slice == b.templated_slice && a.working_loc() == b.working_loc(),
                        _ => false,
                    };
                    if l.id() != t.id() || l.raw() != t.raw() || !pos_same {
                        why = format!("leaf {} is id {} {:?}, token is id {} {:?} (positions equal: {})", i, l.id(), l.raw(), t.id(), t.raw(), pos_same);
                        break;
                    }
                }
            }
            if why.is_empty() {
                let text: String = tokens.iter().map(|t| t.raw().as_str()).collect();
                if tree.raw().as_str() != text {
                    why = "tree text differs from the token text".into();
                } else if p.lex_errors == 0 && text != text_in {
                    // lexer lossless-ness is C01; only counted here
                    out.count("token_text_differs_from_input_without_lex_error", 1);
                }
            }
            let has_unparsable = tree.recursive_crawl_all(false).iter().any(|s| s.get_type() == SyntaxKind::Unparsable);
            if has_unparsable {
                out.count("trees_with_unparsable", 1);
            }
            out.direct(it.cls, why.is_empty(), &format!("c02-leaves:{}", key_base), &why, input.clone());
            // ---- second sentence: what the grammar cannot match is under `unparsable` (or an error was returned).
            // Every terminal parser re-tags the token it accepts (`Matched::Newtype(kind)`), so a code leaf outside
            // the unparsable nodes that still has its lexer kind must be a token that some terminal accepts under
            // that very kind; otherwise nothing in the grammar matched it and it was kept silently.
            {
                let mut outside = HashMap::new();
                outside_unparsable(tree, &mut vec![], &mut outside);
                let mut bad = String::new();
                let mut bad_key = String::new();
                let (mut asked, mut exempt) = (0usize, 0usize);
                for t in tokens.iter().filter(|t| t.is_code() && !t.is_meta()) {
                    let Some((kind, path)) = outside.get(&t.id()) else { continue };
                    if *kind != t.get_type() {
                        continue; // re-tagged by a terminal
                    }
                    asked += 1;
                    if orc.accepted_kinds(cfg, t).contains(kind) {
                        continue;
                    }
                    // nearest ancestor that is a grammar node of its own (brackets are built by `Bracketed`)
                    let owner = path.iter().rev().find(|k| **k != SyntaxKind::Bracketed).copied();
                    if owner.map_or(false, |k| orc.anything_kinds.contains(&k)) {
                        exempt += 1;
                    } else if bad.is_empty() {
                        let owner_s = owner.map_or("none".to_string(), |k| format!("{:?}", k).to_lowercase());
                        let f2 = strict_bracket_failure_taken_as_complete(cfg, orc, tokens, tree, t, owner);
                        bad_key = format!("c02-unmatched-kept-silently:{}:{}", it.dialect, owner_s);
                        bad = format!(
                            "token {:?} (id {}, {:?}) keeps its lexer kind, which none of the {} terminal parsers of the {} grammar gives to it, yet it is outside every unparsable node (path {}) and no parse error is returned{}",
                            t.raw(), t.id(), t.get_type(), orc.n_terminals(), it.dialect,
                            path.iter().map(|k| format!("{:?}", k).to_lowercase()).collect::<Vec<_>>().join(">"),
                            if f2 { format!(" [diagnosed: the Strict content sequence of a bracket of {} fails at the end index and Bracketed takes the empty match for a complete one]", owner_s) } else { String::new() }
                        );
                    }
                }
                out.count("leaves_with_lexer_kind_checked_against_terminals", asked);
                out.count("unmatched_tokens_under_anything_exempt", exempt);
                out.direct(it.cls, bad.is_empty(), &bad_key, &bad, input.clone());
            }
            // a templated stream whose tokens are those of its rendered text (same raws, kinds, code flags) must parse
            // like the rendered text: the grammar sees tokens, not positions in the source file
            if w.templ.is_some() {
                let tables2 = Tables::default();
                if let Ok(Parsed { tokens: t2, result: Ok(Some(tree2)), .. }) = lex_and_parse(cfg, &tables2, &text_in) {
                    let same_tokens = t2.len() == tokens.len() && t2.iter().zip(tokens.iter()).all(|(a, b)| a.raw() == b.raw() && a.get_type() == b.get_type() && a.is_code() == b.is_code());
                    if same_tokens {
                        let (mut a, mut b) = (String::new(), String::new());
                        shape(tree, &mut a);
                        shape(&tree2, &mut b);
                        out.hyp("templated_stream_parses_like_its_rendered_text", "diagnostic", a == b, json!({"input": input, "rendered": text_in}));
                        // second sentence, with the parse of the identical token sequence as the reference for what the
                        // grammar can match: a code token that is unparsable there must not be accepted silently here
                        let (mut o1, mut o2) = (HashMap::new(), HashMap::new());
                        outside_unparsable(tree, &mut vec![], &mut o1);
                        outside_unparsable(&tree2, &mut vec![], &mut o2);
                        let kept = (0..tokens.len()).find(|&i| tokens[i].is_code() && o1.contains_key(&tokens[i].id()) && !o2.contains_key(&t2[i].id()));
                        let msg = kept.map_or(String::new(), |i| {
                            format!(
                                "token {} {:?} is outside every unparsable node in the tree of the templated stream, but inside one when the identical token sequence (the rendered text {:?}) is parsed: the same tokens, yet text the grammar cannot match was accepted",
                                i, tokens[i].raw(), trunc(&text_in, 200)
                            )
                        });
                        out.direct(it.cls, kept.is_none(), &format!("c02-templated-stream-accepts-unmatched:{}", key_base), &msg, input.clone());
                    } else {
                        out.count("templated_tokens_differ_from_tokens_of_rendered_text", 1);
                    }
                }
            }
            // where the unparsable sections were produced (coverage of the greedy paths of the engine)
            let mut parents = vec![];
            unparsable_parents(tree, &mut parents);
            for k in parents {
                out.count(&format!("unparsable_under_{}", format!("{:?}", k).to_lowercase()), 1);
            }
            (if has_unparsable { "tree-unparsable" } else { "tree-clean" }, format!("(Some (POk {}))", g_tree(tree, &tok_ids)))
        }
    };
    out.count(&format!("result_{}", cls_res), 1);

    // ---- WF monitor and correspondence case
    let (si, ei) = start_end_idx(tokens);
    let (gm_g, wf_ok, root_mr) = match &p.root {
        Some(r) => {
            if r.start_idx != si || r.end_idx != ei {
                out.hyp("root_span_is_first_to_last_code_token", "blocking", false, json!({"input": input, "recorded": [r.start_idx, r.end_idx], "expected": [si, ei]}));
            } else {
                out.hyp("root_span_is_first_to_last_code_token", "blocking", true, Value::Null);
            }
            let w = wf_root(tokens, &r.match_result);
            out.hyp("H_WF_root_match", "blocking", w.is_ok(), json!({"input": input, "why": w.clone().err()}));
            out.count("match_nodes", mr_size(&r.match_result));
            if !sorted_children(&r.match_result) {
                out.count("matches_with_unsorted_children", 1);
            }
            if r.match_result.span.end < ei && has_match(&r.match_result) {
                out.count("matches_with_unmatched_tail", 1);
            }
            if !has_match(&r.match_result) {
                out.count("matches_empty", 1);
            }
            (format!("(GOk {})", g_mr(&r.match_result)), w.is_ok(), Some(&r.match_result))
        }
        None => {
            // no grammar call (no code token) or the grammar returned Err / panicked
            if si != ei {
                out.count("grammar_err_or_panic", 1);
            } else {
                out.count("no_code_tokens", 1);
            }
            ("GErr".to_string(), true, None)
        }
    };
    // a panic inside the grammar (before root_parse's apply) is not in the model's domain
    let grammar_panicked = p.result.is_err() && p.root.is_none() && si != ei;
    let limit = 260;
    // thorough tier: every other input is replayed through Coq (all are observed directly)
    let sampled = if it.cls.starts_with("gap-junk") || matches!(it.cls, "truncation" | "token-deleted" | "element-deleted") {
        // observed directly on every input; one in 24 (thorough: 120) is also replayed through the Gallina root_parse
        u64::from_str_radix(&short_hash(&it.sql)[..6], 16).unwrap_or(0) % (if thorough_tier() { 120 } else { 24 }) == 0
    } else if it.cls.starts_with("templated") {
        u64::from_str_radix(&short_hash(&it.sql)[..6], 16).unwrap_or(0) % (if thorough_tier() { 30 } else { 6 }) == 0
    } else {
        !thorough_tier() || short_hash(&it.sql).as_bytes()[10] % 2 == 0
    };
    if tokens.len() <= limit && !grammar_panicked && sampled {
        let args = g_tuple(&[g_list(tokens.iter().map(g_tok)), gm_g]);
        let exp = g_tuple(&[g_bool(wf_ok), exp_g]);
        let nontrivial = root_mr.map(|m| mr_size(m) >= 3).unwrap_or(false);
        let sample = json!({"input": input, "tokens": tokens.len(), "result": cls_res});
        out.case("root", it.cls, nontrivial, args, exp, sample);
    } else {
        out.count("root_cases_skipped_too_large_or_grammar_panic", 1);
    }

    // ---- append / wrap on operand pairs taken from the recorded match
    let do_ops = (args_ops_all() || short_hash(&it.sql).as_bytes()[11] % 6 == 0) && (!(it.cls.starts_with("gap-junk") || it.cls.starts_with("templated") || matches!(it.cls, "truncation" | "token-deleted" | "element-deleted")) || sampled);
    if let (Some(m), true) = (root_mr, do_ops) {
        let mut ops = vec![];
        collect_ops(m, &mut ops, 2);
        let n = tokens.len() as u32;
        for (k, (a, b)) in ops.iter().enumerate() {
            if mr_size(a) + mr_size(b) > 60 {
                continue;
            }
            let r = catch(|| a.clone().verif_append(b));
            if let Ok(r) = r {
                let pre = wf(n, a).is_ok() && wf(n, b).is_ok() && a.span.end <= b.span.start;
                if pre {
                    out.hyp("append_preserves_WF_on_real_operands", "blocking", wf(n, &r).is_ok(), json!({"input": input, "a": g_mr(a), "b": g_mr(b)}));
                }
                out.case("append", it.cls, has_match(a) && has_match(b), g_tuple(&[g_mr(a), g_mr(b)]), g_mr(&r), json!({"input": input, "op": "append", "pair": k}));
            }
            if k == 0 {
                let e = MatchResult::empty_at(a.span.end);
                if let Ok(r) = catch(|| a.clone().verif_append(&e)) {
                    out.case("append", it.cls, false, g_tuple(&[g_mr(a), g_mr(&e)]), g_mr(&r), json!({"input": input, "op": "append-empty", "pair": k}));
                }
                if let Ok(r) = catch(|| e.clone().verif_append(b)) {
                    out.case("append", it.cls, false, g_tuple(&[g_mr(&e), g_mr(b)]), g_mr(&r), json!({"input": input, "op": "empty-append", "pair": k}));
                }
            }
            // the same operands without their name: un-named matches with inserts and children are what
            // NodeMatcher wraps and what Sequence appends (flattening path of both constructors)
            // (inserts are added synthetically at the span ends: when the engine's own wrap/append is
            // broken, recorded matches may carry none)
            let strip = |m: &MatchResult| {
                let mut u = MatchResult { matched: None, ..m.clone() };
                u.insert_segments.insert(0, (m.span.start, SyntaxKind::Indent));
                u.insert_segments.push((m.span.end, SyntaxKind::Dedent));
                u
            };
            let (ua, ub) = (strip(a), strip(b));
            if mr_size(&ua) + mr_size(&ub) <= 60 {
                for (x, y, tag) in [(&ua, &ub, "append-unnamed"), (&ua, b, "append-unnamed-named"), (a, &ub, "append-named-unnamed")] {
                    if let Ok(r) = catch(|| x.clone().verif_append(y)) {
                        let nontriv = has_match(x) && has_match(y) && (!x.insert_segments.is_empty() || !y.insert_segments.is_empty());
                        out.case("append", it.cls, nontriv, g_tuple(&[g_mr(x), g_mr(y)]), g_mr(&r), json!({"input": input, "op": tag, "pair": k}));
                    }
                }
                for x in [&ua, &ub] {
                    if let Ok(r) = catch(|| x.clone().verif_wrap(Matched::SyntaxKind(SyntaxKind::Expression))) {
                        if wf(n, x).is_ok() {
                            out.hyp("wrap_preserves_WF_on_real_operands", "blocking", wf(n, &r).is_ok(), json!({"input": input, "a": g_mr(x)}));
                        }
                        out.case("wrap", it.cls, has_match(x) && !x.insert_segments.is_empty(), g_tuple(&[g_mr(x), g_n(kind_n(SyntaxKind::Expression))]), g_mr(&r), json!({"input": input, "op": "wrap-unnamed", "pair": k}));
                    }
                }
            }
            let kind = SyntaxKind::Expression;
            if let Ok(r) = catch(|| a.clone().verif_wrap(Matched::SyntaxKind(kind))) {
                if wf(n, a).is_ok() {
                    out.hyp("wrap_preserves_WF_on_real_operands", "blocking", wf(n, &r).is_ok(), json!({"input": input, "a": g_mr(a)}));
                }
                out.case("wrap", it.cls, has_match(a), g_tuple(&[g_mr(a), g_n(kind_n(kind))]), g_mr(&r), json!({"input": input, "op": "wrap", "pair": k}));
            }
        }
    }
}

pub fn corpus_items(rng: &mut Rng, thorough: bool, n_cross: usize, n_mut: usize) -> Vec<Item> {
    let mut items: Vec<Item> = vec![];
    let files = corpus();
    // regression / junk stream first
    for d in DIALECTS {
        for j in JUNK {
            if d == "ansi" || thorough || rng.chance(1, 6) {
                items.push(Item { cls: "junk", dialect: d.to_string(), sql: j.to_string() });
            }
        }
    }
    for n in [1usize, 8, 64] {
        items.push(Item { cls: "junk", dialect: "ansi".into(), sql: deep_brackets(n) });
    }
    // scripting blocks nested in one another (the fixtures only have flat scripts): every pair of block kinds, in every dialect
    // (where the dialect has no such statement the text is junk, which is part of the property's input space as well)
    let blocks: [(&str, &str); 6] = [("IF TRUE THEN", "END IF;"), ("LOOP", "END LOOP;"), ("REPEAT", "UNTIL TRUE END REPEAT;"), ("WHILE TRUE DO", "END WHILE;"),
                                     ("BEGIN", "END;"), ("FOR r IN (SELECT 1) DO", "END FOR;")];
    for d in DIALECTS {
        for (oa, ca) in blocks {
            for (ob, cb) in blocks {
                items.push(Item { cls: "nested-blocks", dialect: d.to_string(), sql: format!("{oa}\n  {ob}\n    SELECT 1;\n  {cb}\n  SELECT 2;\n{ca}\n") });
            }
            items.push(Item { cls: "nested-blocks", dialect: d.to_string(), sql: format!("{oa}\n  {oa}\n    {oa}\n      SELECT 1;\n    {ca}\n  {ca}\n{ca}\nSELECT 3;\n") });
        }
    }
    for f in &files {
        items.push(Item { cls: "corpus", dialect: f.dialect.clone(), sql: f.text.clone() });
    }
    for (i, (_, s)) in rule_snippets().into_iter().enumerate() {
        if thorough || i % 3 == 0 {
            items.push(Item { cls: "rule-snippet", dialect: "ansi".into(), sql: s });
        }
    }
    if thorough {
        for f in &files {
            for d in DIALECTS {
                if d != f.dialect {
                    items.push(Item { cls: "cross-dialect", dialect: d.to_string(), sql: f.text.clone() });
                }
            }
        }
    } else {
        for _ in 0..n_cross {
            let f = &files[rng.below(files.len())];
            let d = DIALECTS[rng.below(DIALECTS.len())];
            if d != f.dialect {
                items.push(Item { cls: "cross-dialect", dialect: d.to_string(), sql: f.text.clone() });
            }
        }
    }
    // token corruptions
    let mut cx = Ctx::new();
    let small: Vec<&CorpusFile> = files.iter().filter(|f| f.text.len() <= 1500).collect();
    for _ in 0..n_mut {
        let f = small[rng.below(small.len())];
        let dialect = if rng.chance(1, 5) { DIALECTS[rng.below(DIALECTS.len())].to_string() } else { f.dialect.clone() };
        let tables = Tables::default();
        let raws: Vec<String> = match lex(cx.cfg(&dialect), &tables, &f.text) {
            Ok((t, _)) => t.iter().map(|t| t.raw().to_string()).collect(),
            Err(_) => continue,
        };
        items.push(Item { cls: "token-corruption", dialect, sql: mutate(rng, &raws) });
    }
    items
}

/// Small well-formed statements that sit on the greedy paths of the engine (bracketed sections parsed in
/// `ParseMode::Greedy`, delimited lists, window specs, scripting blocks ...); junk is inserted at *every* gap of
/// each of them under every dialect (what a dialect cannot parse at all still exercises the root-level paths).
const GREEDY_BASES: &[&str] = &[
    "SELECT a FROM t WHERE x IN (1, 2)\n",
    "INSERT INTO t (a, b) VALUES (1, 2), (3, 4)\n",
    "SELECT a FROM t JOIN u USING (a, b)\n",
    "SELECT SUM(a) OVER (PARTITION BY b ORDER BY c) FROM t\n",
    "SELECT f(a, b), CAST(a AS int) FROM t GROUP BY a ORDER BY b\n",
    "CREATE TABLE t (a int, b varchar(10))\n",
    "SELECT ARRAY[1, 2], a[1] FROM t\n",
    "WITH c AS (SELECT 1) SELECT * FROM c\n",
    "SELECT CASE WHEN a THEN b ELSE c END FROM t;\nSELECT 2;\n",
    "IF x THEN SELECT 1; SELECT 2; END IF;\n",
    "WHILE x DO SELECT 1; SELECT 2; END WHILE;\n",
    "LOOP SELECT 1; BREAK; END LOOP;\n",
    "BEGIN SELECT 1; SELECT 2; END;\n",
    "FOR r IN (SELECT 1) DO SELECT 2; SELECT 3; END FOR;\n",
    "REPEAT SELECT 1; SELECT 2; UNTIL x END REPEAT;\n",
    "CREATE PROCEDURE p() BEGIN SELECT 1; SELECT 2; END;\n",
];
const PLAIN_JUNK: &[&str] = &[",", "foo", "1", ";", "foo;", ")", "(", "SELECT", "'x'", "END", "."];

/// Class `gap-junk`: one junk token inserted into a well-formed input at a token gap. The junk is either a
/// token no terminal of the dialect accepts (then the tree must flag it, see `Oracle`) or an ordinary token.
/// Gaps: right after every opening bracket, right before every closing bracket, right after every `;`
/// (where the greedy modes of Bracketed / Sequence / AnyNumberOf / Delimited decide what is unparsable), and
/// random other gaps.
pub fn gap_items(rng: &mut Rng, thorough: bool) -> Vec<Item> {
    let mut items = vec![];
    let mut cx = Ctx::new();
    let tables = Tables::default();
    let files = corpus();
    let mut bases: Vec<(String, String, bool)> = vec![]; // (dialect, text, dense)
    for d in DIALECTS {
        for b in GREEDY_BASES {
            bases.push((d.to_string(), b.to_string(), true));
        }
    }
    for f in files.iter().filter(|f| f.text.len() <= 1500) {
        bases.push((f.dialect.clone(), f.text.clone(), false));
    }
    for (dialect, text, dense) in bases {
        let (cfg, orc) = cx.parts(&dialect);
        let toks = match lex(cfg, &tables, &text) {
            Ok((t, _)) => t,
            Err(_) => continue,
        };
        let raws: Vec<String> = toks.iter().map(|t| t.raw().to_string()).collect();
        let code: Vec<usize> = (0..toks.len()).filter(|&i| toks[i].is_code() && !toks[i].raw().is_empty()).collect();
        if code.is_empty() {
            continue;
        }
        // gap g = "insert before token g"
        let is_open = |i: usize| matches!(raws[i].as_str(), "(" | "[" | "{");
        let is_close = |i: usize| matches!(raws[i].as_str(), ")" | "]" | "}");
        let next_code = |i: usize| code.iter().copied().find(|&j| j > i);
        let mut after_open: Vec<usize> = code.iter().copied().filter(|&i| is_open(i)).filter_map(next_code).collect();
        let mut before_close: Vec<usize> = code.iter().copied().filter(|&i| is_close(i)).collect();
        let mut after_semi: Vec<usize> = code.iter().copied().filter(|&i| raws[i] == ";").filter_map(next_code).collect();
        let mut gaps: Vec<usize> = vec![];
        if dense || thorough {
            gaps.extend(code.iter().copied());
            gaps.push(toks.len());
        } else {
            rng.shuffle(&mut after_open);
            rng.shuffle(&mut before_close);
            rng.shuffle(&mut after_semi);
            gaps.extend(after_open.iter().take(5));
            gaps.extend(before_close.iter().take(2));
            gaps.extend(after_semi.iter().take(5));
            for _ in 0..3 {
                gaps.push(code[rng.below(code.len())]);
            }
            gaps.sort();
            gaps.dedup();
        }
        let junk = orc.junk.clone();
        for (n, g) in gaps.into_iter().enumerate() {
            let mut js: Vec<(String, &'static str)> = vec![];
            if !junk.is_empty() {
                js.push(junk[(n + g) % junk.len()].clone());
                if dense || thorough {
                    js.push(junk[0].clone()); // an unlexable character, when the dialect has one
                }
            }
            js.push((PLAIN_JUNK[rng.below(PLAIN_JUNK.len())].to_string(), " "));
            if dense {
                js.push((",".to_string(), " "));
                js.push(("foo".to_string(), " "));
            }
            js.dedup();
            for (j, sep) in js {
                let mut sql = raws[..g.min(raws.len())].concat();
                if g >= raws.len() && !sql.ends_with(|c: char| c.is_whitespace()) {
                    sql.push(' ');
                }
                sql.push_str(&j);
                sql.push_str(sep);
                sql.push_str(&raws[g.min(raws.len())..].concat());
                items.push(Item { cls: if dense { "gap-junk-greedy-site" } else { "gap-junk-corpus" }, dialect: dialect.clone(), sql });
            }
        }
    }
    items
}

// ---------------------------------------------------------------- truncated / element-deleted statements
/// Small statements whose clauses have required elements behind their first token (select lists, set clauses,
/// conditions, sub-selects in every position); cut under every dialect.
const CUT_BASES: &[&str] = &[
    "SELECT a, b FROM t WHERE a = 1\n",
    "SELECT DISTINCT a FROM t\n",
    "SELECT a FROM t UNION SELECT b FROM u\n",
    "SELECT a FROM t WHERE x IN (SELECT b FROM u)\n",
    "SELECT a FROM (SELECT b FROM u) AS x\n",
    "SELECT a, (SELECT b FROM u) FROM t\n",
    "SELECT a FROM t WHERE EXISTS (SELECT 1 FROM u)\n",
    "INSERT INTO t SELECT a FROM u\n",
    "CREATE VIEW v AS SELECT a FROM t\n",
    "CREATE TABLE t AS SELECT a FROM u\n",
    "SELECT a FROM t ORDER BY a LIMIT 1\n",
    "SELECT a FROM t GROUP BY a HAVING COUNT(*) > 1\n",
    "SELECT a FROM t JOIN u ON t.x = u.x\n",
    "SELECT a FROM t WHERE a BETWEEN 1 AND 2\n",
    "SELECT CAST(a AS int), f(b) FROM t\n",
    "UPDATE t SET a = 1 WHERE b = 2\n",
    "DELETE FROM t WHERE a = 1\n",
    "SELECT a FROM t;\nSELECT b FROM u;\n",
];

/// Token ranges `[i, j)` covered by runs of sibling children of every node of `tree` (both ends on a child that
/// holds code): deleting such a run removes whole grammar elements - one element, a list, a clause body.
fn sibling_runs(tree: &ErasedSegment, pos: &HashMap<u32, usize>, rng: &mut Rng, per_node: usize, out: &mut Vec<(usize, usize)>) {
    let ch = tree.segments();
    if ch.is_empty() {
        return;
    }
    // (first token index, last token index + 1) of the children that hold a code token
    let mut spans: Vec<(usize, usize)> = vec![];
    for c in ch {
        let leaves = if c.segments().is_empty() { vec![c.clone()] } else { c.get_raw_segments() };
        let idx: Vec<usize> = leaves.iter().filter_map(|l| pos.get(&l.id()).copied()).collect();
        let has_code = leaves.iter().any(|l| l.is_code() && pos.contains_key(&l.id()));
        if let (true, Some(a), Some(b)) = (has_code, idx.iter().min(), idx.iter().max()) {
            spans.push((*a, *b + 1));
        }
    }
    let mut runs = vec![];
    for i in 0..spans.len() {
        for j in i..spans.len() {
            if !(i == 0 && j + 1 == spans.len()) {
                runs.push((spans[i].0, spans[j].1));
            }
        }
    }
    if runs.len() > per_node {
        rng.shuffle(&mut runs);
        runs.truncate(per_node);
    }
    out.extend(runs);
    for c in ch {
        sibling_runs(c, pos, rng, per_node, out);
    }
}

/// Classes `truncation` (prefixes at token boundaries), `token-deleted` (one code token removed) and `element-deleted`
/// (a run of sibling elements of the parse tree removed) of one well-formed text: the tokens run out, or a terminator
/// follows, exactly where the grammar requires something. `dense`: every position; else a random handful.
fn cuts_of(cfg: &FluffConfig, text: &str, rng: &mut Rng, dense: bool) -> Vec<(&'static str, String)> {
    let tables = Tables::default();
    let Ok(p) = lex_and_parse(cfg, &tables, text) else { return vec![] };
    let raws: Vec<String> = p.tokens.iter().map(|t| t.raw().to_string()).collect();
    let code: Vec<usize> = (0..p.tokens.len()).filter(|&i| p.tokens[i].is_code() && !raws[i].is_empty()).collect();
    if code.len() < 2 {
        return vec![];
    }
    let mut res: Vec<(&'static str, String)> = vec![];
    let mut trunc_at: Vec<usize> = code[1..].to_vec();
    let mut del_at: Vec<usize> = code.clone();
    let mut runs: Vec<(usize, usize)> = vec![];
    if let Ok(Some(tree)) = &p.result {
        let pos: HashMap<u32, usize> = p.tokens.iter().enumerate().map(|(i, t)| (t.id(), i)).collect();
        sibling_runs(tree, &pos, rng, if dense { 10 } else { 3 }, &mut runs);
    }
    runs.sort();
    runs.dedup();
    if !dense {
        rng.shuffle(&mut trunc_at);
        rng.shuffle(&mut del_at);
        rng.shuffle(&mut runs);
        trunc_at.truncate(4);
        del_at.truncate(3);
        runs.truncate(8);
    }
    for k in trunc_at {
        res.push(("truncation", raws[..k].concat()));
        if dense && rng.chance(1, 3) {
            res.push(("truncation", format!("{};\n", raws[..k].concat().trim_end())));
        }
    }
    for k in del_at {
        res.push(("token-deleted", format!("{}{}", raws[..k].concat(), raws[k + 1..].concat())));
    }
    for (a, b) in runs {
        res.push(("element-deleted", format!("{}{}", raws[..a].concat(), raws[b..].concat())));
    }
    let mut seen = HashSet::new();
    res.retain(|(_, s)| s != text && seen.insert(s.clone()));
    res
}

/// (dialect, text, dense) of the texts that get cut: the greedy-site and clause bases under every dialect, and
/// (thorough, or `small_corpus`) the small corpus files of the dialect itself.
fn cut_bases(dialects: &[String], corpus_max: usize) -> Vec<(String, String, bool)> {
    let mut bases = vec![];
    for d in dialects {
        for b in CUT_BASES.iter().chain(GREEDY_BASES.iter()) {
            bases.push((d.clone(), b.to_string(), true));
        }
    }
    if corpus_max > 0 {
        for f in corpus().iter().filter(|f| f.text.len() <= corpus_max && dialects.contains(&f.dialect)) {
            bases.push((f.dialect.clone(), f.text.clone(), false));
        }
    }
    bases
}

pub fn cut_items(rng: &mut Rng, thorough: bool) -> Vec<Work> {
    let dialects: Vec<String> = DIALECTS.iter().map(|d| d.to_string()).collect();
    let mut items = vec![];
    for (dialect, text, dense) in cut_bases(&dialects, 1500) {
        if !dense && !thorough && !rng.chance(1, 3) {
            continue;
        }
        items.push(Work { it: Item { cls: "cut-base", dialect, sql: text }, templ: None, expand: Some(dense) });
    }
    items
}

// ---------------------------------------------------------------- templated token streams
/// (placeholder text, configuration key) of parameter number `n` in `style`
fn placeholder(style: &str, n: usize) -> (String, String) {
    match style {
        "colon" => (format!(":p{}", n), format!("p{}", n)),
        "dollar" => (format!("${{p{}}}", n), format!("p{}", n)),
        "pyformat" => (format!("%(p{})s", n), format!("p{}", n)),
        "ampersand" => (format!("&{{p{}}}", n), format!("p{}", n)),
        "numeric_colon" => (format!(":{}", n), format!("{}", n)),
        _ => ("?".to_string(), format!("{}", n)), // question_mark: positional, 1-based
    }
}
const SPAN_STYLES: &[&str] = &["colon", "colon", "dollar", "pyformat", "ampersand", "numeric_colon", "question_mark"];

/// Class `templated-span`: a run of 2..14 tokens of a well-formed text (boundaries from the real lexer) becomes the
/// value of a placeholder, so the rendered file is the original text and one templated slice is lexed into several
/// tokens that all carry the source position of the placeholder. Two times in three the run is chosen so that a code
/// token occurs twice in it (same raw: `x = x`, `1 + 1`, two commas of a list, two brackets ...).
fn span_templated(cfg: &FluffConfig, dialect: &str, text: &str, rng: &mut Rng, n_variants: usize, out: &mut Vec<Work>) {
    if !text.is_ascii() {
        return;
    }
    let tables = Tables::default();
    let Ok((toks, _)) = lex(cfg, &tables, text) else { return };
    let raws: Vec<String> = toks.iter().map(|t| t.raw().to_string()).collect();
    if raws.concat() != text {
        return;
    }
    let code: Vec<usize> = (0..toks.len()).filter(|&i| toks[i].is_code() && !raws[i].is_empty()).collect();
    if code.len() < 3 {
        return;
    }
    // candidate runs [a, b] of code-token positions (inclusive, indices into `code`)
    let mut plain_runs = vec![];
    let mut rep_runs = vec![];
    for a in 0..code.len() {
        for b in a + 1..code.len().min(a + 9) {
            let (i, j) = (code[a], code[b]);
            if j - i > 14 {
                break;
            }
            let mut seen = HashSet::new();
            let rep = (a..=b).any(|k| !seen.insert(raws[code[k]].to_ascii_uppercase()));
            if rep { rep_runs.push((i, j + 1)) } else { plain_runs.push((i, j + 1)) }
        }
    }
    for v in 0..n_variants {
        let style = SPAN_STYLES[rng.below(SPAN_STYLES.len())];
        let n_ph = if rng.chance(1, 4) { 2 } else { 1 };
        let mut chosen: Vec<(usize, usize)> = vec![];
        for _ in 0..n_ph {
            let pool = if !rep_runs.is_empty() && (plain_runs.is_empty() || rng.chance(2, 3)) { &rep_runs } else { &plain_runs };
            if pool.is_empty() {
                continue;
            }
            let r = pool[rng.below(pool.len())];
            if chosen.iter().all(|c| r.1 < c.0 || c.1 < r.0) {
                chosen.push(r);
            }
        }
        chosen.sort();
        if chosen.is_empty() {
            continue;
        }
        let mut sql = String::new();
        let mut params = vec![];
        let mut at = 0usize;
        for (n, (i, j)) in chosen.iter().enumerate() {
            sql.push_str(&raws[at..*i].concat());
            // a placeholder glued to a word / colon / quote in front of it would not be one
            if sql.ends_with(|c: char| c.is_ascii_alphanumeric() || matches!(c, '_' | ':' | '\'' | '"' | '`' | '$' | '&' | '%' | '\\' | '@' | '#')) {
                sql.push(' ');
            }
            let (ph, key) = placeholder(style, n + 1);
            sql.push_str(&ph);
            params.push((key, raws[*i..*j].concat()));
            at = *j;
            if raws.get(at).map_or(false, |r| r.starts_with(|c: char| c.is_ascii_alphanumeric() || matches!(c, '_' | ':' | '(' | '{'))) {
                sql.push(' ');
            }
        }
        sql.push_str(&raws[at..].concat());
        let _ = v;
        out.push(Work { it: Item { cls: "templated-span", dialect: dialect.to_string(), sql }, templ: Some(Templ { style: style.to_string(), regex: None, params, api: true }), expand: None });
    }
}

pub fn templated_items(rng: &mut Rng, thorough: bool) -> Vec<Work> {
    let mut items: Vec<Work> = vec![];
    let mut cx = Ctx::new();
    let files = corpus();
    // the small statements under every dialect, and corpus files in their own dialect
    for d in DIALECTS {
        let cfg = cx.cfg(d).clone();
        for b in CUT_BASES.iter().chain(GREEDY_BASES.iter()) {
            span_templated(&cfg, d, b, rng, if thorough { 8 } else { 2 }, &mut items);
        }
    }
    for f in files.iter().filter(|f| f.text.len() <= 1500) {
        if thorough || rng.chance(1, 2) {
            let cfg = cx.cfg(&f.dialect).clone();
            span_templated(&cfg, &f.dialect, &f.text, rng, if thorough { 6 } else { 2 }, &mut items);
        }
    }
    // literals of corpus files replaced by placeholders (values `1+1`, `(1)`, padded, multi-line ...; every style,
    // placeholders glued to identifiers) and synthetic statements with placeholders in chosen syntactic roles (C04's generators)
    let n_wide = if thorough { 3000 } else { 300 };
    let (mut made, mut tries) = (0, 0);
    while made < n_wide && tries < n_wide * 20 {
        tries += 1;
        let f = &files[rng.below(files.len())];
        if f.text.len() > 3000 {
            continue;
        }
        let style = SPAN_STYLES[rng.below(SPAN_STYLES.len())];
        if let Some((sql, templ)) = crate::c04::templatise(rng, &f.text, style, true) {
            items.push(Work { it: Item { cls: "templated-literals", dialect: f.dialect.clone(), sql }, templ: Some(templ), expand: None });
            made += 1;
        }
    }
    let known = sqruff_lib::templaters::placeholder::get_known_styles();
    let matches = |style: &str, sql: &str| known.get(style).map(|re| re.find_iter(sql).filter(|m| m.is_ok()).count());
    let n_shapes = if thorough { 6000 } else { 600 };
    let (mut made, mut tries) = (0, 0);
    while made < n_shapes && tries < n_shapes * 5 {
        tries += 1;
        if let Some(it) = crate::c04::gen_shape(rng, &matches) {
            items.push(Work { it: Item { cls: "templated-shapes", dialect: it.dialect, sql: it.sql }, templ: it.templ, expand: None });
            made += 1;
        }
    }
    items
}

// ---------------------------------------------------------------- watchdog
/// utime + stime (clock ticks, 100 per second) of a thread of this process; per-thread CPU time does not depend on
/// how loaded the machine is, wall-clock time does
fn task_ticks(dir: &str) -> Option<(char, u64)> {
    let s = std::fs::read_to_string(format!("{}/stat", dir)).ok()?;
    let rest = &s[s.rfind(')')? + 1..];
    let f: Vec<&str> = rest.split_whitespace().collect();
    let state = f.first()?.chars().next()?;
    Some((state, f.get(11)?.parse::<u64>().ok()? + f.get(12)?.parse::<u64>().ok()?))
}
fn own_task_dir() -> Option<String> {
    std::fs::read_link("/proc/thread-self").ok().map(|p| format!("/proc/{}", p.display()))
}
/// CPU seconds one input may take: two orders of magnitude above what the largest corpus file needs
fn cpu_limit_ticks(w: &Work) -> u64 {
    let base: u64 = std::env::var("SQV_C02_CPU_LIMIT_S").ok().and_then(|s| s.parse().ok()).unwrap_or(10);
    (base + (w.it.sql.len() as u64 / 5000) * 10) * 100
}
const MAX_HANGS: usize = 3;

struct Slot {
    task: Option<String>,
    /// the input being parsed (class, dialect, input object): what is blamed when the worker does not come back
    current: Option<(&'static str, String, Value)>,
    /// (item, CPU ticks of the thread when it started the item, wall time of the last observed progress, ticks then)
    busy: Option<(usize, u64, std::time::Instant, u64)>,
    abandoned: bool,
    done: bool,
}

/// `par_run` with a watchdog: every worker publishes the input it is working on; the calling thread watches the CPU
/// time each worker has spent on its input. An input over its limit (or whose thread sleeps without progress: a
/// deadlock) is recorded as a direct failure of the property - the parser returned neither a tree nor a parse error -,
/// its thread is left behind and a new worker takes over. After `MAX_HANGS` such inputs the rest is skipped.
fn par_run_watched(out: &mut Out, items: Arc<Vec<Work>>) {
    let threads = std::env::var("SQV_THREADS").ok().and_then(|s| s.parse().ok()).unwrap_or(16usize).max(1);
    let n = items.len();
    let next = Arc::new(AtomicUsize::new(0));
    let stop = Arc::new(AtomicBool::new(false));
    let slots: Arc<Mutex<Vec<Slot>>> = Arc::new(Mutex::new(vec![]));
    let results: Arc<Mutex<Vec<Option<Buf>>>> = Arc::new(Mutex::new((0..n).map(|_| None).collect()));
    let spawn = |slots: &Arc<Mutex<Vec<Slot>>>| {
        let id = {
            let mut g = slots.lock().unwrap();
            g.push(Slot { task: None, current: None, busy: None, abandoned: false, done: false });
            g.len() - 1
        };
        let (items, next, stop, slots2, results) = (items.clone(), next.clone(), stop.clone(), slots.clone(), results.clone());
        let r = std::thread::Builder::new().stack_size(16 << 20).spawn(move || {
            let slots = slots2;
            let task = own_task_dir();
            slots.lock().unwrap()[id].task = task.clone();
            let mut st = Ctx::new();
            loop {
                if stop.load(Ordering::SeqCst) {
                    break;
                }
                let i = next.fetch_add(1, Ordering::SeqCst);
                if i >= n {
                    break;
                }
                let t0 = task.as_deref().and_then(task_ticks).map_or(0, |x| x.1);
                let mut buf = Buf::default();
                // every input (also each one derived from a text that is cut) starts its own CPU budget
                let mut announce = |w: &Work| {
                    let t = task.as_deref().and_then(task_ticks).map_or(0, |x| x.1);
                    let mut g = slots.lock().unwrap();
                    g[id].busy = Some((i, t, std::time::Instant::now(), t));
                    g[id].current = Some((w.it.cls, w.it.dialect.clone(), w.input_json()));
                };
                if let Err(msg) = catch(|| run_one(&mut st, &items[i], &mut buf, &mut announce)) {
                    buf.direct(items[i].it.cls, false, &format!("c02-harness-panic:{}", short_hash(&items[i].it.sql)), &format!("the harness itself panicked on this input: {}", trunc(&msg, 300)), items[i].input_json());
                }
                let t1 = task.as_deref().and_then(task_ticks).map_or(0, |x| x.1);
                buf.lines.push(json!({"t": "cpu", "ticks": t1.saturating_sub(t0)}));
                let mut g = slots.lock().unwrap();
                if g[id].abandoned {
                    return;
                }
                g[id].busy = None;
                results.lock().unwrap()[i] = Some(buf);
            }
            slots.lock().unwrap()[id].done = true;
        });
        if r.is_err() {
            slots.lock().unwrap()[id].done = true;
        }
    };
    for _ in 0..threads.min(n.max(1)) {
        spawn(&slots);
    }
    let quiet = std::time::Duration::from_millis(std::env::var("SQV_HANG_QUIET_MS").ok().and_then(|s| s.parse().ok()).unwrap_or(10_000));
    let mut hangs = 0usize;
    let mut stopped_at: Option<std::time::Instant> = None;
    loop {
        std::thread::sleep(std::time::Duration::from_millis(50));
        let mut respawn = 0;
        {
            let mut g = slots.lock().unwrap();
            if g.iter().all(|s| s.done || s.abandoned) {
                break;
            }
            // enough inputs did not return: the workers still busy a few seconds later are left behind as well
            // (their inputs count as skipped)
            if stopped_at.map_or(false, |t| t.elapsed() >= std::time::Duration::from_secs(3)) {
                for s in g.iter_mut() {
                    s.abandoned = true;
                }
                break;
            }
            for s in g.iter_mut().filter(|s| !s.done && !s.abandoned) {
                let (Some(dir), Some((i, t0, last_wall, last_ticks))) = (s.task.clone(), s.busy) else { continue };
                let Some((state, ticks)) = task_ticks(&dir) else { continue };
                let now = std::time::Instant::now();
                if ticks != last_ticks || state != 'S' {
                    s.busy = Some((i, t0, now, ticks));
                }
                let limit = cpu_limit_ticks(&items[i]);
                let verdict = if ticks.saturating_sub(t0) > limit {
                    Some(format!("did not return within {} s of CPU time (a parse of this size takes milliseconds)", limit / 100))
                } else if state == 'S' && ticks == last_ticks && now.duration_since(last_wall) >= quiet {
                    Some(format!("does not return: its thread blocks for ever (state S, no CPU time used for {} ms)", quiet.as_millis()))
                } else {
                    None
                };
                if let Some(v) = verdict {
                    s.abandoned = true;
                    hangs += 1;
                    let (cls, dialect, input) = s.current.clone().unwrap_or((items[i].it.cls, items[i].it.dialect.clone(), items[i].input_json()));
                    let mut buf = Buf::default();
                    buf.count("inputs", 1);
                    buf.count("parses_that_did_not_return", 1);
                    buf.direct(cls, false, &format!("c02-no-termination:{}:{}", dialect, short_hash(&input.to_string())), &format!("lexing + Parser::parse {} - neither a tree nor a parse error", v), input);
                    results.lock().unwrap()[i] = Some(buf);
                    if hangs >= MAX_HANGS {
                        stop.store(true, Ordering::SeqCst);
                        next.store(n, Ordering::SeqCst);
                        stopped_at.get_or_insert(now);
                    } else {
                        respawn += 1;
                    }
                }
            }
        }
        for _ in 0..respawn {
            spawn(&slots);
        }
    }
    let mut skipped = 0usize;
    let mut max_ticks = 0u64;
    let res = std::mem::take(&mut *results.lock().unwrap());
    for b in res {
        match b {
            Some(mut b) => {
                b.lines.retain(|l| {
                    if l["t"] == "cpu" {
                        max_ticks = max_ticks.max(l["ticks"].as_u64().unwrap_or(0));
                        false
                    } else {
                        true
                    }
                });
                out.absorb(b)
            }
            None => skipped += 1,
        }
    }
    let mut b = Buf::default();
    b.count("inputs_skipped_after_parses_that_did_not_return", skipped);
    b.count("max_cpu_centiseconds_of_one_input", max_ticks as usize);
    out.absorb(b);
}

// ---------------------------------------------------------------- cases for the interpreter of the engine
/// `sqv c02 --flag-cases --dialects a,b,..`: truncated / token-deleted / element-deleted variants of the small
/// statements (every position) and of small corpus files, and grammar-derived sentences cut right behind a target
/// node (c03g), each parsed by the real parser; the recorded root match becomes a case for the Gallina interpreter
/// of the engine over the dialect's dumped grammar (same case format as `sqv pem`; judged by Corr/C02Pem.v).
fn flag_main(args: &Args) {
    let mut out = Out::new(&args.out);
    let mut rng = Rng::new(args.seed ^ 0xc02f);
    let dialects: Vec<String> = args.flag("--dialects").map(|s| s.split(',').map(|x| x.to_string()).collect()).unwrap_or_else(|| vec!["ansi".to_string()]);
    let mut items: Vec<crate::pem::Item> = vec![];
    if let Some(path) = args.flag("--replay-input") {
        let v: Value = serde_json::from_str(&std::fs::read_to_string(path).unwrap()).unwrap();
        let v = if v.get("input").is_some() { v["input"].clone() } else { v };
        items.push(crate::pem::Item { dialect: v["dialect"].as_str().unwrap_or("ansi").to_string(), cls: "replay", sql: v["sql"].as_str().unwrap_or("").to_string() });
    } else {
        let max_chars = 160usize;
        let per_dialect = if args.thorough() { 600 } else { 135 };
        let per_dialect_g = if args.thorough() { 150 } else { 30 };
        let mut cx = Ctx::new();
        for d in &dialects {
            let cfg = cx.cfg(d).clone();
            let mut pool: Vec<(&'static str, String)> = vec![];
            for (dialect, text, dense) in cut_bases(std::slice::from_ref(d), max_chars) {
                pool.extend(cuts_of(&cfg, &text, &mut rng, dense).into_iter().filter(|(_, s)| s.len() <= max_chars));
                let _ = dialect;
            }
            let mut seen = HashSet::new();
            pool.retain(|(_, s)| seen.insert(s.clone()));
            rng.shuffle(&mut pool);
            // the same number from each class
            let mut taken: HashMap<&'static str, usize> = HashMap::new();
            let share = per_dialect / 3 + 1;
            let mut n = 0;
            for (cls, sql) in pool {
                let t = taken.entry(cls).or_default();
                if *t < share && n < per_dialect {
                    *t += 1;
                    n += 1;
                    items.push(crate::pem::Item { dialect: d.clone(), cls, sql });
                }
            }
            // one junk token at a gap of the small statements (an ordinary token, or one no terminal of the dialect accepts)
            {
                let (cfg, orc) = cx.parts(d);
                let junk = orc.junk.clone();
                let tables = Tables::default();
                let mut pool: Vec<String> = vec![];
                for b in CUT_BASES.iter().chain(GREEDY_BASES.iter()) {
                    let Ok((toks, _)) = lex(cfg, &tables, b) else { continue };
                    let raws: Vec<String> = toks.iter().map(|t| t.raw().to_string()).collect();
                    let code: Vec<usize> = (0..toks.len()).filter(|&i| toks[i].is_code() && !raws[i].is_empty()).collect();
                    for _ in 0..3 {
                        if code.is_empty() {
                            break;
                        }
                        let g = code[rng.below(code.len())];
                        let (j, sep) = if !junk.is_empty() && rng.chance(1, 3) { junk[rng.below(junk.len())].clone() } else { (PLAIN_JUNK[rng.below(PLAIN_JUNK.len())].to_string(), " ") };
                        pool.push(format!("{}{}{}{}", raws[..g].concat(), j, sep, raws[g..].concat()));
                    }
                }
                rng.shuffle(&mut pool);
                for sql in pool.into_iter().filter(|s| s.len() <= max_chars).take(per_dialect_g) {
                    items.push(crate::pem::Item { dialect: d.clone(), cls: "gap-junk", sql });
                }
            }
            // grammar-derived: the statement cut right behind the targeted node
            let gs = c03g::sentences(d);
            let mut cut: Vec<&c03g::Sentence> = gs.sentences.iter().filter(|s| s.variant == 1 && !s.dangling && s.sql.len() <= max_chars).collect();
            rng.shuffle(&mut cut);
            let mut seen = HashSet::new();
            for s in cut.into_iter().filter(|s| seen.insert(s.sql.clone())).take(per_dialect_g) {
                items.push(crate::pem::Item { dialect: d.clone(), cls: "grammar-cut", sql: s.sql.clone() });
            }
        }
    }
    par_run(&mut out, &items, crate::pem::Ctx::new, crate::pem::run_one);
    out.finish();
}

pub fn main(args: &Args) {
    silence_panics();
    if std::env::args().any(|a| a == "--flag-cases") {
        return flag_main(args);
    }
    let mut out = Out::new(&args.out);
    let mut rng = Rng::new(args.seed);
    RUN_SEED.store(args.seed, Ordering::Relaxed);
    let items: Vec<Work> = if let Some(path) = args.flag("--replay-input") {
        let v: Value = serde_json::from_str(&std::fs::read_to_string(path).unwrap()).unwrap();
        let v = if v.get("input").is_some() { v["input"].clone() } else { v };
        let templ = if v["templ"].is_object() {
            Some(Templ {
                style: v["templ"]["style"].as_str().unwrap_or("colon").to_string(),
                regex: v["templ"]["regex"].as_str().map(|x| x.to_string()),
                params: v["templ"]["params"].as_array().map(|a| a.iter().map(|p| (p[0].as_str().unwrap_or("").to_string(), p[1].as_str().unwrap_or("").to_string())).collect()).unwrap_or_default(),
                api: true,
            })
        } else {
            None
        };
        vec![Work { it: Item { cls: "replay", dialect: v["dialect"].as_str().unwrap_or("ansi").to_string(), sql: v["sql"].as_str().unwrap_or("").to_string() }, templ, expand: None }]
    } else {
        let mut v: Vec<Work> = (if args.thorough() { corpus_items(&mut rng, true, 0, 30000) } else { corpus_items(&mut rng, false, 400, 900) }).into_iter().map(Work::plain).collect();
        let only = args.flag("--only-class");
        v.extend(gap_items(&mut rng, args.thorough()).into_iter().map(Work::plain));
        v.extend(cut_items(&mut rng, args.thorough()));
        // last: should a templated stream send the parser into a loop, everything else has been observed by then
        v.extend(templated_items(&mut rng, args.thorough()));
        if let Some(c) = only {
            v.retain(|i| i.it.cls.starts_with(c.as_str()) || (i.expand.is_some() && matches!(c.as_str(), "truncation" | "token-deleted" | "element-deleted")));
        }
        v
    };
    par_run_watched(&mut out, Arc::new(items));
    out.finish();
}
