//! C12 — parse trees carry consistent positions and structure.
//!  * direct structural checks on every parse tree: leaf slices contiguous, leaf text = slice,
//!    node span = hull of children, line/col = computed from the text, brackets match,
//!    non-file nodes start and end with code, indent/dedent balance on fully parsed files;
//!  * after fixes (every tree the fix loop rebuilds, via `verif_hook::FixEvent`): working
//!    line/col of every leaf equals the value computed from the rewritten text;
//!  * correspondence cases for the Gallina kernels: `infer_next_position`,
//!    `get_line_pos_of_char_pos`, `from_child_markers`, `position_segments` (recorded at its real
//!    call sites during fixing, and called on perturbed real trees), meta positions of `apply`;
//!  * the same clauses under a templater whose output differs from its input (placeholder
//!    templater through `Linter::parse_string` / `lint_string(fix)`: corpus files with tokens
//!    replaced by placeholders whose values are longer / shorter / multi-line), the templated
//!    file's two newline tables (`TemplatedFile::new` + `get_line_pos_of_char_pos(p, source)`,
//!    `PositionMarker::new`) against the Gallina `tf_new` / `tf_line_pos` / `marker_new`;
//!  * bracket-structure inputs: well-nested / crossed / kind-swapped bracket bodies put into the
//!    bracket pairs of corpus files and into statement skeletons (free-form bracketed regions).
use std::cell::RefCell;
use std::rc::Rc;

use serde_json::{Value, json};
use sqruff_lib::core::config::{FluffConfig, Value as CValue};
use sqruff_lib::core::linter::core::{Linter, verif_hook as fix_hook};
use sqruff_lib_core::dialects::syntax::SyntaxKind;
use sqruff_lib_core::parser::markers::PositionMarker;
use sqruff_lib_core::parser::segments::base::{ErasedSegment, SegmentBuilder, Tables, position_segments, verif_hook as pos_hook};
use sqruff_lib_core::templaters::base::{RawFileSlice, TemplatedFile, TemplatedFileSlice};

use crate::c02;
use crate::common::*;

// ---------------------------------------------------------------- helpers
/// (line, col) of byte offset `p` of `text`, computed from the text (1-based, bytes).
fn linecol(text: &str, p: usize) -> (usize, usize) {
    let b = &text.as_bytes()[..p.min(text.len())];
    let mut line = 1;
    let mut col = 1;
    for &c in b {
        if c == b'\n' {
            line += 1;
            col = 1;
        } else {
            col += 1;
        }
    }
    (line, col)
}
fn nl_offsets(text: &str) -> Vec<usize> {
    text.match_indices('\n').map(|(i, _)| i).collect()
}
fn g_marker(m: &PositionMarker) -> String {
    format!("(mkM {} {} {} {} {} {})", m.source_slice.start, m.source_slice.end, m.templated_slice.start, m.templated_slice.end, m.working_line_no, m.working_line_pos)
}
fn g_omarker(m: Option<&PositionMarker>) -> String {
    match m {
        Some(m) => format!("(Some {})", g_marker(m)),
        None => "None".into(),
    }
}
fn g_ptree(t: &ErasedSegment) -> String {
    if t.segments().is_empty() {
        // a node without children behaves like a leaf everywhere in position_segments
        format!("(PLeaf {} {} {})", t.id(), g_str(t.raw()), g_omarker(t.get_position_marker()))
    } else {
        format!("(PNode {} {} {})", t.id(), g_omarker(t.get_position_marker()), g_list(t.segments().iter().map(g_ptree)))
    }
}
fn tree_size(t: &ErasedSegment) -> usize {
    1 + t.segments().iter().map(tree_size).sum::<usize>()
}
fn tree_bytes(t: &ErasedSegment) -> usize {
    t.raw().len()
}
fn fnv(s: &str) -> u64 {
    let mut h: u64 = 0xcbf29ce484222325;
    for b in s.as_bytes() {
        h ^= *b as u64;
        h = h.wrapping_mul(0x100000001b3);
    }
    h
}
fn short_hash(s: &str) -> String {
    format!("{:012x}", fnv(s) & 0xffff_ffff_ffff)
}

// ---------------------------------------------------------------- structural checks on a parse tree
/// Returns (clause, message) of the first failure of each clause.
/// `text` is the text the tree spells (the templated text). `templ` = Some((source text, file))
/// when the tree comes from a templated file whose source differs from `text`: then the source
/// slices are not a tiling (every token inside a replaced region claims the whole placeholder),
/// they are checked to be ordered, inside the source and - in literal regions - to spell the leaf.
fn check_parse_tree(tree: &ErasedSegment, text: &str, templ: Option<(&str, &TemplatedFile)>) -> Vec<(&'static str, String)> {
    let mut fails: Vec<(&'static str, String)> = vec![];
    let fail = |fails: &mut Vec<(&'static str, String)>, clause: &'static str, msg: String| {
        if !fails.iter().any(|(c, _)| *c == clause) {
            fails.push((clause, msg));
        }
    };
    let leaves = tree.get_raw_segments();
    // 1. contiguity, 2. text = slice, 4. line/col of leaves
    let mut cur_t = 0usize;
    let mut cur_s = 0usize;
    let mut prev_s_start = 0usize;
    for (i, l) in leaves.iter().enumerate() {
        let Some(m) = l.get_position_marker() else {
            fail(&mut fails, "leaf-has-position", format!("leaf {} {:?} has no position", i, l.raw()));
            continue;
        };
        let source_ok = match templ {
            None => m.source_slice.start == cur_s,
            Some((source, _)) => m.source_slice.start >= prev_s_start && m.source_slice.end <= source.len() && (l.raw().is_empty() || m.source_slice.end >= cur_s),
        };
        if m.templated_slice.start != cur_t || !source_ok {
            fail(&mut fails, "leaves-contiguous", format!("leaf {} {:?} starts at templated {} / source {:?}, previous ended at {} / {} (previous source start {})", i, l.raw(), m.templated_slice.start, m.source_slice, cur_t, cur_s, prev_s_start));
        }
        if m.templated_slice.end < m.templated_slice.start || m.source_slice.end < m.source_slice.start {
            fail(&mut fails, "leaves-contiguous", format!("leaf {} has a reversed slice", i));
        }
        cur_t = m.templated_slice.end;
        if templ.is_none() {
            cur_s = m.source_slice.end;
        } else if !l.raw().is_empty() {
            cur_s = cur_s.max(m.source_slice.end);
        }
        prev_s_start = m.source_slice.start;
        if let Some((source, tf)) = templ {
            // a leaf wholly inside a literal slice spells the same text in the source
            let lit = tf.sliced_file.iter().find(|f| f.slice_type == "literal" && f.templated_slice.start <= m.templated_slice.start && m.templated_slice.end <= f.templated_slice.end && !l.raw().is_empty());
            if let Some(f) = lit {
                let inside = f.source_slice.start <= m.source_slice.start && m.source_slice.end <= f.source_slice.end;
                if !inside || source.get(m.source_slice.clone()) != Some(l.raw().as_str()) {
                    fail(&mut fails, "leaf-text-is-slice", format!("leaf {} raw {:?} lies in the literal slice {:?} but its source slice {:?} is {:?}", i, l.raw(), f, m.source_slice, source.get(m.source_slice.clone())));
                }
            }
        }
        match text.get(m.templated_slice.clone()) {
            Some(s) if s == l.raw().as_str() => {}
            other => fail(&mut fails, "leaf-text-is-slice", format!("leaf {} raw {:?} but slice {:?} is {:?}", i, l.raw(), m.templated_slice, other)),
        }
        let lc = linecol(text, m.templated_slice.start);
        if (m.working_line_no, m.working_line_pos) != lc {
            fail(&mut fails, "leaf-linecol", format!("leaf {} {:?} working {:?} computed {:?}", i, l.raw(), (m.working_line_no, m.working_line_pos), lc));
        }
        let slc = match templ {
            None => lc,
            Some((source, _)) => linecol(source, m.source_slice.start),
        };
        if m.source_position() != slc || m.templated_position() != lc {
            fail(&mut fails, "leaf-linecol", format!("leaf {} {:?} source_position {:?} (computed {:?}) templated_position {:?} (computed {:?})", i, l.raw(), m.source_position(), slc, m.templated_position(), lc));
        }
    }
    if cur_t != text.len() {
        fail(&mut fails, "leaves-contiguous", format!("last leaf ends at {} but the text has {} bytes", cur_t, text.len()));
    }
    // 3. hull, node line/col, 5. brackets, 6. code edges
    let mut has_unparsable = false;
    for n in tree.recursive_crawl_all(false) {
        if n.get_type() == SyntaxKind::Unparsable {
            has_unparsable = true;
        }
        let ch = n.segments();
        if ch.is_empty() {
            continue;
        }
        let Some(m) = n.get_position_marker() else {
            fail(&mut fails, "node-has-position", format!("node {:?} has no position", n.get_type()));
            continue;
        };
        let ms: Vec<&PositionMarker> = ch.iter().filter_map(|c| c.get_position_marker()).collect();
        if ms.len() != ch.len() {
            continue;
        }
        let hs = ms.iter().map(|c| c.source_slice.start).min().unwrap();
        let he = ms.iter().map(|c| c.source_slice.end).max().unwrap();
        let ts = ms.iter().map(|c| c.templated_slice.start).min().unwrap();
        let te = ms.iter().map(|c| c.templated_slice.end).max().unwrap();
        if m.source_slice != (hs..he) || m.templated_slice != (ts..te) {
            fail(&mut fails, "node-span-is-hull", format!("node {:?} spans {:?}/{:?}, hull of children is {:?}/{:?}", n.get_type(), m.source_slice, m.templated_slice, hs..he, ts..te));
        }
        // children tile => hull = first start .. last end
        if ts != ms[0].templated_slice.start || te != ms[ms.len() - 1].templated_slice.end {
            fail(&mut fails, "node-span-is-hull", format!("node {:?}: hull {:?} is not first child start .. last child end", n.get_type(), ts..te));
        }
        let lc = linecol(text, m.templated_slice.start);
        if (m.working_line_no, m.working_line_pos) != lc {
            fail(&mut fails, "node-linecol", format!("node {:?} working {:?} computed {:?}", n.get_type(), (m.working_line_no, m.working_line_pos), lc));
        }
        if n.get_type() == SyntaxKind::Bracketed {
            let real: Vec<&ErasedSegment> = ch.iter().filter(|c| !c.is_meta()).collect();
            // the dialects' bracket pairs: ( ) [ ] { } < > and snowflake's {- -}
            let ok = match (real.first(), real.last()) {
                (Some(a), Some(b)) if real.len() >= 2 => matches!(
                    (a.get_type(), b.get_type()),
                    (SyntaxKind::StartBracket, SyntaxKind::EndBracket)
                        | (SyntaxKind::StartSquareBracket, SyntaxKind::EndSquareBracket)
                        | (SyntaxKind::StartCurlyBracket, SyntaxKind::EndCurlyBracket)
                        | (SyntaxKind::StartAngleBracket, SyntaxKind::EndAngleBracket)
                        | (SyntaxKind::StartExcludeBracket, SyntaxKind::EndExcludeBracket)
                ) && a.segments().is_empty() && b.segments().is_empty(),
                _ => false,
            };
            if !ok {
                fail(&mut fails, "brackets-match", format!("bracketed node {:?} does not start and end with matching brackets", trunc(n.raw(), 80)));
            }
        }
        if n.get_type() != SyntaxKind::File {
            let real: Vec<&ErasedSegment> = ch.iter().filter(|c| !c.is_meta()).collect();
            let ok = match (real.first(), real.last()) {
                (Some(a), Some(b)) => a.is_code() && b.is_code(),
                _ => true, // only metas
            };
            if !ok {
                fail(&mut fails, "nodes-start-end-with-code", format!("node {:?} {:?} starts or ends with non-code", n.get_type(), trunc(n.raw(), 80)));
            }
        }
    }
    // 7. indent balance on fully parsed files
    if !has_unparsable {
        let sum: i32 = leaves.iter().map(|l| l.indent_val() as i32).sum();
        if sum != 0 {
            fail(&mut fails, "indent-balance", format!("indent/dedent markers sum to {}", sum));
        }
    }
    fails
}

/// After fixes: working line/col of every leaf equals the value computed from the rewritten text.
fn check_working_positions(tree: &ErasedSegment) -> Option<String> {
    let text: String = tree.raw().to_string();
    let leaves = tree.get_raw_segments();
    let mut off = 0usize;
    for (i, l) in leaves.iter().enumerate() {
        let Some(m) = l.get_position_marker() else {
            return Some(format!("leaf {} {:?} has no position", i, l.raw()));
        };
        let lc = linecol(&text, off);
        if (m.working_line_no, m.working_line_pos) != lc {
            return Some(format!("leaf {} {:?} at byte {} of the rewritten text has working {:?}, computed {:?}", i, l.raw(), off, (m.working_line_no, m.working_line_pos), lc));
        }
        off += l.raw().len();
    }
    None
}

// ---------------------------------------------------------------- kernel cases
fn infer_cases(rng: &mut Rng, out: &mut Buf, raws: &[String]) {
    for raw in raws {
        let (l, c) = (rng.range(1, 50), rng.range(1, 120));
        let r = PositionMarker::infer_next_position(raw, l, c);
        out.case("infer", "infer-next-position", raw.contains('\n'), g_tuple(&[g_str(raw), g_n(l), g_n(c)]), g_tuple(&[g_n(r.0), g_n(r.1)]), json!({"input": {"kind": "infer", "raw": raw, "line": l, "pos": c}}));
    }
}

fn linepos_cases(rng: &mut Rng, out: &mut Buf, text: &str) {
    let tf: TemplatedFile = text.to_string().into();
    for _ in 0..6 {
        let p = rng.below(text.len() + 1);
        let r = tf.get_line_pos_of_char_pos(p, false);
        let nontriv = text.as_bytes()[..p].contains(&b'\n');
        out.case("linepos", "line-pos-of-char-pos", nontriv, g_tuple(&[g_list(nl_offsets(text).iter().map(|x| g_n(*x))), g_n(p)]), g_tuple(&[g_n(r.0), g_n(r.1)]), json!({"input": {"kind": "linepos", "text": trunc(text, 400), "p": p}}));
        // the model's specification of the oracle itself
        out.direct("linepos", r == linecol(text, p), &format!("c12-linepos:{}", short_hash(text)), &format!("get_line_pos_of_char_pos({}) = {:?}, computed {:?}", p, r, linecol(text, p)), json!({"kind": "linepos", "text": text, "p": p}));
    }
}

fn hull_cases(out: &mut Buf, tree: &ErasedSegment, text: &str, budget: &mut usize) {
    let nls = g_list(nl_offsets(text).iter().map(|x| g_n(*x)));
    for n in tree.recursive_crawl_all(false) {
        if *budget == 0 {
            return;
        }
        let ch = n.segments();
        if ch.len() < 2 || ch.len() > 40 {
            continue;
        }
        let ms: Vec<&PositionMarker> = ch.iter().filter_map(|c| c.get_position_marker()).collect();
        if ms.is_empty() {
            continue;
        }
        let Ok(h) = catch(|| PositionMarker::from_child_markers(ms.iter().copied())) else { continue };
        *budget -= 1;
        out.case("hull", "from-child-markers", ms.len() >= 3, g_tuple(&[nls.clone(), g_list(ms.iter().map(|m| g_marker(m)))]), format!("(Some {})", g_marker(&h)), json!({"input": {"kind": "hull", "node": format!("{:?}", n.get_type()), "children": ms.len()}}));
    }
}

/// mirror of TreePos.Model.{wokb, preb}: the hypothesis of the position_segments theorem
fn wokb(t: &ErasedSegment, l: usize, c: usize) -> bool {
    let Some(m) = t.get_position_marker() else { return false };
    if (m.working_line_no, m.working_line_pos) != (l, c) {
        return false;
    }
    let (mut l, mut c) = (l, c);
    for ch in t.segments() {
        if !wokb(ch, l, c) {
            return false;
        }
        (l, c) = PositionMarker::infer_next_position(ch.raw(), l, c);
    }
    true
}
fn preb(t: &ErasedSegment) -> bool {
    if t.segments().is_empty() {
        return true;
    }
    match t.get_position_marker() {
        Some(m) => wokb(t, m.working_line_no, m.working_line_pos),
        None => t.segments().iter().all(preb),
    }
}

/// one recorded / provoked call of position_segments
fn ps_case(out: &mut Buf, cls: &str, segs: &[ErasedSegment], parent: &PositionMarker, result: &[ErasedSegment], input: Value) {
    let nls = match parent.templated_file.templated_str.as_deref() {
        Some(t) => nl_offsets(t),
        None => nl_offsets(&parent.templated_file.source_str),
    };
    let moved = segs.iter().zip(result.iter()).any(|(a, b)| a.get_position_marker().map(|m| m.working_loc()) != b.get_position_marker().map(|m| m.working_loc()));
    let args = g_tuple(&[g_list(nls.iter().map(|x| g_n(*x))), g_list(segs.iter().map(g_ptree)), g_marker(parent)]);
    let pre = segs.iter().all(preb);
    let exp = g_tuple(&[g_bool(pre), format!("(Some {})", g_list(result.iter().map(g_ptree)))]);
    out.case("ps", cls, moved, args, exp, input);
}

// ---------------------------------------------------------------- items
/// configuration of the placeholder templater: parameter style (or regex) and the sample values
#[derive(Clone)]
struct Tpl {
    style: String,
    is_regex: bool,
    values: Vec<(String, String)>,
}
fn tpl_json(t: &Option<Tpl>) -> Value {
    match t {
        None => Value::Null,
        Some(t) => json!({"style": t.style, "is_regex": t.is_regex, "values": t.values}),
    }
}
fn tpl_from_json(v: &Value) -> Option<Tpl> {
    if v.is_null() {
        return None;
    }
    Some(Tpl {
        style: v["style"].as_str().unwrap_or("colon").to_string(),
        is_regex: v["is_regex"].as_bool().unwrap_or(false),
        values: v["values"].as_array().map(|a| a.iter().map(|p| (p[0].as_str().unwrap_or("").to_string(), p[1].as_str().unwrap_or("").to_string())).collect()).unwrap_or_default(),
    })
}

enum Item {
    Parse(c02::Item),
    /// through `Linter::parse_string` (templater -> lexer -> parser); `tpl` = None: raw templater
    TParse { cls: &'static str, dialect: String, tpl: Option<Tpl>, sql: String },
    Fix { cls: &'static str, dialect: String, rules: String, tpl: Option<Tpl>, sql: String },
    Kernels { seed: u64 },
}

struct Cx {
    c02: c02::Ctx,
    linters: std::collections::HashMap<(String, String, bool), Linter>,
}

/// the linter of (dialect, rules, templated?), with the placeholder section set to `tpl`
/// (values are put into the config map directly: the ini reader trims values and cannot carry newlines)
fn linter_for<'a>(cx: &'a mut Cx, dialect: &str, rules: &str, tpl: &Option<Tpl>) -> &'a Linter {
    let l = cx.linters.entry((dialect.to_string(), rules.to_string(), tpl.is_some())).or_insert_with(|| {
        let mut src = format!("[sqruff]\ndialect = {}\nrules = {}\n", dialect, rules);
        if tpl.is_some() {
            src.push_str("templater = placeholder\n\n[sqruff:templater:placeholder]\nparam_style = colon\n");
        }
        Linter::new(FluffConfig::from_source(&src, None), None, None, true)
    });
    if let Some(t) = tpl {
        let ph = l.config_mut().raw.get_mut("templater").unwrap().as_map_mut().unwrap().get_mut("placeholder").unwrap().as_map_mut().unwrap();
        ph.clear();
        ph.insert(if t.is_regex { "param_regex" } else { "param_style" }.to_string(), CValue::String(t.style.as_str().into()));
        for (k, v) in &t.values {
            ph.insert(k.clone(), CValue::String(v.as_str().into()));
        }
    }
    l
}

/// The templated file's own position kernel on a real (or synthetic) file whose two texts differ:
/// `get_line_pos_of_char_pos(p, source)` must use the newline table of the text `source` selects,
/// and a fresh `PositionMarker` takes its working position from the templated one.
fn tf_cases(rng: &mut Rng, out: &mut Buf, cls: &str, tf: &TemplatedFile, n: usize, input: &Value) {
    let source: &str = &tf.source_str;
    let templated: &str = tf.templated();
    let small = source.len() <= 500 && templated.len() <= 500;
    let key = short_hash(&format!("{}\u{0}{}", source, templated));
    for k in 0..n {
        let flag = k % 2 == 1;
        let text = if flag { source } else { templated };
        let p = rng.below(text.len() + 1);
        let Ok(r) = catch(|| tf.get_line_pos_of_char_pos(p, flag)) else {
            out.direct(cls, false, &format!("c12-tf-linepos:{}", key), &format!("get_line_pos_of_char_pos({}, {}) panicked", p, flag), input.clone());
            continue;
        };
        let want = linecol(text, p);
        out.direct(cls, r == want, &format!("c12-tf-linepos:{}", key), &format!("get_line_pos_of_char_pos({}, source = {}) = {:?}, computed from the {} text {:?}", p, flag, r, if flag { "source" } else { "templated" }, want), input.clone());
        out.hyp("clause_leaf-linecol", "blocking", r == want, json!({"input": input, "p": p, "source": flag}));
        if small {
            let nontriv = source != templated && text.as_bytes()[..p].contains(&b'\n');
            out.case("tflinepos", cls, nontriv, g_tuple(&[g_str(source), g_str(templated), g_n(p), g_bool(flag)]), g_tuple(&[g_n(r.0), g_n(r.1)]), json!({"input": input, "p": p, "source": flag}));
        }
    }
    // a fresh marker at a random templated offset / source offset
    let ts = rng.below(templated.len() + 1);
    let te = ts + rng.below(templated.len() + 1 - ts);
    let ss = rng.below(source.len() + 1);
    let se = ss + rng.below(source.len() + 1 - ss);
    if let Ok(m) = catch(|| PositionMarker::new(ss..se, ts..te, tf.clone(), None, None)) {
        let (wl, sp, tp) = (m.working_loc(), m.source_position(), m.templated_position());
        let ok = wl == linecol(templated, ts) && tp == linecol(templated, ts) && sp == linecol(source, ss);
        out.direct(cls, ok, &format!("c12-tf-marker:{}", key), &format!("PositionMarker::new({}..{}, {}..{}): working {:?} templated_position {:?} (computed {:?}), source_position {:?} (computed {:?})", ss, se, ts, te, wl, tp, linecol(templated, ts), sp, linecol(source, ss)), input.clone());
        if small {
            let args = g_tuple(&[g_str(source), g_str(templated), g_tuple(&[g_n(ss), g_n(se), g_n(ts), g_n(te)])]);
            let exp = g_tuple(&[g_marker(&m), g_tuple(&[g_n(sp.0), g_n(sp.1)]), g_tuple(&[g_n(tp.0), g_n(tp.1)])]);
            out.case("tfmarker", cls, source != templated && templated.as_bytes()[..ts].contains(&b'\n'), args, exp, json!({"input": input, "slices": [ss, se, ts, te]}));
        }
    }
}

fn run_tparse(cx: &mut Cx, cls: &'static str, dialect: &str, tpl: &Option<Tpl>, sql: &str, seed: u64, out: &mut Buf) {
    let input = json!({"kind": "tparse", "dialect": dialect, "tpl": tpl_json(tpl), "sql": sql});
    out.count("tparse_inputs", 1);
    let linter = linter_for(cx, dialect, "LT01", tpl);
    let tables = Tables::default();
    let parsed = match catch(|| linter.parse_string(&tables, sql, None)) {
        Ok(Ok(p)) => p,
        Ok(Err(_)) => {
            out.count("tparse_templater_refused", 1);
            return;
        }
        Err(_) => {
            out.count("tparse_panics", 1); // C03 / C15's business
            return;
        }
    };
    let tf = parsed.templated_file.clone();
    let (source, templated): (String, String) = (tf.source_str.clone(), tf.templated().to_string());
    let differs = source != templated;
    if differs {
        out.count("tparse_templated_differs_from_source", 1);
        if nl_offsets(&source) != nl_offsets(&templated) {
            out.count("tparse_newline_tables_differ", 1);
        }
    }
    let mut rng = Rng::new(seed ^ 0x9e37_79b9);
    tf_cases(&mut rng, out, cls, &tf, 4, &input);
    let Some(tree) = &parsed.tree else {
        out.count("tparse_no_tree", 1);
        return;
    };
    if tree.raw().as_str() != templated {
        // lexer losslessness on the templated text is C01 / C15
        out.count("tparse_tree_text_differs_from_templated", 1);
        return;
    }
    out.count("tparse_trees", 1);
    let fails = check_parse_tree(tree, &templated, if differs { Some((&source, &tf)) } else { None });
    let key = format!("{}:{}:{}", dialect, tpl.as_ref().map(|t| t.style.as_str()).unwrap_or("raw"), short_hash(&format!("{}{}", sql, tpl_json(tpl))));
    report_tree(out, cls, &fails, tree, &key, &input);
    let mut budget = 1usize;
    if differs && tree_size(tree) <= 400 {
        hull_cases(out, tree, &templated, &mut budget);
    }
}


fn meta_case(out: &mut Buf, cls: &str, p: &c02::Parsed, tree: &ErasedSegment, text: &str, input: &Value) {
    let Some(root) = &p.root else { return };
    let tokens = &p.tokens;
    if tokens.len() > 120 {
        return;
    }
    let tok_ids: std::collections::HashSet<u32> = tokens.iter().map(|t| t.id()).collect();
    let metas: Vec<ErasedSegment> = tree.get_raw_segments().into_iter().filter(|l| !tok_ids.contains(&l.id())).collect();
    if metas.is_empty() {
        return;
    }
    if tokens.iter().any(|t| t.get_position_marker().is_none()) || metas.iter().any(|t| t.get_position_marker().is_none()) {
        return;
    }
    let nls = g_list(nl_offsets(text).iter().map(|x| g_n(*x)));
    let toks = g_list(tokens.iter().map(|t| g_tuple(&[c02::g_tok(t), g_marker(t.get_position_marker().unwrap())])));
    let args = g_tuple(&[nls, toks, c02::g_mr(&root.match_result)]);
    let exp = format!("(Some {})", g_list(metas.iter().map(|m| g_tuple(&[g_n(c02::kind_n(m.get_type())), g_marker(m.get_position_marker().unwrap())]))));
    out.case("metapos", cls, metas.len() >= 2, args, exp, json!({"input": input, "metas": metas.len()}));
}

const CLAUSES: &[&str] = &["leaves-contiguous", "leaf-text-is-slice", "leaf-linecol", "node-span-is-hull", "node-linecol", "brackets-match", "nodes-start-end-with-code", "indent-balance"];

/// direct observation + one monitor evaluation per clause for one checked tree
fn report_tree(out: &mut Buf, cls: &str, fails: &[(&'static str, String)], tree: &ErasedSegment, key_base: &str, input: &Value) {
    if fails.is_empty() {
        out.direct(cls, true, "", "", Value::Null);
    }
    for (clause, msg) in fails {
        out.direct(cls, false, &format!("c12-{}:{}", clause, key_base), &format!("{}: {}", clause, msg), input.clone());
    }
    for clause in CLAUSES {
        out.hyp(&format!("clause_{}", clause), "blocking", !fails.iter().any(|(c, _)| c == clause), json!({"input": input}));
    }
    // diagnostic (stronger than the property's wording): over a fully parsed tree the bracket
    // tokens themselves nest by kind, whether or not the grammar wrapped them in a `bracketed` node
    if std::env::var("SQV_LOUD").is_ok() {
        fn dump(t: &ErasedSegment, d: usize) {
            eprintln!("{}{:?} {:?} {:?}", "  ".repeat(d), t.get_type(), if t.segments().is_empty() { t.raw().to_string() } else { String::new() }, t.get_position_marker().map(|m| (m.source_slice.clone(), m.templated_slice.clone(), m.working_loc())));
            for c in t.segments() {
                dump(c, d + 1);
            }
        }
        dump(tree, 0);
    }
    if let Some(ok) = bracket_tokens_nest(tree) {
        out.hyp("diag_bracket_tokens_nest_by_kind_when_fully_parsed", "diagnostic", ok, json!({"input": input}));
    }
}

/// None when the tree has an unparsable section (an `unparsable` node, or the nested `file` node
/// that holds an unmatched remainder); else whether the start/end bracket leaves nest by kind.
fn bracket_tokens_nest(tree: &ErasedSegment) -> Option<bool> {
    if tree.recursive_crawl_all(false).iter().any(|n| n.get_type() == SyntaxKind::Unparsable || (n.get_type() == SyntaxKind::File && n.id() != tree.id())) {
        return None;
    }
    let mut stack: Vec<SyntaxKind> = vec![];
    for l in tree.get_raw_segments() {
        let k = l.get_type();
        match k {
            SyntaxKind::StartBracket | SyntaxKind::StartSquareBracket | SyntaxKind::StartCurlyBracket | SyntaxKind::StartAngleBracket | SyntaxKind::StartExcludeBracket => stack.push(k),
            SyntaxKind::EndBracket | SyntaxKind::EndSquareBracket | SyntaxKind::EndCurlyBracket | SyntaxKind::EndAngleBracket | SyntaxKind::EndExcludeBracket => {
                let want = match k {
                    SyntaxKind::EndBracket => SyntaxKind::StartBracket,
                    SyntaxKind::EndSquareBracket => SyntaxKind::StartSquareBracket,
                    SyntaxKind::EndCurlyBracket => SyntaxKind::StartCurlyBracket,
                    SyntaxKind::EndAngleBracket => SyntaxKind::StartAngleBracket,
                    _ => SyntaxKind::StartExcludeBracket,
                };
                if stack.pop() != Some(want) {
                    return Some(false);
                }
            }
            _ => {}
        }
    }
    Some(stack.is_empty())
}

fn run_parse(cx: &mut Cx, it: &c02::Item, out: &mut Buf) {
    let input = json!({"kind": "parse", "dialect": it.dialect, "sql": it.sql});
    let cfg = cx.c02.cfg(&it.dialect);
    let tables = Tables::default();
    out.count("parse_inputs", 1);
    let Ok(p) = c02::lex_and_parse(cfg, &tables, &it.sql) else {
        out.count("lexer_failed", 1);
        return;
    };
    let Ok(Some(tree)) = &p.result else {
        out.count("no_tree", 1);
        return;
    };
    // the text the positions refer to is the token text (lexer losslessness is C01)
    let text: String = p.tokens.iter().map(|t| t.raw().as_str()).collect();
    if text != it.sql {
        out.count("token_text_differs_from_input", 1);
        // token slices then refer to the input, not to the token text: outside C12's premise
        return;
    }
    let fails = check_parse_tree(tree, &text, None);
    report_tree(out, it.cls, &fails, tree, &format!("{}:{}", it.dialect, short_hash(&it.sql)), &input);
    if it.cls.starts_with("bracket-") {
        out.count(&format!("{}_trees_checked", it.cls), 1);
        if tree.recursive_crawl_all(false).iter().any(|n| n.get_type() == SyntaxKind::Bracketed) {
            out.count(&format!("{}_trees_with_bracketed_nodes", it.cls), 1);
        }
    }
    if it.sql.contains('\n') && !it.sql.is_ascii() {
        out.count("parse_inputs_multiline_non_ascii", 1);
    }
    let mut budget = 1usize;
    // (the bracket-structure stream is there for the direct clauses; its trees add nothing to the kernel ties)
    if tree_size(tree) <= 400 && !it.cls.starts_with("bracket-") {
        hull_cases(out, tree, &text, &mut budget);
        if short_hash(&it.sql).as_bytes()[11] % 2 == 0 {
            meta_case(out, it.cls, &p, tree, &text, &input);
        }
    }
}

fn run_fix(cx: &mut Cx, cls: &'static str, dialect: &str, rules: &str, tpl: &Option<Tpl>, sql: &str, out: &mut Buf) {
    let input = json!({"kind": "fix", "dialect": dialect, "rules": rules, "tpl": tpl_json(tpl), "sql": sql});
    out.count("fix_inputs", 1);
    if tpl.is_some() {
        out.count("fix_inputs_templated", 1);
    }
    let linter = linter_for(cx, dialect, rules, tpl);
    // every tree the fix loop rebuilds
    let trees: Rc<RefCell<Vec<(String, bool, ErasedSegment)>>> = Rc::new(RefCell::new(vec![]));
    let calls: Rc<RefCell<Vec<(Vec<ErasedSegment>, PositionMarker, Vec<ErasedSegment>)>>> = Rc::new(RefCell::new(vec![]));
    {
        let trees = trees.clone();
        fix_hook::FIX_HOOK.with(|h| {
            *h.borrow_mut() = Some(Box::new(move |ev| match ev {
                fix_hook::FixEvent::Batch { rule, after, accepted, .. } => trees.borrow_mut().push((rule.to_string(), accepted, after.clone())),
                fix_hook::FixEvent::End { tree } => trees.borrow_mut().push(("<end>".to_string(), true, tree.clone())),
                _ => {}
            }))
        });
        let calls = calls.clone();
        pos_hook::POS_HOOK.with(|h| {
            *h.borrow_mut() = Some(Box::new(move |segs, parent, result| {
                let mut c = calls.borrow_mut();
                if c.len() < 4000 {
                    c.push((segs.to_vec(), parent.clone(), result.to_vec()));
                }
            }))
        });
    }
    let r = catch(|| linter.lint_string(sql, None, true));
    fix_hook::FIX_HOOK.with(|h| *h.borrow_mut() = None);
    pos_hook::POS_HOOK.with(|h| *h.borrow_mut() = None);
    if r.is_err() {
        out.count("fix_panics", 1); // C03's business
        return;
    }
    let trees = trees.borrow();
    let key_base = match tpl {
        None => format!("{}:{}:{}", dialect, rules, short_hash(sql)),
        Some(t) => format!("{}:{}:{}:{}", dialect, rules, t.style, short_hash(&format!("{}{}", sql, tpl_json(tpl)))),
    };
    let mut n_batches = 0;
    for (rule, accepted, tree) in trees.iter() {
        if rule != "<end>" {
            n_batches += 1;
        }
        let why = check_working_positions(tree);
        let c = if rule == "<end>" {
            "fix-final-tree"
        } else if *accepted {
            "fix-batch-accepted"
        } else {
            "fix-batch-rejected"
        };
        out.direct(c, why.is_none(), &format!("c12-postfix:{}:{}", rule, key_base), &format!("after {}: {}", rule, why.clone().unwrap_or_default()), input.clone());
        out.hyp("clause_postfix_working_positions", "blocking", why.is_none(), json!({"input": input, "rule": rule}));
        // diagnostic: the cached leaf list of the root agrees with the leaves of the tree
        let cached: Vec<(usize, usize)> = tree.raw_segments_with_ancestors().iter().filter_map(|(l, _)| l.get_position_marker().map(|m| m.working_loc())).collect();
        let actual: Vec<(usize, usize)> = tree.get_raw_segments().iter().filter_map(|l| l.get_position_marker().map(|m| m.working_loc())).collect();
        out.hyp("diag_cached_leaf_list_positions_fresh", "diagnostic", cached == actual, json!({"input": input, "rule": rule}));
    }
    out.count("fix_batches", n_batches);
    if n_batches > 0 {
        out.count("fix_inputs_with_batches", 1);
    }
    // recorded position_segments calls (sampled: small ones, those that moved something first)
    let calls = calls.borrow();
    out.count("position_segments_calls_recorded", calls.len());
    let mut emitted = 0;
    for (segs, _, _) in calls.iter() {
        let pre = segs.iter().all(preb);
        out.hyp("H_edit_pre_position_segments_inputs_consistent_below_kept_markers", "blocking", pre, json!({"input": input, "segs": trunc(&g_list(segs.iter().map(g_ptree)), 1500)}));
    }
    for (k, (segs, parent, result)) in calls.iter().enumerate() {
        let size: usize = segs.iter().map(tree_size).sum();
        let bytes: usize = segs.iter().map(tree_bytes).sum();
        if size > 60 || bytes > 400 || segs.is_empty() {
            continue;
        }
        let has_new = segs.iter().any(|s| s.get_position_marker().is_none());
        if !(has_new || k % 7 == 0) {
            continue;
        }
        if emitted >= 2 {
            break;
        }
        emitted += 1;
        ps_case(out, cls, segs, parent, result, json!({"input": input, "call": k}));
    }
}

/// position_segments on perturbed real trees + the small kernels on random data
fn run_kernels(cx: &mut Cx, seed: u64, out: &mut Buf) {
    let mut rng = Rng::new(seed);
    const SQLS: &[&str] = &[
        "SELECT a, b FROM t WHERE c = 1\n",
        "SELECT\n    a,\n    b\nFROM t\n",
        "SELECT 'multi\nline', x -- c\nFROM (SELECT 1) AS s\n",
        "/* block\ncomment */ SELECT 'é' AS ü\nFROM t;\n",
        "INSERT INTO t (a, b) VALUES (1, 'x'), (2, 'y');\n",
    ];
    let sql = SQLS[rng.below(SQLS.len())];
    let cfg = cx.c02.cfg("ansi");
    let tables = Tables::default();
    let Ok(p) = c02::lex_and_parse(cfg, &tables, sql) else { return };
    let Ok(Some(tree)) = &p.result else { return };
    // kernels on real raws
    let mut raws: Vec<String> = p.tokens.iter().map(|t| t.raw().to_string()).collect();
    raws.push(String::new());
    raws.push("\n".into());
    raws.push("a\n\nb".into());
    raws.push("\n\n".into());
    raws.push("é\nü".into());
    raws.push(sql.to_string());
    for _ in 0..6 {
        let n = rng.below(12);
        raws.push((0..n).map(|_| *rng.pick(&['a', '\n', ' ', 'é', '\t', '\r'])).collect());
    }
    rng.shuffle(&mut raws);
    raws.truncate(10);
    infer_cases(&mut rng, out, &raws);
    linepos_cases(&mut rng, out, sql);
    // the same kernel on a file whose templated text differs from its source
    for _ in 0..2 {
        if let Some(tf) = synth_tf(&mut rng) {
            tf_cases(&mut rng, out, "synthetic-templated-file", &tf, 4, &json!({"kind": "kernels", "seed": seed}));
        }
    }
    // perturb the children of a random node: replace / insert / delete leaves, drop positions
    let nodes: Vec<ErasedSegment> = tree.recursive_crawl_all(false).into_iter().filter(|n| n.segments().len() >= 2 && tree_size(n) <= 40).collect();
    if nodes.is_empty() {
        return;
    }
    for _ in 0..3 {
        let node = &nodes[rng.below(nodes.len())];
        let mut segs: Vec<ErasedSegment> = node.segments().to_vec();
        let nops = rng.range(1, 3);
        for _ in 0..nops {
            if segs.is_empty() {
                break;
            }
            let i = rng.below(segs.len());
            match rng.below(4) {
                0 => {
                    // new segment without position (as a fix edit would create)
                    let raw = *rng.pick(&[" ", "\n", "x", "  \n  ", "é", ""]);
                    segs.insert(i, SegmentBuilder::token(tables.next_id(), raw, SyntaxKind::Whitespace).finish());
                }
                1 => {
                    segs.remove(i);
                }
                2 => {
                    // replace a leaf by one with another raw, keeping the old marker (Replace with consumed_pos)
                    if segs[i].segments().is_empty() {
                        let raw = *rng.pick(&["yy", "\n", "zzzz\nq", ""]);
                        let mut b = SegmentBuilder::token(tables.next_id(), raw, segs[i].get_type());
                        if let Some(m) = segs[i].get_position_marker() {
                            b = b.with_position(m.clone());
                        }
                        segs[i] = b.finish();
                    }
                }
                _ => {
                    // a new node without position whose children are new leaves
                    let kids = vec![SegmentBuilder::token(tables.next_id(), "k", SyntaxKind::Keyword).finish(), SegmentBuilder::token(tables.next_id(), "\n", SyntaxKind::Newline).finish()];
                    segs.insert(i, SegmentBuilder::node(tables.next_id(), SyntaxKind::Expression, cfg.get_dialect().name, kids).finish());
                }
            }
        }
        if segs.is_empty() {
            continue;
        }
        let parent = node.get_position_marker().unwrap().clone();
        let input = json!({"kind": "kernels", "seed": seed});
        match catch(|| position_segments(&segs, &parent)) {
            Ok(result) => {
                ps_case(out, "perturbed-children", &segs, &parent, &result, json!({"input": input}));
                // the theorem's conclusion observed on the real result
                let mut line = parent.working_line_no;
                let mut pos = parent.working_line_pos;
                let mut ok = true;
                for s in &result {
                    for l in s.get_raw_segments() {
                        let m = l.get_position_marker().unwrap();
                        if (m.working_line_no, m.working_line_pos) != (line, pos) {
                            ok = false;
                        }
                        (line, pos) = PositionMarker::infer_next_position(l.raw(), line, pos);
                    }
                }
                out.direct("perturbed-children", ok, &format!("c12-position-segments:{}", seed), "position_segments left a leaf at a stale working position", input);
            }
            Err(_) => {
                let args = g_tuple(&[g_list(nl_offsets(sql).iter().map(|x| g_n(*x))), g_list(segs.iter().map(g_ptree)), g_marker(&parent)]);
                let pre = segs.iter().all(preb);
                out.case("ps", "perturbed-children-panic", false, args, g_tuple(&[g_bool(pre), "None".into()]), json!({"input": input}));
            }
        }
    }
}


// ---------------------------------------------------------------- generators: templated inputs
/// (param_style or regex, is a regex, text whose presence in the file would create further matches, numeric names)
const TSTYLES: &[(&str, bool, &str, bool)] = &[
    ("colon", false, ":", false),
    ("numeric_colon", false, ":", true),
    ("dollar", false, "$", false),
    ("numeric_dollar", false, "$", true),
    ("pyformat", false, "%", false),
    ("question_mark", false, "?", true),
    ("percent", false, "%", true),
    ("ampersand", false, "&", false),
    (r"__(?P<param_name>[\w_]+)__", true, "__", false),
];
/// text of the `k`-th placeholder (0-based, in order of appearance) and the name it is looked up by
fn ph_text(style: usize, k: usize, rng: &mut Rng) -> (String, String) {
    const NAMES: [&str; 6] = ["x", "my_param", "p", "some_longer_name", "v2", "q"];
    let nm = NAMES[k % NAMES.len()].to_string();
    let num = (k + 1).to_string();
    match TSTYLES[style].0 {
        "colon" => (format!(":{}", nm), nm),
        "numeric_colon" => (format!(":{}", num), num),
        "dollar" => (if rng.chance(1, 2) { format!("${}", nm) } else { format!("${{{}}}", nm) }, nm),
        "numeric_dollar" => (if rng.chance(1, 2) { format!("${}", num) } else { format!("${{{}}}", num) }, num),
        "pyformat" => (format!("%({})s", nm), nm),
        "question_mark" => ("?".to_string(), num),
        "percent" => ("%s".to_string(), num),
        "ampersand" => (if rng.chance(1, 2) { format!("&{}", nm) } else { format!("&{{{}}}", nm) }, nm),
        _ => (format!("__{}__", nm), nm),
    }
}
/// sample value for a placeholder standing where `raw` stood: the same text (templated text = the
/// original file, only the source differs), or a text of another length / with other line breaks
fn ph_value(raw: &str, rng: &mut Rng) -> String {
    match rng.below(13) {
        0..=3 => raw.to_string(),
        4 => format!("{}\n", raw),
        5 => format!("\n    {}", raw),
        6 => format!("{},\n    {}", raw, raw),
        7 => "x".to_string(),
        8 => "some_very_long_identifier_name_here".to_string(),
        9 => "'é\nü'".to_string(),
        10 => String::new(),
        11 => format!("/* c\nc */ {}", raw),
        _ => "1".to_string(),
    }
}
fn is_word_byte(b: u8) -> bool {
    b.is_ascii_alphanumeric() || b == b'_' || b >= 0x80
}
/// Replace 1..=4 tokens of a lexed file by placeholders of one style.
fn templatize(rng: &mut Rng, raws: &[String]) -> Option<(Tpl, String)> {
    let text: String = raws.concat();
    let styles: Vec<usize> = (0..TSTYLES.len()).filter(|&i| !text.contains(TSTYLES[i].2)).collect();
    if styles.is_empty() {
        return None;
    }
    let style = styles[rng.below(styles.len())];
    // tokens a placeholder can stand for: not blank, not glued to a word character / ':' / '\' on
    // the left (the styles' look-behind) nor to a word character on the right (it would join the name)
    let mut off = 0usize;
    let mut cand: Vec<usize> = vec![];
    for (i, r) in raws.iter().enumerate() {
        let before = text.as_bytes()[..off].last().copied();
        let after = text.as_bytes().get(off + r.len()).copied();
        off += r.len();
        if r.trim().is_empty() {
            continue;
        }
        if before.is_some_and(|b| is_word_byte(b) || b == b':' || b == b'\\' || b == b'&' || b == b'$' || b == b'%') {
            continue;
        }
        if after.is_some_and(|b| is_word_byte(b) || b == b':' || b == b'{' || b == b'}') {
            continue;
        }
        cand.push(i);
    }
    if cand.is_empty() {
        return None;
    }
    rng.shuffle(&mut cand);
    cand.truncate(rng.range(1, 4));
    cand.sort();
    let mut v: Vec<String> = raws.to_vec();
    let mut values = vec![];
    for (k, &i) in cand.iter().enumerate() {
        let (ph, name) = ph_text(style, k, rng);
        values.push((name, ph_value(&raws[i], rng)));
        v[i] = ph;
    }
    Some((Tpl { style: TSTYLES[style].0.to_string(), is_regex: TSTYLES[style].1, values }, v.concat()))
}

/// multi-line / non-ASCII statements with `@` slots for placeholders
const TSKELETONS: &[&str] = &[
    "select @ as x,\n    'é' as y -- ü\nfrom t\nwhere a in (@, 2)\n  and b = @\n",
    "/* é\n */ SELECT @,\n  b\nFROM t;\n\nSELECT 'multi\nline', @\nFROM u\n",
    "INSERT INTO t (a, b)\nVALUES (@, 'x'),\n  (@, 'y');\n",
    "SELECT a FROM t\nWHERE a = @\n\n\nORDER BY 1\n",
    "SELECT @\n",
    "SELECT a, @ ,c\nFROM  t -- @ in a comment\nwhere  a =  1\n",
    "WITH c AS (\n    SELECT @ FROM t\n)\nselect * from c\njoin d on c.a = d.a\n",
    "UPDATE t SET a = @,\n  b = 2\nWHERE c = @;\n",
];
const TVALUES: &[&str] = &["1", "a", "some_very_long_identifier_name_here", "1,\n    2", "col_a,\n  col_b,\n      col_c", "x\n", "\n1", "'s'", "'é\nü'", "", "1\n\n\n", "a  ,b"];

fn skeleton_tpl(rng: &mut Rng, skel: &str) -> (Tpl, String) {
    let style = rng.below(TSTYLES.len());
    let mut sql = String::new();
    let mut values = vec![];
    for (k, part) in skel.split('@').enumerate() {
        if k > 0 {
            let (ph, name) = ph_text(style, k - 1, rng);
            sql.push_str(&ph);
            if rng.chance(5, 6) {
                values.push((name, rng.pick(TVALUES).to_string()));
            }
        }
        sql.push_str(part);
    }
    (Tpl { style: TSTYLES[style].0.to_string(), is_regex: TSTYLES[style].1, values }, sql)
}

// ---------------------------------------------------------------- generators: bracket structure
const BRACKETS: [(&str, &str); 3] = [("(", ")"), ("[", "]"), ("{", "}")];
fn open_kind(t: &str) -> Option<usize> {
    BRACKETS.iter().position(|b| b.0 == t)
}
fn close_kind(t: &str) -> Option<usize> {
    BRACKETS.iter().position(|b| b.1 == t)
}
/// tokens of a well-nested body: elements separated by commas, an element is an atom or a group
fn bracket_body(rng: &mut Rng, depth: usize, out: &mut Vec<String>) {
    let n = rng.range(1, 3);
    for i in 0..n {
        if i > 0 {
            out.push(if rng.chance(1, 4) { ",\n    ".into() } else if rng.chance(1, 2) { ", ".into() } else { " ".into() });
        }
        if depth > 0 && rng.chance(3, 5) {
            // round brackets most often, the other kinds often enough to meet each other
            let k = match rng.below(5) {
                0 | 1 => 0,
                2 | 3 => 1,
                _ => 2,
            };
            out.push(BRACKETS[k].0.into());
            bracket_body(rng, depth - 1, out);
            out.push(BRACKETS[k].1.into());
        } else {
            out.push(rng.pick(&["1", "a", "'s'", "b.c", "2 + 3", "x y"]).to_string());
        }
    }
}
/// Damage the bracket structure of a token list: exchange two closing (or opening) brackets of
/// different kinds (every kind stays balanced by count, the groups cross), change the kind of one
/// bracket, or drop one. Returns the name of what was done.
fn damage_brackets(rng: &mut Rng, v: &mut Vec<String>) -> &'static str {
    let closers: Vec<usize> = (0..v.len()).filter(|&i| close_kind(&v[i]).is_some()).collect();
    let openers: Vec<usize> = (0..v.len()).filter(|&i| open_kind(&v[i]).is_some()).collect();
    let pair_of_kinds = |rng: &mut Rng, xs: &[usize], v: &[String]| -> Option<(usize, usize)> {
        let mut pairs = vec![];
        for (a, &i) in xs.iter().enumerate() {
            for &j in &xs[a + 1..] {
                if v[i] != v[j] {
                    pairs.push((i, j));
                }
            }
        }
        if pairs.is_empty() { None } else { Some(pairs[rng.below(pairs.len())]) }
    };
    match rng.below(10) {
        0..=2 => "well-nested",
        3..=5 => match pair_of_kinds(rng, &closers, v) {
            Some((i, j)) => {
                v.swap(i, j);
                "closers-exchanged"
            }
            None => "well-nested",
        },
        6 => match pair_of_kinds(rng, &openers, v) {
            Some((i, j)) => {
                v.swap(i, j);
                "openers-exchanged"
            }
            None => "well-nested",
        },
        7 | 8 => {
            let all: Vec<usize> = closers.iter().chain(openers.iter()).copied().collect();
            if all.is_empty() {
                return "well-nested";
            }
            let i = all[rng.below(all.len())];
            let (k, closing) = match close_kind(&v[i]) {
                Some(k) => (k, true),
                None => (open_kind(&v[i]).unwrap(), false),
            };
            let k2 = (k + 1 + rng.below(2)) % 3;
            v[i] = if closing { BRACKETS[k2].1.into() } else { BRACKETS[k2].0.into() };
            "kind-changed"
        }
        _ => {
            let all: Vec<usize> = closers.iter().chain(openers.iter()).copied().collect();
            if all.is_empty() {
                return "well-nested";
            }
            v.remove(all[rng.below(all.len())]);
            "bracket-dropped"
        }
    }
}
fn gen_body(rng: &mut Rng) -> String {
    let mut v = vec![];
    let depth = rng.range(1, 3);
    bracket_body(rng, depth, &mut v);
    damage_brackets(rng, &mut v);
    v.concat()
}

/// statements with a bracketed region at `@`: expression / list / subquery positions, and the
/// places where the grammars accept free-form bracketed content (column definition options,
/// EXCEPT lists, function OPTIONS, aggregate signatures, composite types)
const BSKELETONS: &[&str] = &[
    "SELECT (@) FROM t\n",
    "SELECT f(@) FROM t\n",
    "SELECT a FROM t WHERE b IN (@)\n",
    "SELECT [@] FROM t\n",
    "SELECT a[@] FROM t\n",
    "INSERT INTO t (a) VALUES (@)\n",
    "SELECT a FROM (@) AS s\n",
    "SELECT CAST(a AS DECIMAL(@)) FROM t\n",
    "SELECT a FROM t GROUP BY ROLLUP (@)\n",
    "CREATE TABLE t (a INT (@))\n",
    "CREATE TABLE t (\n    a INT (@),\n    b VARCHAR(10) (@)\n)\n",
    "CREATE TABLE t (a INT DEFAULT (@), b STRUCT<c INT> (@))\n",
    "ALTER TABLE t ADD COLUMN a INT (@)\n",
    "SELECT * EXCEPT (@) FROM t\n",
    "SELECT a FROM t EXCEPT (@)\n",
    "CREATE FUNCTION f(x INT64) RETURNS INT64 LANGUAGE js OPTIONS (library = @) AS 'return x;'\n",
    "ALTER AGGREGATE f (@) RENAME TO g\n",
    "COMMENT ON AGGREGATE f (@) IS 'x'\n",
    "CREATE TYPE ty AS (@)\n",
    "CREATE INDEX i ON t (@)\n",
    "SELECT a FROM t WHERE (@)\n;\nSELECT (@)\n",
];

fn bracket_skeleton_item(rng: &mut Rng) -> c02::Item {
    let skel = *rng.pick(BSKELETONS);
    let mut sql = String::new();
    for (k, part) in skel.split('@').enumerate() {
        if k > 0 {
            sql.push_str(&gen_body(rng));
        }
        sql.push_str(part);
    }
    c02::Item { cls: "bracket-skeleton", dialect: DIALECTS[rng.below(DIALECTS.len())].to_string(), sql }
}

/// A lexed corpus file with the content of one of its bracket pairs replaced by (or preceded by)
/// a generated body, or with its own brackets damaged.
fn bracket_corpus_item(rng: &mut Rng, dialect: &str, raws: &[String]) -> Option<c02::Item> {
    let mut v: Vec<String> = raws.to_vec();
    // matching pairs by a kind-blind stack (the file is well bracketed)
    let mut stack = vec![];
    let mut pairs = vec![];
    for (i, r) in v.iter().enumerate() {
        if open_kind(r).is_some() {
            stack.push(i);
        } else if close_kind(r).is_some() {
            if let Some(o) = stack.pop() {
                pairs.push((o, i));
            }
        }
    }
    if pairs.is_empty() {
        return None;
    }
    match rng.below(4) {
        0 => {
            damage_brackets(rng, &mut v);
        }
        1 => {
            let (o, c) = pairs[rng.below(pairs.len())];
            v.splice(o + 1..c, [gen_body(rng)]);
        }
        2 => {
            let (o, c) = pairs[rng.below(pairs.len())];
            let body = if c > o + 1 { format!("{}, ", gen_body(rng)) } else { gen_body(rng) };
            v.insert(o + 1, body);
        }
        _ => {
            let (_, c) = pairs[rng.below(pairs.len())];
            v.insert(c, format!(" ({})", gen_body(rng)));
        }
    }
    Some(c02::Item { cls: "bracket-corpus", dialect: dialect.to_string(), sql: v.concat() })
}

/// A templated file put together from literal pieces and replaced pieces (no SQL needed).
fn synth_tf(rng: &mut Rng) -> Option<TemplatedFile> {
    const LITS: &[&str] = &["SELECT ", "a,\n  ", "\n", "b\nFROM t\n", " ", "-- é\n", "WHERE x = ", "\n\n", "'multi\nline'"];
    const PHS: &[&str] = &[":x", ":name", "?", "${v}", "%(p)s", "__long_placeholder_name__"];
    const VALS: &[&str] = &["1", "", "a,\nb", "\n", "'long string value'", "é\nü\n", "x", "\n\n\n"];
    let (mut source, mut templated) = (String::new(), String::new());
    let (mut sliced, mut raw_sliced) = (vec![], vec![]);
    let n = rng.range(2, 7);
    for k in 0..n {
        let (kind, s, t) = if k % 2 == 0 { let l = *rng.pick(LITS); ("literal", l, l) } else { ("templated", *rng.pick(PHS), *rng.pick(VALS)) };
        sliced.push(TemplatedFileSlice::new(kind, source.len()..source.len() + s.len(), templated.len()..templated.len() + t.len()));
        raw_sliced.push(RawFileSlice::new(s.to_string(), kind.to_string(), source.len(), None, None));
        source.push_str(s);
        templated.push_str(t);
    }
    catch(|| TemplatedFile::new(source, "<synthetic>".to_string(), Some(templated), Some(sliced), Some(raw_sliced))).ok().and_then(|r| r.ok())
}

fn rng_pick_skel(rng: &mut Rng) -> &'static str {
    TSKELETONS[rng.below(TSKELETONS.len())]
}

fn run_one(cx: &mut Cx, it: &Item, out: &mut Buf) {
    match it {
        Item::Parse(p) => run_parse(cx, p, out),
        Item::TParse { cls, dialect, tpl, sql } => run_tparse(cx, cls, dialect, tpl, sql, fnv(sql), out),
        Item::Fix { cls, dialect, rules, tpl, sql } => run_fix(cx, cls, dialect, rules, tpl, sql, out),
        Item::Kernels { seed } => run_kernels(cx, *seed, out),
    }
}

const RULESETS: &[&str] = &["all", "core", "LT01", "LT02", "LT01,LT02,LT03,LT04,LT05", "CP01,CP02,CP03", "AL01,AL02,AL05", "LT09,LT10,LT12", "ST01,ST02", "CV01,CV02,CV03,CV04,CV05", "RF01,RF02,RF03", "AM01,AM02,AM06", "CV06,CV10,CV11", "LT06,LT07,LT08,LT13"];

const EXTRA_SQL: &[&str] = &[
    "select a,b from t where x=1\n",
    "SELECT a  ,  b FROM t ; \n",
    "select\n a,\n   b\n  from t\nwhere a in (1,2,\n3)\n",
    "SELECT 'multi\nline' , b from t -- trailing   \n",
    "/* é */ select 'ü'  as x,y  from  t\n",
    "select a from t\n\n\n\n",
    "select case when a then b else c end from t inner join u on t.a=u.a\n",
    "SELECT a FROM t WHERE a IN (SELECT b FROM u WHERE c=1)\n",
];

pub fn main(args: &Args) {
    if std::env::var("SQV_LOUD").is_err() {
        silence_panics();
    }
    let mut out = Out::new(&args.out);
    let mut rng = Rng::new(args.seed);
    let mut items: Vec<Item> = vec![];
    if let Some(path) = args.flag("--replay-input") {
        let v: Value = serde_json::from_str(&std::fs::read_to_string(path).unwrap()).unwrap();
        let v = if v.get("input").is_some() { v["input"].clone() } else { v };
        let v = if v.get("input").is_some() { v["input"].clone() } else { v };
        match v["kind"].as_str().unwrap_or("parse") {
            "fix" => items.push(Item::Fix { cls: "replay", dialect: v["dialect"].as_str().unwrap_or("ansi").into(), rules: v["rules"].as_str().unwrap_or("all").into(), tpl: tpl_from_json(&v["tpl"]), sql: v["sql"].as_str().unwrap_or("").into() }),
            "tparse" => items.push(Item::TParse { cls: "replay", dialect: v["dialect"].as_str().unwrap_or("ansi").into(), tpl: tpl_from_json(&v["tpl"]), sql: v["sql"].as_str().unwrap_or("").into() }),
            "kernels" => items.push(Item::Kernels { seed: v["seed"].as_u64().unwrap_or(1) }),
            _ => items.push(Item::Parse(c02::Item { cls: "replay", dialect: v["dialect"].as_str().unwrap_or("ansi").into(), sql: v["sql"].as_str().unwrap_or("").into() })),
        }
    } else {
        let thorough = args.thorough();
        for it in c02::corpus_items(&mut rng, thorough, 300, if thorough { 6000 } else { 400 }) {
            items.push(Item::Parse(it));
        }
        // post-fix clause: rule fixtures and corpus samples x rule selections
        let snippets = rule_snippets();
        for (i, (_, s)) in snippets.iter().enumerate() {
            if thorough {
                for r in RULESETS {
                    items.push(Item::Fix { cls: "rule-snippet", dialect: "ansi".into(), rules: r.to_string(), tpl: None, sql: s.clone() });
                }
            } else {
                let r = if i % 2 == 0 { "all" } else { RULESETS[rng.below(RULESETS.len())] };
                items.push(Item::Fix { cls: "rule-snippet", dialect: "ansi".into(), rules: r.to_string(), tpl: None, sql: s.clone() });
            }
        }
        for s in EXTRA_SQL {
            for r in RULESETS {
                items.push(Item::Fix { cls: "multi-line-non-ascii", dialect: "ansi".into(), rules: r.to_string(), tpl: None, sql: s.to_string() });
            }
        }
        let files = corpus();
        let small: Vec<&CorpusFile> = files.iter().filter(|f| f.text.len() <= 1200).collect();
        for _ in 0..(if thorough { 1500 } else { 150 }) {
            let f = small[rng.below(small.len())];
            let r = if rng.chance(1, 2) { "all" } else { RULESETS[rng.below(RULESETS.len())] };
            items.push(Item::Fix { cls: "corpus", dialect: f.dialect.clone(), rules: r.to_string(), tpl: None, sql: f.text.clone() });
        }
        // ---- bracket structure: generated bodies in statement skeletons and in the bracket pairs of corpus files
        let mut lexcx = c02::Ctx::new();
        let lex_raws = |lexcx: &mut c02::Ctx, dialect: &str, text: &str| -> Option<Vec<String>> {
            let tables = Tables::default();
            c02::lex(lexcx.cfg(dialect), &tables, text).ok().map(|(t, _)| t.iter().map(|t| t.raw().to_string()).collect())
        };
        for _ in 0..(if thorough { 20000 } else { 2000 }) {
            items.push(Item::Parse(bracket_skeleton_item(&mut rng)));
        }
        let with_brackets: Vec<&CorpusFile> = small.iter().copied().filter(|f| f.text.contains('(')).collect();
        for _ in 0..(if thorough { 12000 } else { 1200 }) {
            let f = with_brackets[rng.below(with_brackets.len())];
            if let Some(raws) = lex_raws(&mut lexcx, &f.dialect, &f.text) {
                if let Some(it) = bracket_corpus_item(&mut rng, &f.dialect, &raws) {
                    items.push(Item::Parse(it));
                }
            }
        }
        // ---- a templater whose output differs from its input (placeholder), and the raw templater
        //      through the same entry point (Linter::parse_string)
        for s in EXTRA_SQL {
            items.push(Item::TParse { cls: "parse-string-raw", dialect: "ansi".into(), tpl: None, sql: s.to_string() });
        }
        for _ in 0..(if thorough { 3000 } else { 220 }) {
            let skel = rng_pick_skel(&mut rng);
            let (tpl, sql) = skeleton_tpl(&mut rng, skel);
            let dialect = if rng.chance(1, 2) { "ansi" } else { DIALECTS[rng.below(DIALECTS.len())] };
            items.push(Item::TParse { cls: "placeholder-skeleton", dialect: dialect.into(), tpl: Some(tpl), sql });
        }
        let snippet_texts: Vec<&String> = snippets.iter().map(|(_, s)| s).filter(|s| s.len() <= 1200).collect();
        for k in 0..(if thorough { 8000 } else { 600 }) {
            let (dialect, text): (&str, &str) = if k % 3 == 0 {
                ("ansi", snippet_texts[rng.below(snippet_texts.len())])
            } else {
                let f = small[rng.below(small.len())];
                (&f.dialect, &f.text)
            };
            let Some(raws) = lex_raws(&mut lexcx, dialect, text) else { continue };
            if let Some((tpl, sql)) = templatize(&mut rng, &raws) {
                items.push(Item::TParse { cls: "placeholder-corpus", dialect: dialect.into(), tpl: Some(tpl), sql });
            }
        }
        // post-fix clause under templating
        for k in 0..(if thorough { 2500 } else { 200 }) {
            let r = if rng.chance(1, 2) { "all" } else { RULESETS[rng.below(RULESETS.len())] };
            if k % 4 == 0 {
                let skel = rng_pick_skel(&mut rng);
            let (tpl, sql) = skeleton_tpl(&mut rng, skel);
                items.push(Item::Fix { cls: "placeholder-skeleton", dialect: "ansi".into(), rules: r.to_string(), tpl: Some(tpl), sql });
                continue;
            }
            let (dialect, text): (&str, &str) = if k % 2 == 0 {
                ("ansi", snippet_texts[rng.below(snippet_texts.len())])
            } else {
                let f = small[rng.below(small.len())];
                (&f.dialect, &f.text)
            };
            let Some(raws) = lex_raws(&mut lexcx, dialect, text) else { continue };
            if let Some((tpl, sql)) = templatize(&mut rng, &raws) {
                items.push(Item::Fix { cls: "placeholder-corpus", dialect: dialect.into(), rules: r.to_string(), tpl: Some(tpl), sql });
            }
        }
        for k in 0..(if thorough { 3000 } else { 300 }) {
            items.push(Item::Kernels { seed: args.seed.wrapping_mul(1000003).wrapping_add(k) });
        }
    }
    par_run(&mut out, &items, || Cx { c02: c02::Ctx::new(), linters: Default::default() }, run_one);
    out.finish();
}
