//! C12 — parse trees carry consistent positions and structure.
//!  * direct structural checks on every parse tree: leaf slices contiguous, leaf text = slice,
//!    node span = hull of children, line/col = computed from the text, brackets match,
//!    non-file nodes start and end with code, indent/dedent balance on fully parsed files;
//!  * after fixes (every tree the fix loop rebuilds, via `verif_hook::FixEvent`): working
//!    line/col of every leaf equals the value computed from the rewritten text;
//!  * correspondence cases for the Gallina kernels: `infer_next_position`,
//!    `get_line_pos_of_char_pos`, `from_child_markers`, `position_segments` (recorded at its real
//!    call sites during fixing, and called on perturbed real trees), meta positions of `apply`.
use std::cell::RefCell;
use std::rc::Rc;

use serde_json::{Value, json};
use sqruff_lib::core::config::FluffConfig;
use sqruff_lib::core::linter::core::{Linter, verif_hook as fix_hook};
use sqruff_lib_core::dialects::syntax::SyntaxKind;
use sqruff_lib_core::parser::markers::PositionMarker;
use sqruff_lib_core::parser::segments::base::{ErasedSegment, SegmentBuilder, Tables, position_segments, verif_hook as pos_hook};
use sqruff_lib_core::templaters::base::TemplatedFile;

use crate::c02;
use crate::common::*;

// ---------------------------------------------------------------- helpers
/// (line, col) of byte offset `p` of `text`, computed from the text (1-based, bytes).
fn linecol(text: &str, p: usize) -> (usize, usize) {
    let b = &text.as_bytes()[..p.min(text.len())];
    let mut line = 1;
    let mut col = 1;
    for &c in b {
        if c == b'\n' {
            line += 1;
            col = 1;
        } else {
            col += 1;
        }
    }
    (line, col)
}
fn nl_offsets(text: &str) -> Vec<usize> {
    text.match_indices('\n').map(|(i, _)| i).collect()
}
fn g_marker(m: &PositionMarker) -> String {
    format!("(mkM {} {} {} {} {} {})", m.source_slice.start, m.source_slice.end, m.templated_slice.start, m.templated_slice.end, m.working_line_no, m.working_line_pos)
}
fn g_omarker(m: Option<&PositionMarker>) -> String {
    match m {
        Some(m) => format!("(Some {})", g_marker(m)),
        None => "None".into(),
    }
}
fn g_ptree(t: &ErasedSegment) -> String {
    if t.segments().is_empty() {
        // a node without children behaves like a leaf everywhere in position_segments
        format!("(PLeaf {} {} {})", t.id(), g_str(t.raw()), g_omarker(t.get_position_marker()))
    } else {
        format!("(PNode {} {} {})", t.id(), g_omarker(t.get_position_marker()), g_list(t.segments().iter().map(g_ptree)))
    }
}
fn tree_size(t: &ErasedSegment) -> usize {
    1 + t.segments().iter().map(tree_size).sum::<usize>()
}
fn tree_bytes(t: &ErasedSegment) -> usize {
    t.raw().len()
}
fn short_hash(s: &str) -> String {
    let mut h: u64 = 0xcbf29ce484222325;
    for b in s.as_bytes() {
        h ^= *b as u64;
        h = h.wrapping_mul(0x100000001b3);
    }
    format!("{:012x}", h & 0xffff_ffff_ffff)
}

// ---------------------------------------------------------------- structural checks on a parse tree
/// Returns (clause, message) of the first failure of each clause.
fn check_parse_tree(tree: &ErasedSegment, text: &str) -> Vec<(&'static str, String)> {
    let mut fails: Vec<(&'static str, String)> = vec![];
    let fail = |fails: &mut Vec<(&'static str, String)>, clause: &'static str, msg: String| {
        if !fails.iter().any(|(c, _)| *c == clause) {
            fails.push((clause, msg));
        }
    };
    let leaves = tree.get_raw_segments();
    // 1. contiguity, 2. text = slice, 4. line/col of leaves
    let mut cur_t = 0usize;
    let mut cur_s = 0usize;
    for (i, l) in leaves.iter().enumerate() {
        let Some(m) = l.get_position_marker() else {
            fail(&mut fails, "leaf-has-position", format!("leaf {} {:?} has no position", i, l.raw()));
            continue;
        };
        if m.templated_slice.start != cur_t || m.source_slice.start != cur_s {
            fail(&mut fails, "leaves-contiguous", format!("leaf {} {:?} starts at templated {} / source {}, previous ended at {} / {}", i, l.raw(), m.templated_slice.start, m.source_slice.start, cur_t, cur_s));
        }
        if m.templated_slice.end < m.templated_slice.start || m.source_slice.end < m.source_slice.start {
            fail(&mut fails, "leaves-contiguous", format!("leaf {} has a reversed slice", i));
        }
        cur_t = m.templated_slice.end;
        cur_s = m.source_slice.end;
        match text.get(m.templated_slice.clone()) {
            Some(s) if s == l.raw().as_str() => {}
            other => fail(&mut fails, "leaf-text-is-slice", format!("leaf {} raw {:?} but slice {:?} is {:?}", i, l.raw(), m.templated_slice, other)),
        }
        let lc = linecol(text, m.templated_slice.start);
        if (m.working_line_no, m.working_line_pos) != lc {
            fail(&mut fails, "leaf-linecol", format!("leaf {} {:?} working {:?} computed {:?}", i, l.raw(), (m.working_line_no, m.working_line_pos), lc));
        }
        if m.source_position() != lc || m.templated_position() != lc {
            fail(&mut fails, "leaf-linecol", format!("leaf {} {:?} source_position {:?} templated_position {:?} computed {:?}", i, l.raw(), m.source_position(), m.templated_position(), lc));
        }
    }
    if cur_t != text.len() {
        fail(&mut fails, "leaves-contiguous", format!("last leaf ends at {} but the text has {} bytes", cur_t, text.len()));
    }
    // 3. hull, node line/col, 5. brackets, 6. code edges
    let mut has_unparsable = false;
    for n in tree.recursive_crawl_all(false) {
        if n.get_type() == SyntaxKind::Unparsable {
            has_unparsable = true;
        }
        let ch = n.segments();
        if ch.is_empty() {
            continue;
        }
        let Some(m) = n.get_position_marker() else {
            fail(&mut fails, "node-has-position", format!("node {:?} has no position", n.get_type()));
            continue;
        };
        let ms: Vec<&PositionMarker> = ch.iter().filter_map(|c| c.get_position_marker()).collect();
        if ms.len() != ch.len() {
            continue;
        }
        let hs = ms.iter().map(|c| c.source_slice.start).min().unwrap();
        let he = ms.iter().map(|c| c.source_slice.end).max().unwrap();
        let ts = ms.iter().map(|c| c.templated_slice.start).min().unwrap();
        let te = ms.iter().map(|c| c.templated_slice.end).max().unwrap();
        if m.source_slice != (hs..he) || m.templated_slice != (ts..te) {
            fail(&mut fails, "node-span-is-hull", format!("node {:?} spans {:?}/{:?}, hull of children is {:?}/{:?}", n.get_type(), m.source_slice, m.templated_slice, hs..he, ts..te));
        }
        // children tile => hull = first start .. last end
        if ts != ms[0].templated_slice.start || te != ms[ms.len() - 1].templated_slice.end {
            fail(&mut fails, "node-span-is-hull", format!("node {:?}: hull {:?} is not first child start .. last child end", n.get_type(), ts..te));
        }
        let lc = linecol(text, m.templated_slice.start);
        if (m.working_line_no, m.working_line_pos) != lc {
            fail(&mut fails, "node-linecol", format!("node {:?} working {:?} computed {:?}", n.get_type(), (m.working_line_no, m.working_line_pos), lc));
        }
        if n.get_type() == SyntaxKind::Bracketed {
            let real: Vec<&ErasedSegment> = ch.iter().filter(|c| !c.is_meta()).collect();
            // the dialects' bracket pairs: ( ) [ ] { } < > and snowflake's {- -}
            let ok = match (real.first(), real.last()) {
                (Some(a), Some(b)) if real.len() >= 2 => matches!(
                    (a.get_type(), b.get_type()),
                    (SyntaxKind::StartBracket, SyntaxKind::EndBracket)
                        | (SyntaxKind::StartSquareBracket, SyntaxKind::EndSquareBracket)
                        | (SyntaxKind::StartCurlyBracket, SyntaxKind::EndCurlyBracket)
                        | (SyntaxKind::StartAngleBracket, SyntaxKind::EndAngleBracket)
                        | (SyntaxKind::StartExcludeBracket, SyntaxKind::EndExcludeBracket)
                ) && a.segments().is_empty() && b.segments().is_empty(),
                _ => false,
            };
            if !ok {
                fail(&mut fails, "brackets-match", format!("bracketed node {:?} does not start and end with matching brackets", trunc(n.raw(), 80)));
            }
        }
        if n.get_type() != SyntaxKind::File {
            let real: Vec<&ErasedSegment> = ch.iter().filter(|c| !c.is_meta()).collect();
            let ok = match (real.first(), real.last()) {
                (Some(a), Some(b)) => a.is_code() && b.is_code(),
                _ => true, // only metas
            };
            if !ok {
                fail(&mut fails, "nodes-start-end-with-code", format!("node {:?} {:?} starts or ends with non-code", n.get_type(), trunc(n.raw(), 80)));
            }
        }
    }
    // 7. indent balance on fully parsed files
    if !has_unparsable {
        let sum: i32 = leaves.iter().map(|l| l.indent_val() as i32).sum();
        if sum != 0 {
            fail(&mut fails, "indent-balance", format!("indent/dedent markers sum to {}", sum));
        }
    }
    fails
}

/// After fixes: working line/col of every leaf equals the value computed from the rewritten text.
fn check_working_positions(tree: &ErasedSegment) -> Option<String> {
    let text: String = tree.raw().to_string();
    let leaves = tree.get_raw_segments();
    let mut off = 0usize;
    for (i, l) in leaves.iter().enumerate() {
        let Some(m) = l.get_position_marker() else {
            return Some(format!("leaf {} {:?} has no position", i, l.raw()));
        };
        let lc = linecol(&text, off);
        if (m.working_line_no, m.working_line_pos) != lc {
            return Some(format!("leaf {} {:?} at byte {} of the rewritten text has working {:?}, computed {:?}", i, l.raw(), off, (m.working_line_no, m.working_line_pos), lc));
        }
        off += l.raw().len();
    }
    None
}

// ---------------------------------------------------------------- kernel cases
fn infer_cases(rng: &mut Rng, out: &mut Buf, raws: &[String]) {
    for raw in raws {
        let (l, c) = (rng.range(1, 50), rng.range(1, 120));
        let r = PositionMarker::infer_next_position(raw, l, c);
        out.case("infer", "infer-next-position", raw.contains('\n'), g_tuple(&[g_str(raw), g_n(l), g_n(c)]), g_tuple(&[g_n(r.0), g_n(r.1)]), json!({"input": {"kind": "infer", "raw": raw, "line": l, "pos": c}}));
    }
}

fn linepos_cases(rng: &mut Rng, out: &mut Buf, text: &str) {
    let tf: TemplatedFile = text.to_string().into();
    for _ in 0..6 {
        let p = rng.below(text.len() + 1);
        let r = tf.get_line_pos_of_char_pos(p, false);
        let nontriv = text.as_bytes()[..p].contains(&b'\n');
        out.case("linepos", "line-pos-of-char-pos", nontriv, g_tuple(&[g_list(nl_offsets(text).iter().map(|x| g_n(*x))), g_n(p)]), g_tuple(&[g_n(r.0), g_n(r.1)]), json!({"input": {"kind": "linepos", "text": trunc(text, 400), "p": p}}));
        // the model's specification of the oracle itself
        out.direct("linepos", r == linecol(text, p), &format!("c12-linepos:{}", short_hash(text)), &format!("get_line_pos_of_char_pos({}) = {:?}, computed {:?}", p, r, linecol(text, p)), json!({"kind": "linepos", "text": text, "p": p}));
    }
}

fn hull_cases(out: &mut Buf, tree: &ErasedSegment, text: &str, budget: &mut usize) {
    let nls = g_list(nl_offsets(text).iter().map(|x| g_n(*x)));
    for n in tree.recursive_crawl_all(false) {
        if *budget == 0 {
            return;
        }
        let ch = n.segments();
        if ch.len() < 2 || ch.len() > 40 {
            continue;
        }
        let ms: Vec<&PositionMarker> = ch.iter().filter_map(|c| c.get_position_marker()).collect();
        if ms.is_empty() {
            continue;
        }
        let Ok(h) = catch(|| PositionMarker::from_child_markers(ms.iter().copied())) else { continue };
        *budget -= 1;
        out.case("hull", "from-child-markers", ms.len() >= 3, g_tuple(&[nls.clone(), g_list(ms.iter().map(|m| g_marker(m)))]), format!("(Some {})", g_marker(&h)), json!({"input": {"kind": "hull", "node": format!("{:?}", n.get_type()), "children": ms.len()}}));
    }
}

/// mirror of TreePos.Model.{wokb, preb}: the hypothesis of the position_segments theorem
fn wokb(t: &ErasedSegment, l: usize, c: usize) -> bool {
    let Some(m) = t.get_position_marker() else { return false };
    if (m.working_line_no, m.working_line_pos) != (l, c) {
        return false;
    }
    let (mut l, mut c) = (l, c);
    for ch in t.segments() {
        if !wokb(ch, l, c) {
            return false;
        }
        (l, c) = PositionMarker::infer_next_position(ch.raw(), l, c);
    }
    true
}
fn preb(t: &ErasedSegment) -> bool {
    if t.segments().is_empty() {
        return true;
    }
    match t.get_position_marker() {
        Some(m) => wokb(t, m.working_line_no, m.working_line_pos),
        None => t.segments().iter().all(preb),
    }
}

/// one recorded / provoked call of position_segments
fn ps_case(out: &mut Buf, cls: &str, segs: &[ErasedSegment], parent: &PositionMarker, result: &[ErasedSegment], input: Value) {
    let nls = match parent.templated_file.templated_str.as_deref() {
        Some(t) => nl_offsets(t),
        None => nl_offsets(&parent.templated_file.source_str),
    };
    let moved = segs.iter().zip(result.iter()).any(|(a, b)| a.get_position_marker().map(|m| m.working_loc()) != b.get_position_marker().map(|m| m.working_loc()));
    let args = g_tuple(&[g_list(nls.iter().map(|x| g_n(*x))), g_list(segs.iter().map(g_ptree)), g_marker(parent)]);
    let pre = segs.iter().all(preb);
    let exp = g_tuple(&[g_bool(pre), format!("(Some {})", g_list(result.iter().map(g_ptree)))]);
    out.case("ps", cls, moved, args, exp, input);
}

// ---------------------------------------------------------------- items
enum Item {
    Parse(c02::Item),
    Fix { cls: &'static str, dialect: String, rules: String, sql: String },
    Kernels { seed: u64 },
}

struct Cx {
    c02: c02::Ctx,
    linters: std::collections::HashMap<(String, String), Linter>,
}

fn meta_case(out: &mut Buf, cls: &str, p: &c02::Parsed, tree: &ErasedSegment, text: &str, input: &Value) {
    let Some(root) = &p.root else { return };
    let tokens = &p.tokens;
    if tokens.len() > 120 {
        return;
    }
    let tok_ids: std::collections::HashSet<u32> = tokens.iter().map(|t| t.id()).collect();
    let metas: Vec<ErasedSegment> = tree.get_raw_segments().into_iter().filter(|l| !tok_ids.contains(&l.id())).collect();
    if metas.is_empty() {
        return;
    }
    if tokens.iter().any(|t| t.get_position_marker().is_none()) || metas.iter().any(|t| t.get_position_marker().is_none()) {
        return;
    }
    let nls = g_list(nl_offsets(text).iter().map(|x| g_n(*x)));
    let toks = g_list(tokens.iter().map(|t| g_tuple(&[c02::g_tok(t), g_marker(t.get_position_marker().unwrap())])));
    let args = g_tuple(&[nls, toks, c02::g_mr(&root.match_result)]);
    let exp = format!("(Some {})", g_list(metas.iter().map(|m| g_tuple(&[g_n(c02::kind_n(m.get_type())), g_marker(m.get_position_marker().unwrap())]))));
    out.case("metapos", cls, metas.len() >= 2, args, exp, json!({"input": input, "metas": metas.len()}));
}

fn run_parse(cx: &mut Cx, it: &c02::Item, out: &mut Buf) {
    let input = json!({"kind": "parse", "dialect": it.dialect, "sql": it.sql});
    let cfg = cx.c02.cfg(&it.dialect);
    let tables = Tables::default();
    out.count("parse_inputs", 1);
    let Ok(p) = c02::lex_and_parse(cfg, &tables, &it.sql) else {
        out.count("lexer_failed", 1);
        return;
    };
    let Ok(Some(tree)) = &p.result else {
        out.count("no_tree", 1);
        return;
    };
    // the text the positions refer to is the token text (lexer losslessness is C01)
    let text: String = p.tokens.iter().map(|t| t.raw().as_str()).collect();
    if text != it.sql {
        out.count("token_text_differs_from_input", 1);
        // token slices then refer to the input, not to the token text: outside C12's premise
        return;
    }
    let fails = check_parse_tree(tree, &text);
    let key_base = format!("{}:{}", it.dialect, short_hash(&it.sql));
    if fails.is_empty() {
        out.direct(it.cls, true, "", "", Value::Null);
    }
    for (clause, msg) in &fails {
        out.direct(it.cls, false, &format!("c12-{}:{}", clause, key_base), &format!("{}: {}", clause, msg), input.clone());
    }
    for clause in ["leaves-contiguous", "leaf-text-is-slice", "leaf-linecol", "node-span-is-hull", "node-linecol", "brackets-match", "nodes-start-end-with-code", "indent-balance"] {
        let class = if matches!(clause, "brackets-match" | "nodes-start-end-with-code" | "indent-balance") { "blocking" } else { "blocking" };
        out.hyp(&format!("clause_{}", clause), class, !fails.iter().any(|(c, _)| *c == clause), json!({"input": input}));
    }
    if it.sql.contains('\n') && !it.sql.is_ascii() {
        out.count("parse_inputs_multiline_non_ascii", 1);
    }
    let mut budget = 1usize;
    if tree_size(tree) <= 400 {
        hull_cases(out, tree, &text, &mut budget);
        if short_hash(&it.sql).as_bytes()[11] % 2 == 0 {
            meta_case(out, it.cls, &p, tree, &text, &input);
        }
    }
}

fn run_fix(cx: &mut Cx, cls: &'static str, dialect: &str, rules: &str, sql: &str, out: &mut Buf) {
    let input = json!({"kind": "fix", "dialect": dialect, "rules": rules, "sql": sql});
    out.count("fix_inputs", 1);
    let linter = cx.linters.entry((dialect.to_string(), rules.to_string())).or_insert_with(|| {
        let src = format!("[sqruff]\ndialect = {}\nrules = {}\n", dialect, rules);
        Linter::new(FluffConfig::from_source(&src, None), None, None, true)
    });
    // every tree the fix loop rebuilds
    let trees: Rc<RefCell<Vec<(String, bool, ErasedSegment)>>> = Rc::new(RefCell::new(vec![]));
    let calls: Rc<RefCell<Vec<(Vec<ErasedSegment>, PositionMarker, Vec<ErasedSegment>)>>> = Rc::new(RefCell::new(vec![]));
    {
        let trees = trees.clone();
        fix_hook::FIX_HOOK.with(|h| {
            *h.borrow_mut() = Some(Box::new(move |ev| match ev {
                fix_hook::FixEvent::Batch { rule, after, accepted, .. } => trees.borrow_mut().push((rule.to_string(), accepted, after.clone())),
                fix_hook::FixEvent::End { tree } => trees.borrow_mut().push(("<end>".to_string(), true, tree.clone())),
                _ => {}
            }))
        });
        let calls = calls.clone();
        pos_hook::POS_HOOK.with(|h| {
            *h.borrow_mut() = Some(Box::new(move |segs, parent, result| {
                let mut c = calls.borrow_mut();
                if c.len() < 4000 {
                    c.push((segs.to_vec(), parent.clone(), result.to_vec()));
                }
            }))
        });
    }
    let r = catch(|| linter.lint_string(sql, None, true));
    fix_hook::FIX_HOOK.with(|h| *h.borrow_mut() = None);
    pos_hook::POS_HOOK.with(|h| *h.borrow_mut() = None);
    if r.is_err() {
        out.count("fix_panics", 1); // C03's business
        return;
    }
    let trees = trees.borrow();
    let key_base = format!("{}:{}:{}", dialect, rules, short_hash(sql));
    let mut n_batches = 0;
    for (rule, accepted, tree) in trees.iter() {
        if rule != "<end>" {
            n_batches += 1;
        }
        let why = check_working_positions(tree);
        let c = if rule == "<end>" {
            "fix-final-tree"
        } else if *accepted {
            "fix-batch-accepted"
        } else {
            "fix-batch-rejected"
        };
        out.direct(c, why.is_none(), &format!("c12-postfix:{}:{}", rule, key_base), &format!("after {}: {}", rule, why.clone().unwrap_or_default()), input.clone());
        out.hyp("clause_postfix_working_positions", "blocking", why.is_none(), json!({"input": input, "rule": rule}));
        // diagnostic: the cached leaf list of the root agrees with the leaves of the tree
        let cached: Vec<(usize, usize)> = tree.raw_segments_with_ancestors().iter().filter_map(|(l, _)| l.get_position_marker().map(|m| m.working_loc())).collect();
        let actual: Vec<(usize, usize)> = tree.get_raw_segments().iter().filter_map(|l| l.get_position_marker().map(|m| m.working_loc())).collect();
        out.hyp("diag_cached_leaf_list_positions_fresh", "diagnostic", cached == actual, json!({"input": input, "rule": rule}));
    }
    out.count("fix_batches", n_batches);
    if n_batches > 0 {
        out.count("fix_inputs_with_batches", 1);
    }
    // recorded position_segments calls (sampled: small ones, those that moved something first)
    let calls = calls.borrow();
    out.count("position_segments_calls_recorded", calls.len());
    let mut emitted = 0;
    for (segs, _, _) in calls.iter() {
        let pre = segs.iter().all(preb);
        out.hyp("H_edit_pre_position_segments_inputs_consistent_below_kept_markers", "blocking", pre, json!({"input": input, "segs": trunc(&g_list(segs.iter().map(g_ptree)), 1500)}));
    }
    for (k, (segs, parent, result)) in calls.iter().enumerate() {
        let size: usize = segs.iter().map(tree_size).sum();
        let bytes: usize = segs.iter().map(tree_bytes).sum();
        if size > 60 || bytes > 400 || segs.is_empty() {
            continue;
        }
        let has_new = segs.iter().any(|s| s.get_position_marker().is_none());
        if !(has_new || k % 7 == 0) {
            continue;
        }
        if emitted >= 2 {
            break;
        }
        emitted += 1;
        ps_case(out, cls, segs, parent, result, json!({"input": input, "call": k}));
    }
}

/// position_segments on perturbed real trees + the small kernels on random data
fn run_kernels(cx: &mut Cx, seed: u64, out: &mut Buf) {
    let mut rng = Rng::new(seed);
    const SQLS: &[&str] = &[
        "SELECT a, b FROM t WHERE c = 1\n",
        "SELECT\n    a,\n    b\nFROM t\n",
        "SELECT 'multi\nline', x -- c\nFROM (SELECT 1) AS s\n",
        "/* block\ncomment */ SELECT 'é' AS ü\nFROM t;\n",
        "INSERT INTO t (a, b) VALUES (1, 'x'), (2, 'y');\n",
    ];
    let sql = SQLS[rng.below(SQLS.len())];
    let cfg = cx.c02.cfg("ansi");
    let tables = Tables::default();
    let Ok(p) = c02::lex_and_parse(cfg, &tables, sql) else { return };
    let Ok(Some(tree)) = &p.result else { return };
    // kernels on real raws
    let mut raws: Vec<String> = p.tokens.iter().map(|t| t.raw().to_string()).collect();
    raws.push(String::new());
    raws.push("\n".into());
    raws.push("a\n\nb".into());
    raws.push("\n\n".into());
    raws.push("é\nü".into());
    raws.push(sql.to_string());
    for _ in 0..6 {
        let n = rng.below(12);
        raws.push((0..n).map(|_| *rng.pick(&['a', '\n', ' ', 'é', '\t', '\r'])).collect());
    }
    rng.shuffle(&mut raws);
    raws.truncate(10);
    infer_cases(&mut rng, out, &raws);
    linepos_cases(&mut rng, out, sql);
    // perturb the children of a random node: replace / insert / delete leaves, drop positions
    let nodes: Vec<ErasedSegment> = tree.recursive_crawl_all(false).into_iter().filter(|n| n.segments().len() >= 2 && tree_size(n) <= 40).collect();
    if nodes.is_empty() {
        return;
    }
    for _ in 0..3 {
        let node = &nodes[rng.below(nodes.len())];
        let mut segs: Vec<ErasedSegment> = node.segments().to_vec();
        let nops = rng.range(1, 3);
        for _ in 0..nops {
            if segs.is_empty() {
                break;
            }
            let i = rng.below(segs.len());
            match rng.below(4) {
                0 => {
                    // new segment without position (as a fix edit would create)
                    let raw = *rng.pick(&[" ", "\n", "x", "  \n  ", "é", ""]);
                    segs.insert(i, SegmentBuilder::token(tables.next_id(), raw, SyntaxKind::Whitespace).finish());
                }
                1 => {
                    segs.remove(i);
                }
                2 => {
                    // replace a leaf by one with another raw, keeping the old marker (Replace with consumed_pos)
                    if segs[i].segments().is_empty() {
                        let raw = *rng.pick(&["yy", "\n", "zzzz\nq", ""]);
                        let mut b = SegmentBuilder::token(tables.next_id(), raw, segs[i].get_type());
                        if let Some(m) = segs[i].get_position_marker() {
                            b = b.with_position(m.clone());
                        }
                        segs[i] = b.finish();
                    }
                }
                _ => {
                    // a new node without position whose children are new leaves
                    let kids = vec![SegmentBuilder::token(tables.next_id(), "k", SyntaxKind::Keyword).finish(), SegmentBuilder::token(tables.next_id(), "\n", SyntaxKind::Newline).finish()];
                    segs.insert(i, SegmentBuilder::node(tables.next_id(), SyntaxKind::Expression, cfg.get_dialect().name, kids).finish());
                }
            }
        }
        if segs.is_empty() {
            continue;
        }
        let parent = node.get_position_marker().unwrap().clone();
        let input = json!({"kind": "kernels", "seed": seed});
        match catch(|| position_segments(&segs, &parent)) {
            Ok(result) => {
                ps_case(out, "perturbed-children", &segs, &parent, &result, json!({"input": input}));
                // the theorem's conclusion observed on the real result
                let mut line = parent.working_line_no;
                let mut pos = parent.working_line_pos;
                let mut ok = true;
                for s in &result {
                    for l in s.get_raw_segments() {
                        let m = l.get_position_marker().unwrap();
                        if (m.working_line_no, m.working_line_pos) != (line, pos) {
                            ok = false;
                        }
                        (line, pos) = PositionMarker::infer_next_position(l.raw(), line, pos);
                    }
                }
                out.direct("perturbed-children", ok, &format!("c12-position-segments:{}", seed), "position_segments left a leaf at a stale working position", input);
            }
            Err(_) => {
                let args = g_tuple(&[g_list(nl_offsets(sql).iter().map(|x| g_n(*x))), g_list(segs.iter().map(g_ptree)), g_marker(&parent)]);
                let pre = segs.iter().all(preb);
                out.case("ps", "perturbed-children-panic", false, args, g_tuple(&[g_bool(pre), "None".into()]), json!({"input": input}));
            }
        }
    }
}

fn run_one(cx: &mut Cx, it: &Item, out: &mut Buf) {
    match it {
        Item::Parse(p) => run_parse(cx, p, out),
        Item::Fix { cls, dialect, rules, sql } => run_fix(cx, cls, dialect, rules, sql, out),
        Item::Kernels { seed } => run_kernels(cx, *seed, out),
    }
}

const RULESETS: &[&str] = &["all", "core", "LT01", "LT02", "LT01,LT02,LT03,LT04,LT05", "CP01,CP02,CP03", "AL01,AL02,AL05", "LT09,LT10,LT12", "ST01,ST02", "CV01,CV02,CV03,CV04,CV05", "RF01,RF02,RF03", "AM01,AM02,AM06", "CV06,CV10,CV11", "LT06,LT07,LT08,LT13"];

const EXTRA_SQL: &[&str] = &[
    "select a,b from t where x=1\n",
    "SELECT a  ,  b FROM t ; \n",
    "select\n a,\n   b\n  from t\nwhere a in (1,2,\n3)\n",
    "SELECT 'multi\nline' , b from t -- trailing   \n",
    "/* é */ select 'ü'  as x,y  from  t\n",
    "select a from t\n\n\n\n",
    "select case when a then b else c end from t inner join u on t.a=u.a\n",
    "SELECT a FROM t WHERE a IN (SELECT b FROM u WHERE c=1)\n",
];

pub fn main(args: &Args) {
    if std::env::var("SQV_LOUD").is_err() {
        silence_panics();
    }
    let mut out = Out::new(&args.out);
    let mut rng = Rng::new(args.seed);
    let mut items: Vec<Item> = vec![];
    if let Some(path) = args.flag("--replay-input") {
        let v: Value = serde_json::from_str(&std::fs::read_to_string(path).unwrap()).unwrap();
        let v = if v.get("input").is_some() { v["input"].clone() } else { v };
        let v = if v.get("input").is_some() { v["input"].clone() } else { v };
        match v["kind"].as_str().unwrap_or("parse") {
            "fix" => items.push(Item::Fix { cls: "replay", dialect: v["dialect"].as_str().unwrap_or("ansi").into(), rules: v["rules"].as_str().unwrap_or("all").into(), sql: v["sql"].as_str().unwrap_or("").into() }),
            "kernels" => items.push(Item::Kernels { seed: v["seed"].as_u64().unwrap_or(1) }),
            _ => items.push(Item::Parse(c02::Item { cls: "replay", dialect: v["dialect"].as_str().unwrap_or("ansi").into(), sql: v["sql"].as_str().unwrap_or("").into() })),
        }
    } else {
        let thorough = args.thorough();
        for it in c02::corpus_items(&mut rng, thorough, 300, if thorough { 6000 } else { 400 }) {
            items.push(Item::Parse(it));
        }
        // post-fix clause: rule fixtures and corpus samples x rule selections
        let snippets = rule_snippets();
        for (i, (_, s)) in snippets.iter().enumerate() {
            if thorough {
                for r in RULESETS {
                    items.push(Item::Fix { cls: "rule-snippet", dialect: "ansi".into(), rules: r.to_string(), sql: s.clone() });
                }
            } else {
                let r = if i % 2 == 0 { "all" } else { RULESETS[rng.below(RULESETS.len())] };
                items.push(Item::Fix { cls: "rule-snippet", dialect: "ansi".into(), rules: r.to_string(), sql: s.clone() });
            }
        }
        for s in EXTRA_SQL {
            for r in RULESETS {
                items.push(Item::Fix { cls: "multi-line-non-ascii", dialect: "ansi".into(), rules: r.to_string(), sql: s.to_string() });
            }
        }
        let files = corpus();
        let small: Vec<&CorpusFile> = files.iter().filter(|f| f.text.len() <= 1200).collect();
        for _ in 0..(if thorough { 1500 } else { 150 }) {
            let f = small[rng.below(small.len())];
            let r = if rng.chance(1, 2) { "all" } else { RULESETS[rng.below(RULESETS.len())] };
            items.push(Item::Fix { cls: "corpus", dialect: f.dialect.clone(), rules: r.to_string(), sql: f.text.clone() });
        }
        for k in 0..(if thorough { 3000 } else { 300 }) {
            items.push(Item::Kernels { seed: args.seed.wrapping_mul(1000003).wrapping_add(k) });
        }
    }
    par_run(&mut out, &items, || Cx { c02: c02::Ctx::new(), linters: Default::default() }, run_one);
    out.finish();
}
