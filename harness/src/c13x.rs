//! C13, second part (module `c13::ext`): what the corpus-driven comparison of c13.rs does not reach.
//!
//! (a) `prune` — the pruning decision itself.  `prune_options` (a pub fn of match_algorithms.rs) is
//!     called on generated (option list, token) pairs: options are real nodes of the dialect's option
//!     set K, in generated orders and sub-lists chosen so that every combination of "kept through its
//!     raw hint / kept through its type hint / through both / not simple / dropped" occurs at every
//!     position of a list, for every token of the dialect's vocabulary (every text a string parser of
//!     the dialect accepts, i.e. all keywords and symbols, plus identifiers, literals, operators and
//!     token kinds met in the dialect's fixtures).  The survivors are compared with the Gallina
//!     `prune` / `keep` of Cache/Model.v (correspondence group `prune`).
//! (b) hint audit — `H_simple_sound` observed on the grammar: every reference's hint is the hint of the
//!     element it resolves to in the dialect; every option of K survives pruning at the start of its own
//!     shortest sentence and at every text its leaf parser accepts; an option dropped in a generated
//!     call does not match there.
//! (c) grammar-directed sentences — complete statements (shortest prefix + sentence of the node +
//!     shortest completion of the enclosing nodes) that drive the parser into every option of K
//!     (`aimed`), and the same with the first token replaced by a text that another alternative of the
//!     same list claims through its raw hint while this one claims it through its type hint
//!     (`confusable`); parsed with pruning / cache on and off like every other input.
//! (d) templated inputs — placeholder-templater sources whose values render to several tokens, with
//!     repeated tokens (all tokens of one value share one source position): parsed through
//!     `Linter::parse_string` with the shortcuts on and off; location keys and cache hits audited.
use std::collections::{BTreeMap, HashMap, HashSet};
use std::sync::{Arc, Mutex};

use ahash::AHashMap;
use serde_json::{Value, json};
use sqruff_lib_core::dialects::base::Dialect;
use sqruff_lib_core::parser::context::ParseContext;
use sqruff_lib_core::parser::lexer::StringOrTemplate;
use sqruff_lib_core::parser::match_algorithms::{prune_options, verif_switches};
use sqruff_lib_core::parser::matchable::{Matchable, MatchableTrait};
use sqruff_lib_core::parser::segments::base::{ErasedSegment, Tables};

use super::{Item, Shared, h64, loc_hyp, outcome, watch_clear, watch_set};
use crate::c04;
use crate::c14::{Graph, Node, leaf_lexemes, ser_tree};
use crate::common::*;

// ------------------------------------------------------------------------------------ hints
#[derive(Clone, Debug, PartialEq)]
enum Hint {
    Simple(Vec<String>, Vec<u16>),
    NotSimple,
    /// `simple()` panics (dangling keyword reference: C14 known findings)
    Abort(String),
}

fn real_hint(d: &Dialect, m: &Matchable) -> Hint {
    let cfg: AHashMap<String, bool> = AHashMap::new();
    let cx = ParseContext::new(d, &cfg);
    match catch(|| m.simple(&cx, None)) {
        Ok(Some((raws, types))) => {
            let mut rs: Vec<String> = raws.into_iter().collect();
            rs.sort();
            let mut ts: Vec<u16> = types.iter().map(|k| k as u16).collect();
            ts.sort();
            Hint::Simple(rs, ts)
        }
        Ok(None) => Hint::NotSimple,
        Err(p) => Hint::Abort(trunc(&p, 120)),
    }
}

fn hint_json(h: &Hint) -> Value {
    match h {
        Hint::Simple(r, t) => json!({"raws": r.iter().take(12).collect::<Vec<_>>(), "n_raws": r.len(), "types": t}),
        Hint::NotSimple => json!("not simple"),
        Hint::Abort(m) => json!({"panic": m}),
    }
}

// ------------------------------------------------------------------------------------ tokens
/// One vocabulary text lexed by the dialect's lexer (followed by ` x`): the token stream, the index of
/// its first code token, and that token's upper-cased raw and class types.
struct Tok {
    text: String,
    segs: Vec<ErasedSegment>,
    at: u32,
    raw: String,
    types: Vec<u16>,
}

fn lex_segs(d: &Dialect, tables: &Tables, text: &str) -> Option<Vec<ErasedSegment>> {
    catch(|| d.lexer().lex(tables, StringOrTemplate::String(text)).ok().map(|(t, _)| t.to_vec())).ok().flatten()
}

fn lex_tok(d: &Dialect, tables: &Tables, text: &str) -> Option<Tok> {
    let segs = lex_segs(d, tables, &format!("{} x", text))?;
    let at = segs.iter().position(|s| s.is_code())?;
    let raw = segs[at].raw().to_uppercase();
    let types: Vec<u16> = segs[at].class_types().iter().map(|k| k as u16).collect();
    Some(Tok { text: text.to_string(), segs, at: at as u32, raw, types })
}

const LEXEMES: &[&str] = &[
    "a", "foo_bar", "Foo", "_x", "x1", "1", "1.5", "1e3", "'x'", "\"x\"", "`x`", "[a]", "$$x$$", "@a", "@@a", "$1", "?", ":a", "x'00'", "b'1'", "N'x'", "E'x'", "r'x'", "<<a>>",
    "%s", "{{a}}", "#a", "*", "+", "-", "/", "%", "=", "<", ">", "<=", ">=", "<>", "!=", "==", "||", "&&", "::", ":=", ".", ",", ";", "(", ")", "[", "]", "{", "}", ":", "&", "|", "^",
    "~", "!", "->", "->>", "=>", "@>", "<@", "#>", "<<", ">>", "!~", "~*", "?|", "\\",
];

/// The vocabulary of a dialect: every text a string parser of the grammar accepts (keywords, symbols,
/// dialect-defined keyword-like segments with their real texts), every word of the keyword sets,
/// generic lexemes, and one token of every class-type set met in the dialect's fixtures.
fn vocabulary(g: &Graph, d: &Dialect, files: &[CorpusFile]) -> Vec<Tok> {
    let tables = Tables::default();
    let mut texts: Vec<String> = vec![];
    let mut seen: HashSet<String> = HashSet::new();
    let mut push = |s: &str, texts: &mut Vec<String>| {
        if !s.is_empty() && seen.insert(s.to_string()) {
            texts.push(s.to_string());
        }
    };
    for n in &g.nodes {
        if let Node::Str { raws } | Node::Multi { raws } = n {
            for r in raws {
                push(&g.strs[*r], &mut texts);
            }
        }
    }
    for (_, ks) in &g.sets {
        for k in ks {
            push(&g.strs[*k], &mut texts);
        }
    }
    for l in LEXEMES {
        push(l, &mut texts);
    }
    let mut toks: Vec<Tok> = vec![];
    let mut raws_seen: HashSet<(String, Vec<u16>)> = HashSet::new();
    for t in &texts {
        if let Some(tok) = lex_tok(d, &tables, t) {
            if raws_seen.insert((tok.raw.clone(), tok.types.clone())) {
                toks.push(tok);
            }
        }
    }
    // token kinds of the fixtures that the lists above do not produce
    let mut kinds: HashSet<Vec<u16>> = toks.iter().map(|t| t.types.clone()).collect();
    for f in files.iter().filter(|f| f.dialect == g.dialect && f.text.len() <= 20000) {
        let Some(segs) = lex_segs(d, &tables, &f.text) else { continue };
        for s in segs.iter().filter(|s| s.is_code()) {
            let ts: Vec<u16> = s.class_types().iter().map(|k| k as u16).collect();
            if !kinds.contains(&ts) && s.raw().len() <= 60 && !s.raw().contains('\n') {
                if let Some(tok) = lex_tok(d, &tables, s.raw()) {
                    if tok.types == ts && raws_seen.insert((tok.raw.clone(), tok.types.clone())) {
                        kinds.insert(ts);
                        toks.push(tok);
                    }
                }
            }
        }
    }
    toks
}

// ------------------------------------------------------------------------------------ per-dialect context
struct DCtx {
    name: String,
    d: Arc<Dialect>,
    g: Graph,
    order: Vec<usize>,
    /// option set K (nodes with a rank: `simple()` terminates) and the real hint of each
    k: Vec<usize>,
    hints: HashMap<usize, Hint>,
    /// the real option lists: (owner node, options in order)
    lists: Vec<(usize, Vec<usize>)>,
}

fn build_ctx(sh: &Shared, dname: &str, buf: &mut Buf) -> DCtx {
    let d = sh.dialects[dname].clone();
    let g = Graph::build(dname, &d);
    let (order, _) = g.reach();
    let ranks = g.ranks();
    let kset = super::option_set(&g, &order);
    let mut k = vec![];
    for &n in &kset {
        if ranks[n].is_some() {
            k.push(n);
        } else {
            buf.count("K_nodes_on_a_left_corner_cycle(not asked for a hint)", 1);
        }
    }
    let mut hints = HashMap::new();
    for &n in &k {
        hints.insert(n, real_hint(&d, &g.handles[n]));
    }
    let mut lists = vec![];
    for &n in &order {
        match &g.nodes[n] {
            Node::AnyOf { elems, terms, .. } => {
                lists.push((n, elems.clone()));
                if !terms.is_empty() {
                    lists.push((n, terms.clone()));
                }
            }
            Node::Delim { delim, elems, terms } => {
                lists.push((n, elems.clone()));
                let mut v = vec![*delim];
                v.extend(terms.iter().copied());
                lists.push((n, v));
            }
            Node::Ref { terms, .. } | Node::Seq { terms, .. } | Node::Brack { terms, .. } | Node::Anything { terms } => {
                if !terms.is_empty() {
                    lists.push((n, terms.clone()));
                }
            }
            _ => {}
        }
    }
    for l in lists.iter_mut() {
        let mut seen = HashSet::new();
        l.1.retain(|n| hints.contains_key(n) && seen.insert(*n));
    }
    lists.retain(|l| !l.1.is_empty());
    DCtx { name: dname.to_string(), d, g, order, k, hints, lists }
}

// ------------------------------------------------------------------------------------ (a) the pruning decision
/// category of an option for a token: R = raw hint only, T = type hint only, B = both, N = not simple, D = neither
fn category(h: &Hint, tok: &Tok) -> Option<char> {
    match h {
        Hint::Abort(_) => None,
        Hint::NotSimple => Some('N'),
        Hint::Simple(raws, types) => {
            let r = raws.binary_search(&tok.raw).is_ok();
            let t = tok.types.iter().any(|x| types.contains(x));
            Some(match (r, t) {
                (true, true) => 'B',
                (true, false) => 'R',
                (false, true) => 'T',
                (false, false) => 'D',
            })
        }
    }
}

/// the real `prune_options`: positions (in `opts`) of the options it returns, in the order returned
fn call_prune(d: &Dialect, opts: &[Matchable], segs: &[ErasedSegment], idx: u32) -> Result<Vec<usize>, String> {
    let cfg: AHashMap<String, bool> = AHashMap::new();
    let mut cx = ParseContext::new(d, &cfg);
    verif_switches::set(false, false);
    let kept = catch(|| prune_options(opts, segs, &mut cx, idx))?;
    let mut out = vec![];
    let mut cursor = 0usize;
    for r in &kept {
        let p = (cursor..opts.len()).find(|&p| opts[p].verif_ptr() == r.verif_ptr()).or_else(|| (0..opts.len()).find(|&p| opts[p].verif_ptr() == r.verif_ptr()));
        match p {
            Some(p) => {
                out.push(p);
                cursor = p + 1;
            }
            None => out.push(usize::MAX >> 8),
        }
    }
    Ok(out)
}

struct PruneCall {
    nodes: Vec<usize>,
    pattern: String,
    gap: bool,
}

/// One correspondence case: one token, several option lists.  Returns false if the real function aborted.
fn prune_case(cx: &DCtx, tok: &Tok, calls: &[PruneCall], cls: &str, buf: &mut Buf) {
    let mut table: Vec<usize> = vec![];
    let mut pos: HashMap<usize, usize> = HashMap::new();
    let mut raw_ids: HashMap<String, usize> = HashMap::new();
    let mut intern = |s: &str| -> usize {
        let n = raw_ids.len();
        *raw_ids.entry(s.to_string()).or_insert(n)
    };
    let tok_g = format!("(Some ({},{}))", intern(&tok.raw), g_list(tok.types.iter().map(|t| t.to_string())));
    let mut lists_g = vec![];
    let mut exp_g = vec![];
    let mut sample_calls = vec![];
    let mut nontrivial = false;
    // calls at the token itself and calls at the white space behind it (no code token there: everything is kept)
    // are separate cases because the token is an argument of the case
    let gap = calls.first().map(|c| c.gap).unwrap_or(false);
    let idx = if gap { tok.at + 1 } else { tok.at };
    if gap && (idx as usize >= tok.segs.len() || tok.segs[idx as usize].is_code()) {
        return;
    }
    for c in calls {
        let opts: Vec<Matchable> = c.nodes.iter().map(|&n| cx.g.handles[n].clone()).collect();
        let kept = match call_prune(&cx.d, &opts, &tok.segs, idx) {
            Ok(k) => k,
            Err(p) => {
                buf.count("prune_calls_aborted", 1);
                buf.hyp("prune_options_returns(no panic on real options and tokens)", "diagnostic", false, json!({"dialect": cx.name, "token": tok.text, "options": c.nodes.iter().map(|&n| cx.g.label(n)).collect::<Vec<_>>(), "panic": trunc(&p, 200)}));
                continue;
            }
        };
        for &n in &c.nodes {
            if !pos.contains_key(&n) {
                pos.insert(n, table.len());
                table.push(n);
            }
        }
        let kept_simple = kept.iter().filter(|&&p| p < c.nodes.len() && matches!(cx.hints[&c.nodes[p]], Hint::Simple(..))).count();
        if !gap && kept.len() < c.nodes.len() && kept_simple > 0 {
            nontrivial = true;
        }
        buf.count("prune_calls", 1);
        buf.count(&format!("prune_calls_pattern_{}", if gap { "gap".to_string() } else { c.pattern.clone() }), 1);
        lists_g.push(g_list(c.nodes.iter().map(|n| pos[n].to_string())));
        exp_g.push(g_list(kept.iter().map(|&p| if p < c.nodes.len() { pos[&c.nodes[p]].to_string() } else { p.to_string() })));
        // dropped options must not match at the token (H_simple_sound)
        if !gap {
            for (p, &n) in c.nodes.iter().enumerate() {
                if !kept.contains(&p) {
                    sound_check(cx, n, &tok.segs, tok.at, &tok.text, buf);
                }
            }
        }
        if sample_calls.len() < 6 {
            sample_calls.push(json!({"pattern": c.pattern, "options": c.nodes.iter().map(|&n| format!("[{}] {}", pos[&n], cx.g.label(n))).collect::<Vec<_>>(), "kept_positions": kept,
                "kept_by_table_number": kept.iter().map(|&p| if p < c.nodes.len() { pos[&c.nodes[p]] } else { p }).collect::<Vec<_>>()}));
        }
    }
    if lists_g.is_empty() {
        return;
    }
    let table_g = g_list(table.iter().map(|&n| {
        let h = match &cx.hints[&n] {
            Hint::Simple(raws, types) => format!("(Some ({},{}))", g_list(raws.iter().map(|r| intern(r).to_string())), g_list(types.iter().map(|t| t.to_string()))),
            _ => "None".to_string(),
        };
        format!("({},{})", cx.g.keys[n].unwrap_or(0), h)
    }));
    let args = format!("({},{},{})", if gap { "None".to_string() } else { tok_g }, table_g, g_list(lists_g));
    let exp = g_list(exp_g);
    let input = json!({"kind": "prune", "dialect": cx.name, "token": tok.text, "gap": gap, "lists": calls.iter().map(|c| json!({"pattern": c.pattern, "nodes": c.nodes})).collect::<Vec<_>>()});
    let sample = json!({"input": input, "token": {"text": tok.text, "upper_raw": tok.raw, "class_types": tok.types}, "calls": sample_calls,
        "how_to_read": "options are graph nodes of the dialect (#n = node of the C14 dump, [k] = number in this case's option table, the numbers model_prune prints); kept_positions = positions in the list of the options the real prune_options returned; the first calls only, input.lists has them all"});
    buf.case("prune", cls, nontrivial, args, exp, sample);
}

static UNSOUND_SHOWN: std::sync::atomic::AtomicUsize = std::sync::atomic::AtomicUsize::new(0);

/// `n` was dropped (or would be) at `segs[at]`: it must not match there with a positive length.
fn sound_check(cx: &DCtx, n: usize, segs: &[ErasedSegment], at: u32, text: &str, buf: &mut Buf) {
    let cfg: AHashMap<String, bool> = AHashMap::new();
    let mut pc = ParseContext::new(&cx.d, &cfg);
    verif_switches::set(false, false);
    let r = catch(|| cx.g.handles[n].match_segments(segs, at, &mut pc));
    let matched = match &r {
        Ok(Ok(m)) => m.has_match() && m.span.end > at,
        _ => false,
    };
    // `NodeMatcher::match_segments` takes a segment that already has the node's kind as it stands (one token,
    // no grammar consulted), which the hint - computed from the node's grammar - does not tell.  The token
    // stays the leaf it is whichever alternative takes it, so this is kept apart (diagnostic).
    let shortcut = matched && matches!(&r, Ok(Ok(m)) if m.span.end == at + 1) && node_kind(&cx.g, n).map(|k| segs[at as usize].get_type() as u16 as usize == k).unwrap_or(false);
    let ex = if matched {
        json!({"dialect": cx.name, "option": cx.g.label(n), "node": n, "hint": hint_json(&cx.hints[&n]), "tokens": text,
            "what": "prune_options drops this option at the first token although the option matches there", "match": format!("{:?}", r.as_ref().ok().and_then(|x| x.as_ref().ok()).map(|m| (m.span.start, m.span.end)))})
    } else {
        Value::Null
    };
    if shortcut {
        buf.hyp("hint_covers_node_matcher_taking_a_token_of_its_own_kind", "diagnostic", false, ex);
        return;
    }
    if matched && UNSOUND_SHOWN.fetch_add(1, std::sync::atomic::Ordering::Relaxed) < 12 {
        buf.lines.push(json!({"t": "stat", "v": {"unsound_hint": ex.clone()}}));
    }
    buf.hyp("H_simple_sound(an option dropped by prune_options does not match at that token)", "blocking", !matched, ex);
}

/// kind of the node matcher a node resolves to through references
fn node_kind(g: &Graph, mut n: usize) -> Option<usize> {
    for _ in 0..8 {
        match &g.nodes[n] {
            Node::Ref { name, .. } => n = g.deref(*name)?,
            Node::NodeM { kind, .. } => return Some(*kind),
            _ => return None,
        }
    }
    None
}

fn pick_distinct(rng: &mut Rng, pool: &[usize], used: &[usize]) -> Option<usize> {
    if pool.is_empty() {
        return None;
    }
    for _ in 0..6 {
        let n = *rng.pick(pool);
        if !used.contains(&n) {
            return Some(n);
        }
    }
    pool.iter().copied().find(|n| !used.contains(n))
}

fn prune_calls_for(cx: &DCtx, tok: &Tok, lists_of: &HashMap<usize, Vec<usize>>, rng: &mut Rng, thorough: bool) -> (Vec<PruneCall>, bool) {
    let cats = ['R', 'T', 'B', 'N', 'D'];
    let mut pools: BTreeMap<char, Vec<usize>> = BTreeMap::new();
    for &n in &cx.k {
        if let Some(c) = category(&cx.hints[&n], tok) {
            pools.entry(c).or_default().push(n);
        }
    }
    let has = |c: char| pools.get(&c).map(|p| !p.is_empty()).unwrap_or(false);
    let ambiguous = (has('R') || has('B')) && (has('T') || has('B'));
    let mut calls = vec![];
    let from_pattern = |pat: &[char], rng: &mut Rng| -> Option<PruneCall> {
        let mut nodes = vec![];
        for c in pat {
            nodes.push(pick_distinct(rng, pools.get(c)?, &nodes)?);
        }
        Some(PruneCall { nodes, pattern: pat.iter().collect(), gap: false })
    };
    // every ordered pair of categories
    for a in cats {
        for b in cats {
            let rtb = |c: char| c == 'R' || c == 'T' || c == 'B';
            if !thorough && !(rtb(a) || rtb(b)) {
                continue;
            }
            if let Some(c) = from_pattern(&[a, b], rng) {
                calls.push(c);
            }
        }
    }
    // longer lists: the two interesting categories at chosen positions, the rest drawn freely
    let n_long = if thorough { 10 } else if ambiguous { 5 } else { 2 };
    for _ in 0..n_long {
        let len = rng.range(3, 6);
        let pat: Vec<char> = (0..len).map(|_| cats[rng.below(cats.len())]).collect();
        if let Some(c) = from_pattern(&pat, rng) {
            calls.push(c);
        }
    }
    // real option lists that hold an option claiming this token (in order, shuffled, as a sub-list)
    let mut real: Vec<usize> = vec![];
    for c in ['R', 'B', 'T'] {
        if let Some(p) = pools.get(&c) {
            for _ in 0..2 {
                if let Some(ls) = lists_of.get(rng.pick(p)) {
                    real.push(*rng.pick(ls));
                }
            }
        }
    }
    real.push(rng.below(cx.lists.len()));
    real.sort();
    real.dedup();
    let max_len = if thorough { 40 } else { 10 };
    for li in real.into_iter().take(if thorough { 6 } else { 3 }) {
        let l = &cx.lists[li].1;
        let usable: Vec<usize> = l.iter().copied().filter(|n| category(&cx.hints[n], tok).is_some()).collect();
        if usable.is_empty() {
            continue;
        }
        // a window of the list (whole list when short), keeping the order
        let start = if usable.len() > max_len { rng.below(usable.len() - max_len + 1) } else { 0 };
        let win: Vec<usize> = usable[start..(start + max_len).min(usable.len())].to_vec();
        calls.push(PruneCall { nodes: win.clone(), pattern: "real-list".into(), gap: false });
        let mut sh = win.clone();
        rng.shuffle(&mut sh);
        calls.push(PruneCall { nodes: sh, pattern: "real-list-shuffled".into(), gap: false });
    }
    // a random sub-list of K
    let len = rng.range(1, 6);
    let mut nodes = vec![];
    for _ in 0..len {
        if let Some(n) = pick_distinct(rng, &cx.k, &nodes) {
            if category(&cx.hints[&n], tok).is_some() {
                nodes.push(n);
            }
        }
    }
    if !nodes.is_empty() {
        calls.push(PruneCall { nodes, pattern: "random".into(), gap: false });
    }
    (calls, ambiguous)
}

// ------------------------------------------------------------------------------------ (b) hint audit
/// the leaf string parser a node resolves to through references and node matchers, if any
fn resolve_leaf(g: &Graph, mut n: usize) -> Option<usize> {
    for _ in 0..8 {
        match &g.nodes[n] {
            Node::Ref { name, excl: None, .. } => n = g.deref(*name)?,
            Node::NodeM { g: inner, .. } => n = *inner,
            Node::Str { .. } | Node::Multi { .. } => return Some(n),
            _ => return None,
        }
    }
    None
}

fn hint_audit(cx: &DCtx, ms: &[Option<Vec<String>>], buf: &mut Buf) {
    let ranks = cx.g.ranks();
    // every reachable reference: its hint is the hint of the element it resolves to
    for &n in &cx.order {
        if let Node::Ref { name, .. } = &cx.g.nodes[n] {
            let Some(t) = cx.g.deref(*name) else { continue };
            if ranks[n].is_none() || ranks[t].is_none() {
                continue;
            }
            let hr = cx.hints.get(&n).cloned().unwrap_or_else(|| real_hint(&cx.d, &cx.g.handles[n]));
            let ht = cx.hints.get(&t).cloned().unwrap_or_else(|| real_hint(&cx.d, &cx.g.handles[t]));
            let ok = hr == ht || matches!((&hr, &ht), (Hint::Abort(_), Hint::Abort(_)));
            let ex = if ok { Value::Null } else { json!({"dialect": cx.name, "reference": cx.g.label(n), "resolves_to": cx.g.label(t), "hint_of_reference": hint_json(&hr), "hint_of_referenced_element": hint_json(&ht)}) };
            buf.hyp("H_simple_sound(the hint of a reference is the hint of the element it resolves to)", "blocking", ok, ex);
        }
    }
    // every option of K at the start of its own shortest sentence / at every text its leaf parser accepts
    let tables = Tables::default();
    for &n in &cx.k {
        if !matches!(cx.hints[&n], Hint::Simple(..)) {
            continue;
        }
        let mut sentences: Vec<String> = vec![];
        if let Some(s) = &ms[n] {
            if !s.is_empty() {
                sentences.push(s.join(" "));
            }
        }
        if let Some(l) = resolve_leaf(&cx.g, n) {
            if let Node::Str { raws } | Node::Multi { raws } = &cx.g.nodes[l] {
                for r in raws {
                    let t = cx.g.strs[*r].clone();
                    if !sentences.contains(&t) {
                        sentences.push(t);
                    }
                }
            }
        }
        for s in sentences {
            let Some(segs) = lex_segs(&cx.d, &tables, &format!("{} x", s)) else { continue };
            let Some(at) = segs.iter().position(|x| x.is_code()) else { continue };
            let opts = [cx.g.handles[n].clone()];
            match call_prune(&cx.d, &opts, &segs, at as u32) {
                Ok(kept) if kept.is_empty() => sound_check(cx, n, &segs, at as u32, &s, buf),
                Ok(_) => buf.hyp("H_simple_sound(an option dropped by prune_options does not match at that token)", "blocking", true, Value::Null),
                Err(_) => buf.count("prune_calls_aborted", 1),
            }
            buf.count("options_pruned_at_their_own_sentence", 1);
        }
    }
}

// ------------------------------------------------------------------------------------ (c) grammar-directed sentences
/// For every node a shortest known (prefix, suffix): `prefix ++ <sentence of the node> ++ suffix` is a
/// complete input in which the parser, started at `FileSegment`, can be matching that node.  Only aims
/// the generator: whatever it produces is judged by the real parser.
fn completions(g: &Graph, ms: &[Option<Vec<String>>]) -> Vec<Option<(Vec<String>, Vec<String>)>> {
    let n = g.nodes.len();
    let mut best: Vec<Option<(Vec<String>, Vec<String>)>> = vec![None; n];
    let Some(root) = g.deref(0) else { return best };
    best[root] = Some((vec![], vec![]));
    let mut heap: std::collections::BinaryHeap<(std::cmp::Reverse<usize>, usize)> = std::collections::BinaryHeap::new();
    heap.push((std::cmp::Reverse(0), root));
    while let Some((std::cmp::Reverse(cost), i)) = heap.pop() {
        let Some((p, s)) = best[i].clone() else { continue };
        if p.len() + s.len() != cost {
            continue;
        }
        let mut offer = |c: usize, p: Vec<String>, s: Vec<String>, best: &mut Vec<Option<(Vec<String>, Vec<String>)>>| {
            let cost = p.len() + s.len();
            if best[c].as_ref().map(|(a, b)| cost < a.len() + b.len()).unwrap_or(true) {
                heap.push((std::cmp::Reverse(cost), c));
                best[c] = Some((p, s));
            }
        };
        match &g.nodes[i] {
            Node::Ref { name, .. } => {
                if let Some(t) = g.deref(*name) {
                    offer(t, p, s, &mut best);
                }
            }
            Node::NodeM { g: inner, .. } => offer(*inner, p, s, &mut best),
            Node::AnyOf { elems, .. } => {
                for &e in elems {
                    offer(e, p.clone(), s.clone(), &mut best);
                }
            }
            Node::Delim { delim, elems, .. } => {
                for &e in elems {
                    offer(e, p.clone(), s.clone(), &mut best);
                }
                // the delimiter: between two shortest elements
                if let Some(el) = elems.iter().filter_map(|&e| ms[e].clone()).filter(|v| !v.is_empty()).min_by_key(|v| v.len()) {
                    let mut pp = p.clone();
                    pp.extend(el.iter().cloned());
                    let mut ss = el.clone();
                    ss.extend(s.iter().cloned());
                    offer(*delim, pp, ss, &mut best);
                }
            }
            Node::Seq { elems, .. } | Node::Brack { elems, .. } => {
                let (mut cur, mut tail) = (p.clone(), s.clone());
                if matches!(g.nodes[i], Node::Brack { .. }) {
                    let (refs, found) = g.node_refs(i);
                    if !found || refs.len() < 2 {
                        continue;
                    }
                    let st = g.deref(refs[0]).and_then(|t| ms[t].clone());
                    let en = g.deref(refs[1]).and_then(|t| ms[t].clone());
                    match (st, en) {
                        (Some(st), Some(en)) => {
                            cur.extend(st);
                            let mut t = en;
                            t.extend(tail);
                            tail = t;
                        }
                        _ => continue,
                    }
                }
                // sentences of the mandatory elements behind position k
                let mut after: Vec<Option<Vec<String>>> = vec![Some(vec![]); elems.len() + 1];
                for k in (0..elems.len()).rev() {
                    let e = elems[k];
                    after[k] = match (&after[k + 1], g.optional[e] == Some(true), &ms[e]) {
                        (Some(a), true, _) => Some(a.clone()),
                        (Some(a), false, Some(v)) => Some(v.iter().cloned().chain(a.iter().cloned()).collect()),
                        _ => None,
                    };
                }
                for (k, &e) in elems.iter().enumerate() {
                    if let Some(a) = &after[k + 1] {
                        let mut ss = a.clone();
                        ss.extend(tail.iter().cloned());
                        offer(e, cur.clone(), ss, &mut best);
                    }
                    if g.optional[e] == Some(true) {
                        continue;
                    }
                    match &ms[e] {
                        Some(v) => cur.extend(v.iter().cloned()),
                        None => break,
                    }
                }
            }
            _ => {}
        }
    }
    best
}

fn join(p: &[String], body: &[String], s: &[String]) -> String {
    let mut v: Vec<&str> = vec![];
    v.extend(p.iter().map(|x| x.as_str()));
    v.extend(body.iter().map(|x| x.as_str()));
    v.extend(s.iter().map(|x| x.as_str()));
    format!("{}\n", v.join(" "))
}

fn sentences(cx: &DCtx, ms: &[Option<Vec<String>>], vocab: &[Tok], rng: &mut Rng, thorough: bool, buf: &mut Buf) -> Vec<Item> {
    let comp = completions(&cx.g, ms);
    let mut out: Vec<Item> = vec![];
    let mut seen: HashSet<String> = HashSet::new();
    let mut push = |cls: &'static str, name: String, sql: String, out: &mut Vec<Item>| {
        if sql.len() <= 600 && seen.insert(sql.clone()) {
            out.push(Item { dialect: cx.name.clone(), cls, name, sql });
        }
    };
    // aimed: every option of K inside a complete statement; string parsers with every text they accept
    for &n in &cx.k {
        let (Some((p, s)), Some(body)) = (&comp[n], &ms[n]) else {
            buf.count("K_nodes_without_a_known_sentence", 1);
            continue;
        };
        if body.is_empty() {
            continue;
        }
        push("aimed", format!("aimed@{}", cx.g.label(n)), join(p, body, s), &mut out);
        if let Some(l) = resolve_leaf(&cx.g, n) {
            if let Node::Str { raws } | Node::Multi { raws } = &cx.g.nodes[l] {
                for r in raws.iter().take(if thorough { 40 } else { 8 }) {
                    push("aimed", format!("aimed@{}={}", cx.g.label(n), cx.g.strs[*r]), join(p, &[cx.g.strs[*r].clone()], s), &mut out);
                }
            }
        }
    }
    // confusable: the first token of an alternative replaced by a text that another alternative of the same
    // list claims through its raw hint and this one through its type hint
    let types_of: HashMap<&str, &Vec<u16>> = vocab.iter().map(|t| (t.raw.as_str(), &t.types)).collect();
    let per_alt = if thorough { 40 } else { 6 };
    let cap = if thorough { 12000 } else { 1500 };
    let mut cands: Vec<(usize, String, String)> = vec![];
    for (_, l) in &cx.lists {
        for &j in l {
            let Hint::Simple(raws_j, types_j) = &cx.hints[&j] else { continue };
            if types_j.is_empty() {
                continue;
            }
            let (Some((p, s)), Some(body)) = (&comp[j], &ms[j]) else { continue };
            if body.is_empty() {
                continue;
            }
            let mut rs: Vec<&String> = vec![];
            for &i in l {
                if i == j {
                    continue;
                }
                if let Hint::Simple(raws_i, _) = &cx.hints[&i] {
                    for r in raws_i {
                        if raws_j.binary_search(r).is_err() && types_of.get(r.as_str()).map(|ts| ts.iter().any(|t| types_j.contains(t))).unwrap_or(false) && !rs.contains(&r) {
                            rs.push(r);
                        }
                    }
                }
            }
            if rs.is_empty() {
                continue;
            }
            buf.count("alternatives_with_a_confusable_first_token", 1);
            rng.shuffle(&mut rs);
            for r in rs.into_iter().take(per_alt) {
                let mut b = body.clone();
                b[0] = r.clone();
                cands.push((j, r.clone(), join(p, &b, s)));
            }
        }
    }
    rng.shuffle(&mut cands);
    for (j, r, sql) in cands.into_iter().take(cap) {
        push("confusable", format!("confusable@{}<-{}", cx.g.label(j), r), sql, &mut out);
    }
    out
}

// ------------------------------------------------------------------------------------ stage driver for (a)-(c)
/// Per dialect (one dialect per worker thread): hints, audit, prune cases; returns the sentences.
pub(super) fn grammar_stage(sh: &Shared, args: &Args, out: &mut Out) -> Vec<Item> {
    let files = corpus();
    let sentences_out: Mutex<Vec<(usize, Vec<Item>)>> = Mutex::new(vec![]);
    let dnames: Vec<(usize, &str)> = DIALECTS.iter().copied().enumerate().collect();
    let thorough = args.thorough();
    par_run(out, &dnames, || (), |_, (di, dname), buf| {
        watch_set(json!({"dialect": dname, "sql": "", "name": "grammar stage: hints of the option set, hint audit, generated prune_options calls", "variant": "grammar-stage"}));
        let mut rng = Rng::new(args.seed ^ (0x9e37 + *di as u64 * 7919));
        let cx = build_ctx(sh, dname, buf);
        let vocab = vocabulary(&cx.g, &cx.d, &files);
        buf.count("prune_vocabulary_tokens", vocab.len());
        let leaf = leaf_lexemes(&cx.g, &cx.d);
        let ms = cx.g.min_sentences(&leaf);
        hint_audit(&cx, &ms, buf);
        let mut lists_of: HashMap<usize, Vec<usize>> = HashMap::new();
        for (li, (_, l)) in cx.lists.iter().enumerate() {
            for &n in l {
                lists_of.entry(n).or_default().push(li);
            }
        }
        for (ti, tok) in vocab.iter().enumerate() {
            let (calls, ambiguous) = prune_calls_for(&cx, tok, &lists_of, &mut rng, thorough);
            let cls = if ambiguous { "token-claimed-by-raw-and-by-type-hints" } else { "token-claimed-by-one-kind-of-hint-or-none" };
            if ambiguous {
                buf.count("prune_tokens_claimed_by_raw_and_by_type_hints", 1);
            }
            prune_case(&cx, tok, &calls, cls, buf);
            if ti % 16 == 0 {
                // the same lists asked at the white space behind the token: no code token, everything is kept
                let gaps: Vec<PruneCall> = calls.into_iter().take(4).map(|c| PruneCall { gap: true, ..c }).collect();
                prune_case(&cx, tok, &gaps, "gap", buf);
            }
        }
        let s = sentences(&cx, &ms, &vocab, &mut rng, thorough, buf);
        sentences_out.lock().unwrap().push((*di, s));
        watch_clear();
    });
    let mut v = sentences_out.into_inner().unwrap();
    v.sort_by_key(|x| x.0);
    v.into_iter().flat_map(|x| x.1).collect()
}

/// replay of one `prune` case (`input.kind == "prune"`)
pub(super) fn replay_prune(sh: &Shared, v: &Value, buf: &mut Buf) {
    let dname = v["dialect"].as_str().unwrap_or("ansi");
    let cx = build_ctx(sh, dname, buf);
    let tables = Tables::default();
    let Some(tok) = lex_tok(&cx.d, &tables, v["token"].as_str().unwrap_or("")) else { return };
    let gap = v["gap"].as_bool().unwrap_or(false);
    let calls: Vec<PruneCall> = v["lists"]
        .as_array()
        .map(|a| {
            a.iter()
                .map(|l| PruneCall { nodes: l["nodes"].as_array().map(|x| x.iter().filter_map(|n| n.as_u64().map(|n| n as usize)).filter(|n| cx.hints.contains_key(n)).collect()).unwrap_or_default(), pattern: l["pattern"].as_str().unwrap_or("?").to_string(), gap })
                .collect()
        })
        .unwrap_or_default();
    prune_case(&cx, &tok, &calls, "replay", buf);
}

// ------------------------------------------------------------------------------------ (d) templated inputs
#[derive(Clone)]
pub(super) struct TItem {
    pub dialect: String,
    pub cls: &'static str,
    pub name: String,
    pub sql: String,
    pub templ: c04::Templ,
}

fn titem_json(it: &TItem) -> Value {
    json!({"kind": "templated", "dialect": it.dialect, "rules": "LT01", "sql": it.sql, "name": it.name,
        "templ": {"style": it.templ.style, "regex": it.templ.regex, "params": it.templ.params, "api": it.templ.api}})
}
pub(super) fn titem_from_json(v: &Value) -> TItem {
    let it = c04::item_from_json(&json!({"dialect": v["dialect"], "rules": "LT01", "sql": v["sql"], "templ": v["templ"]}));
    TItem { dialect: it.dialect, cls: "replay", name: "replay".into(), sql: it.sql, templ: it.templ.unwrap_or(c04::Templ { style: "colon".into(), regex: None, params: vec![], api: false }) }
}

/// values that render to several tokens with repeated tokens (same text, same token type)
const REPEATS: &[(&str, &[&str])] = &[
    ("col", &["a, a", "a, b, a", "x + x", "a AS a", "t.a, t.a", "f(a, a)", "a + a + a", "count(*), count(*)", "a a", "CASE WHEN a THEN a ELSE a END", "a.a.a", "a , a , a ,a", "(a), (a)", "1, 1, 2, 1", "'x', 'x'", "a || a || a"]),
    ("tbl", &["s.t AS t", "t AS t", "t, t", "t t", "t JOIN t ON t.a = t.a", "t AS a JOIN t AS b ON a.a = b.a", "(SELECT 1) AS a, (SELECT 1) AS b", "s.s.s", "t JOIN u USING (a) JOIN v USING (a)"]),
    ("val", &["(1, 1, 2, 1)", "(1, 1)", "x + x", "1 AND 1 = 1", "a OR a OR a", "b AND b", "(1), (1)", "f(b, b)", "1 + 1 + 1", "((1))", "b - b", "'x' || 'x'", "1 AND c = 1 AND d = 1", "CASE WHEN b THEN b ELSE b END", "b.b", "(SELECT 1) + (SELECT 1)"]),
    ("clause", &["WHERE a = a", "WHERE a = 1 AND a = 1", "ORDER BY a, a", "GROUP BY a, a ORDER BY a, a", "WHERE a IN (1, 1, 1)"]),
    ("stmt", &["SELECT a, a FROM t", "SELECT 1; SELECT 1", "SELECT a FROM t AS t", "SELECT 1 UNION ALL SELECT 1", "SELECT a FROM t WHERE a = a"]),
];
const T_SKELETONS: &[&str] = &[
    "SELECT {col} FROM t",
    "SELECT x FROM {tbl}",
    "SELECT {col} FROM {tbl}",
    "SELECT a FROM t WHERE a IN {val} AND b = 1",
    "SELECT a FROM t WHERE a = {val}",
    "SELECT {val} FROM t",
    "SELECT a, {col}, b FROM t WHERE c = {val} ORDER BY a",
    "INSERT INTO t (a, b) VALUES ({val}, {val})",
    "UPDATE t SET a = {val} WHERE b = {val}",
    "SELECT a FROM t {clause}",
    "SELECT a FROM {tbl} {clause}",
    "{stmt}",
    "{stmt};\n{stmt}",
    "WITH c AS (SELECT {col} FROM {tbl}) SELECT * FROM c WHERE a = {val}",
    "SELECT f({val}), count({col}) FROM {tbl} GROUP BY {col}",
    "SELECT a FROM t1 JOIN {tbl} ON t1.a = {val}",
    "SELECT CASE WHEN a = {val} THEN {val} ELSE {val} END FROM t",
];
const T_STYLES: &[&str] = &["colon", "pyformat", "dollar", "question_mark", "percent", "ampersand", "flyway_var"];

fn t_placeholder(style: &str, name: &str, n: usize) -> (String, String) {
    match style {
        "colon" => (format!(":{}", name), name.to_string()),
        "pyformat" => (format!("%({})s", name), name.to_string()),
        "dollar" => (format!("${{{}}}", name), name.to_string()),
        "question_mark" => ("?".to_string(), n.to_string()),
        "percent" => ("%s".to_string(), n.to_string()),
        "ampersand" => (format!("&{{{}}}", name), name.to_string()),
        _ => (format!("${{v:{}}}", name), format!("v:{}", name)),
    }
}

fn gen_repeat(rng: &mut Rng) -> Option<TItem> {
    let style = *rng.pick(T_STYLES);
    let skel = *rng.pick(T_SKELETONS);
    let mut sql = String::new();
    let mut params: Vec<(String, String)> = vec![];
    let mut rest = skel;
    let mut n = 0usize;
    while let Some(a) = rest.find('{') {
        let b = rest[a..].find('}')? + a;
        sql.push_str(&rest[..a]);
        let role = &rest[a + 1..b];
        let vals = REPEATS.iter().find(|r| r.0 == role)?.1;
        let mut v = rng.pick(vals).to_string();
        // sometimes the value is a role value of the C04 generator glued to itself
        if rng.chance(1, 5) {
            let sep = *rng.pick(&[", ", " + ", " AND ", " "]);
            if role == "val" || role == "col" {
                let base = *rng.pick(&["a", "1", "b + 1", "t.a", "f(b)", "'x'"]);
                v = format!("{}{}{}", base, sep, base);
            }
        }
        if rng.chance(1, 3) {
            sql.push_str(&v);
        } else {
            n += 1;
            let (ph, key) = t_placeholder(style, &format!("p{}", n), n);
            sql.push_str(&ph);
            params.push((key, v));
        }
        rest = &rest[b + 1..];
    }
    sql.push_str(rest);
    if n == 0 {
        return None;
    }
    sql.push_str(*rng.pick(&["\n", "", ";\n", "\n\n"]));
    let dialect = if rng.chance(1, 2) { "ansi" } else { DIALECTS[rng.below(DIALECTS.len())] };
    Some(TItem { dialect: dialect.into(), cls: "templated-repeats", name: format!("{}|{}", style, trunc(skel, 40)), sql, templ: c04::Templ { style: style.into(), regex: None, params, api: rng.chance(1, 4) } })
}

pub(super) fn gen_templated(args: &Args) -> Vec<TItem> {
    let mut rng = Rng::new(args.seed ^ 0x7e3a);
    let thorough = args.thorough();
    let mut items = vec![];
    let n_rep = if thorough { 6000 } else { 500 };
    let (mut made, mut tries) = (0, 0);
    while made < n_rep && tries < n_rep * 5 {
        tries += 1;
        if let Some(it) = gen_repeat(&mut rng) {
            items.push(it);
            made += 1;
        }
    }
    // the C04 generators: synthetic statements around placeholders, corpus literals turned into placeholders
    let known = sqruff_lib::templaters::placeholder::get_known_styles();
    let matches = |style: &str, sql: &str| known.get(style).map(|re| re.find_iter(sql).filter(|m| m.is_ok()).count());
    let n_shapes = if thorough { 6000 } else { 400 };
    let (mut made, mut tries) = (0, 0);
    while made < n_shapes && tries < n_shapes * 5 {
        tries += 1;
        if let Some(it) = c04::gen_shape(&mut rng, &matches) {
            if let Some(t) = it.templ {
                items.push(TItem { dialect: it.dialect, cls: "templated-shapes", name: format!("shape{}", made), sql: it.sql, templ: t });
                made += 1;
            }
        }
    }
    let files = corpus();
    let n_corpus = if thorough { 4000 } else { 300 };
    let (mut made, mut tries) = (0, 0);
    while made < n_corpus && tries < n_corpus * 20 {
        tries += 1;
        let f = &files[rng.below(files.len())];
        if f.text.len() > 2500 || !DIALECTS.contains(&f.dialect.as_str()) {
            continue;
        }
        let style = *rng.pick(T_STYLES);
        if let Some((sql, templ)) = c04::templatise(&mut rng, &f.text, style, true) {
            items.push(TItem { dialect: f.dialect.clone(), cls: "templated-corpus", name: f.name.clone(), sql, templ });
            made += 1;
        }
    }
    // a worker keeps one linter per dialect: neighbours in the list share the dialect
    items.sort_by(|a, b| a.dialect.cmp(&b.dialect));
    items
}

fn parse_templated(linter: &sqruff_lib::core::linter::core::Linter, sql: &str) -> Result<String, String> {
    catch(|| {
        let tables = Tables::default();
        match linter.parse_string(&tables, sql, None) {
            Ok(p) => match p.tree {
                Some(tree) => {
                    let mut s = String::new();
                    ser_tree(&tree, &mut s);
                    Ok(s)
                }
                None => Ok("(none)".to_string()),
            },
            Err(e) => Ok(format!("(user-error {:?})", e.value)),
        }
    })
    .unwrap_or_else(|p| Err(format!("PANIC {}", p)))
}

/// One templated input: baseline (with the audits of location keys and cache hits), cache off, pruning
/// off, both off, repeat.  A small input: a parse that burns 15 s of CPU is stuck.
pub(super) type Linters = HashMap<String, sqruff_lib::core::linter::core::Linter>;

pub(super) fn run_templated(linters: &mut Linters, it: &TItem, buf: &mut Buf) {
    let input = titem_json(it);
    // one linter per (worker thread, dialect); the placeholder section of its configuration is rewritten
    // for every input (building a linter costs 40 ms, most of it the dialect)
    if !linters.contains_key(&it.dialect) {
        let base = c04::Templ { style: "colon".into(), regex: None, params: vec![], api: false };
        match catch(|| c04::mk_linter(&it.dialect, "LT01", Some(&base))) {
            Ok(l) => {
                linters.insert(it.dialect.clone(), l);
            }
            Err(_) => {
                buf.count("templated_inputs_without_a_linter", 1);
                return;
            }
        }
    }
    let linter = linters.get_mut(&it.dialect).unwrap();
    {
        use sqruff_lib::core::config::Value as CfgValue;
        let Some(m) = linter.config_mut().raw.get_mut("templater").and_then(|x| x.as_map_mut()).and_then(|x| x.get_mut("placeholder")).and_then(|x| x.as_map_mut()) else {
            buf.count("templated_inputs_without_a_linter", 1);
            return;
        };
        m.clear();
        match &it.templ.regex {
            Some(r) => m.insert("param_regex".into(), CfgValue::String(r.as_str().into())),
            None => m.insert("param_style".into(), CfgValue::String(it.templ.style.as_str().into())),
        };
        for (k, v) in &it.templ.params {
            if k != "param_style" && k != "param_regex" {
                m.insert(k.clone(), CfgValue::String(v.as_str().into()));
            }
        }
    }
    let linter = &*linter;
    let watched = |variant: &str| {
        let mut w = input.clone();
        w["variant"] = json!(variant);
        w["cpu_limit_s"] = json!(15);
        watch_set(w);
        let o = outcome(&parse_templated(linter, &it.sql));
        watch_clear();
        o
    };
    verif_switches::set(false, false);
    verif_switches::audit_start();
    verif_switches::loc_audit_start();
    let base = watched("baseline");
    let (hits, bad, ex) = verif_switches::audit_take();
    let la = verif_switches::loc_audit_take();
    if la.calls > 0 {
        loc_hyp(buf, &la, json!({"dialect": it.dialect, "templated_input": input}));
    }
    buf.count("cache_hits_audited", hits);
    buf.count("cache_hits_differing_from_recomputation", bad);
    buf.hyp("H_mfn_cache_hit_equals_recomputation(Inv)", "diagnostic", bad == 0, json!({"dialect": it.dialect, "templated_input": input, "hits": hits, "differing": bad, "first": ex}));
    let mut variants: Vec<(&str, String)> = vec![];
    verif_switches::set(true, false);
    variants.push(("cache-off", watched("cache-off")));
    verif_switches::set(false, true);
    variants.push(("prune-off", watched("prune-off")));
    verif_switches::set(true, true);
    variants.push(("both-off", watched("both-off")));
    verif_switches::set(false, false);
    variants.push(("repeat", watched("repeat")));
    buf.count(&format!("inputs_{}", it.cls), 1);
    if base.starts_with("tree:") {
        buf.count("nontrivial_inputs", 1);
    }
    // how many templated slices render to several tokens with a repeated (raw, type)
    for (v, o) in variants {
        let same = o == base;
        if !same && (o.starts_with("abort-dangling:") || base.starts_with("abort-dangling:")) {
            buf.count("differences_masked_by_C14_dangling_abort", 1);
            buf.direct(&format!("{}:{}", it.cls, v), true, "", "", Value::Null);
            continue;
        }
        let key = format!("{}:templated:{}:{:016x}", v, it.dialect, h64(&format!("{}{:?}", it.sql, it.templ.params)));
        let mut inp = input.clone();
        inp["variant"] = json!(v);
        inp["baseline"] = json!(base);
        inp["observed"] = json!(o);
        buf.direct(&format!("{}:{}", it.cls, v), same, &key, &format!("parse result of a templated file with {} differs from the baseline (shortcuts on)", v), inp);
    }
}

// ---------------------------------------------------------------- (e) configuration histories
// The tree of (dialect, input, configuration) must not depend on what the dialect object parsed before -
// in particular not on the configuration of an earlier parse.  The parser reads one piece of configuration:
// the boolean switches of `[sqruff:indentation]` (`Parser::indentation_config`, read by `Conditional`), and a
// long-lived `Dialect` / `Linter` can be used under changing switches (`Parser::new(&dialect, cfg)`,
// `Linter::config_mut`).  One task = one dialect and one *history*: a reused `Dialect` and a reused `Linter`
// parse every input under every configuration of a list, the order changing from input to input (history 0
// starts with everything off, history 1 with everything on, so both directions of every switch happen on an
// object that has already answered under the other value).  Every tree - meta segments (Indent / Dedent /
// Implicit) included, `ser_tree` keeps them - is compared with the tree of a dialect instance that has only
// ever parsed under that configuration; a difference is then confirmed against an instance (dialect, and for
// the linter entry point a linter built by `FluffConfig::from_source` with the switches in its source) that
// has never parsed anything.
pub(super) const SWITCHES: &[&str] =
    &["indented_joins", "indented_using_on", "indented_on_contents", "indented_ctes", "indented_then", "indented_then_contents", "indented_joins_on", "template_blocks_indent"];
/// the values of default_config.cfg (indented_joins_on is not a key there)
const SWITCH_DEFAULTS: [bool; 8] = [false, true, true, false, true, true, false, true];

/// statements that reach every `Conditional` of the grammars (JOIN / USING / ON / CTE / CASE .. THEN), in every dialect
const CFG_SKELETONS: &[&str] = &[
    "SELECT a.x\nFROM a\nJOIN b ON a.x = b.x\nJOIN c USING (x)\n",
    "WITH c AS (SELECT 1 AS x), d AS (SELECT 2 AS x) SELECT * FROM c JOIN d ON c.x = d.x AND c.y = d.y\n",
    "SELECT CASE WHEN a = 1 THEN 'x' WHEN a = 2 THEN 'y' ELSE 'z' END AS k FROM t\n",
    "SELECT * FROM a LEFT JOIN b USING (x) INNER JOIN c ON a.x = c.x WHERE a.x IN (SELECT x FROM d JOIN e ON d.x = e.x)\n",
    "UPDATE t SET a = CASE WHEN b THEN 1 ELSE 2 END\n",
    "INSERT INTO t WITH c AS (SELECT 1) SELECT * FROM c\n",
    "SELECT * FROM a CROSS JOIN b JOIN c ON (a.x = c.x)\n",
    "SELECT 1\n",
];

pub(super) struct HTask {
    pub dialect: String,
    pub history: usize,
    pub configs: Vec<Vec<bool>>,
    pub inputs: Vec<(String, String)>,
    pub seed: u64,
}

fn cfg_json(c: &[bool]) -> Value {
    Value::Object(SWITCHES.iter().zip(c).map(|(k, v)| (k.to_string(), json!(v))).collect())
}
fn cfg_from_json(v: &Value) -> Vec<bool> {
    SWITCHES.iter().zip(SWITCH_DEFAULTS).map(|(k, d)| v[*k].as_bool().unwrap_or(d)).collect()
}
fn cfg_map(c: &[bool]) -> AHashMap<String, bool> {
    SWITCHES.iter().zip(c).map(|(k, v)| (k.to_string(), *v)).collect()
}

pub(super) fn gen_histories(args: &Args) -> Vec<HTask> {
    let thorough = args.thorough();
    let mut rng = Rng::new(args.seed ^ 0xc0f1);
    let n = SWITCHES.len();
    // everything off first, everything on last (history 1 walks the list backwards on its first input)
    let mut configs: Vec<Vec<bool>> = vec![vec![false; n], SWITCH_DEFAULTS.to_vec()];
    for i in 0..n - 1 {
        let mut c = vec![false; n];
        c[i] = true;
        configs.push(c);
    }
    for i in 0..n - 1 {
        let mut c = SWITCH_DEFAULTS.to_vec();
        c[i] = !c[i];
        if thorough || i % 2 == (args.seed % 2) as usize {
            configs.push(c);
        }
    }
    for _ in 0..(if thorough { 12 } else { 2 }) {
        configs.push((0..n).map(|_| rng.chance(1, 2)).collect());
    }
    configs.push(SWITCH_DEFAULTS.iter().map(|b| !b).collect());
    configs.push(vec![true; n]);
    let per_history = if thorough { 40 } else { 7 };
    let files = corpus();
    let mut tasks = vec![];
    for d in DIALECTS {
        let mut cand: Vec<&CorpusFile> = files
            .iter()
            .filter(|f| f.dialect == *d && f.text.len() <= 3000)
            .filter(|f| {
                let u = f.text.to_ascii_uppercase();
                ["JOIN", "WITH", "CASE", "USING", " ON "].iter().any(|w| u.contains(w))
            })
            .collect();
        rng.shuffle(&mut cand);
        cand.truncate(2 * per_history);
        for h in 0..2 {
            let mut inputs: Vec<(String, String)> = CFG_SKELETONS.iter().enumerate().map(|(i, s)| (format!("skeleton{}", i), s.to_string())).collect();
            inputs.extend(cand.iter().skip(h).step_by(2).map(|f| (f.name.clone(), f.text.clone())));
            tasks.push(HTask { dialect: d.to_string(), history: h, configs: configs.clone(), inputs, seed: rng.next() });
        }
    }
    tasks
}

fn parse_cfg(d: &Dialect, sql: &str, c: &[bool]) -> Result<String, String> {
    catch(|| {
        let tables = Tables::default();
        let (tokens, _errs) = d.lexer().lex(&tables, StringOrTemplate::String(sql)).map_err(|e| format!("lex error: {:?}", e))?;
        let parser = sqruff_lib_core::parser::parser::Parser::new(d, cfg_map(c));
        match parser.parse(&tables, &tokens, None) {
            Ok(Some(tree)) => {
                let mut s = String::new();
                ser_tree(&tree, &mut s);
                Ok(s)
            }
            Ok(None) => Ok("(none)".to_string()),
            Err(e) => Ok(format!("(parse-error {:?})", e.description)),
        }
    })
    .unwrap_or_else(|p| Err(format!("PANIC {}", p)))
}

type VLinter = sqruff_lib::core::linter::core::Linter;

fn set_switches(l: &mut VLinter, c: &[bool]) -> bool {
    use sqruff_lib::core::config::Value as CfgValue;
    let Some(m) = l.config_mut().raw.get_mut("indentation").and_then(|x| x.as_map_mut()) else {
        return false;
    };
    for (k, v) in SWITCHES.iter().zip(c) {
        m.insert(k.to_string(), CfgValue::Bool(*v));
    }
    true
}
/// a linter whose configuration source carries the switches
fn linter_from_source(dialect: &str, c: &[bool]) -> Result<VLinter, String> {
    let mut src = format!("[sqruff]\ndialect = {}\nrules = LT01\n\n[sqruff:indentation]\n", dialect);
    for (k, v) in SWITCHES.iter().zip(c) {
        src.push_str(&format!("{} = {}\n", k, if *v { "True" } else { "False" }));
    }
    catch(|| VLinter::new(sqruff_lib::core::config::FluffConfig::from_source(&src, None), None, None, true))
}

fn text_of(r: &Result<String, String>) -> &str {
    match r {
        Ok(s) | Err(s) => s,
    }
}

struct Hist {
    dialect: Dialect,
    linter: Option<VLinter>,
    /// (input, configuration) of the first and of the latest parse of the two reused objects
    first: Option<(String, Vec<bool>)>,
    prev: Option<(String, Vec<bool>)>,
}

fn history_json(h: &Hist) -> Value {
    let mut v = vec![];
    for e in [&h.first, &h.prev].into_iter().flatten() {
        let j = json!({"sql": e.0, "config": cfg_json(&e.1)});
        if !v.contains(&j) {
            v.push(j);
        }
    }
    json!(v)
}

/// Compare one parse of a reused object with the reference; on a difference consult an instance that has never parsed.
#[allow(clippy::too_many_arguments)]
fn judge(entry: &str, dname: &str, name: &str, sql: &str, c: &[bool], got: &Result<String, String>, want: &Result<String, String>, hist: &Value, listed: &mut usize, buf: &mut Buf) {
    let cls = format!("config-history:{}", entry);
    if got == want {
        buf.direct(&cls, true, "", "", Value::Null);
        return;
    }
    let fresh = if entry == "linter" {
        match linter_from_source(dname, c) {
            Ok(l) => parse_templated(&l, sql),
            Err(e) => Err(format!("PANIC {}", e)),
        }
    } else {
        parse_cfg(&crate::c14::dialect_of(dname), sql, c)
    };
    if &fresh == got {
        if entry == "linter" {
            // reused and never-used linter agree with each other but not with Parser::new on a dialect that only saw these
            // switches: something outside (dialect, input, switches) decides the tree - e.g. an answer remembered process-wide
            buf.count("config_history_linter_vs_parser_entry_differences", 1);
            if *listed < 4 {
                *listed += 1;
                let key = format!("config-history:entry-points:{}:{:016x}", dname, h64(&format!("{}{:?}", sql, c)));
                buf.direct("config-history:entry-points", false, &key, "a never-used Linter built with these indentation switches (and the reused one) gives another tree than Parser::new with the same switches on a dialect instance that only ever saw them: something besides dialect, input and switches decides the tree", json!({"kind": "config-history", "entry": "linter", "dialect": dname, "name": name, "sql": sql, "config": cfg_json(c), "history": hist, "linter": outcome(got), "parser": outcome(want), "first_difference": super::first_diff(text_of(want), text_of(got))}));
            }
            return;
        }
        // the instance that only ever parsed under this configuration is the odd one: repeated parses on one instance
        buf.count("config_history_differences", 1);
        if *listed < 4 {
            *listed += 1;
            let key = format!("config-history:same-config-instance:{}:{:016x}", dname, h64(&format!("{}{:?}", sql, c)));
            buf.direct("config-history:same-config-instance", false, &key, "a dialect instance that has parsed other inputs under the SAME configuration gives another tree (meta segments included) than an instance that has never parsed", json!({"kind": "config-history", "entry": "parser", "dialect": dname, "name": name, "sql": sql, "config": cfg_json(c), "history": [], "reused": outcome(want), "fresh": outcome(&fresh), "first_difference": super::first_diff(text_of(&fresh), text_of(want))}));
        }
        return;
    }
    buf.count("config_history_differences", 1);
    if *listed < 4 {
        *listed += 1;
        let key = format!("config-history:{}:{}:{:016x}", entry, dname, h64(&format!("{}{:?}", sql, c)));
        let what = if entry == "linter" { "a Linter reused after Linter::config_mut changed [sqruff:indentation] gives another tree (meta segments included) than a Linter built with that configuration" } else { "a Dialect reused by Parser::new(&dialect, indentation switches) after parses under other switches gives another tree (meta segments included) than a fresh dialect instance" };
        buf.direct(&cls, false, &key, what, json!({"kind": "config-history", "entry": entry, "dialect": dname, "name": name, "sql": sql, "config": cfg_json(c), "history": hist, "reused": outcome(got), "fresh": outcome(&fresh), "first_difference": super::first_diff(text_of(&fresh), text_of(got))}));
    }
}

pub(super) fn run_history(t: &HTask, buf: &mut Buf) {
    verif_switches::set(false, false);
    let watched = |entry: &str, sql: &str, c: &[bool], f: &dyn Fn() -> Result<String, String>| {
        watch_set(json!({"kind": "config-history", "entry": entry, "variant": entry, "dialect": t.dialect, "sql": sql, "config": cfg_json(c), "history": [], "cpu_limit_s": 30}));
        let r = f();
        watch_clear();
        r
    };
    // reference: one dialect instance per configuration, never used under another one
    let mut reference: Vec<Vec<Result<String, String>>> = vec![];
    for c in &t.configs {
        let d = crate::c14::dialect_of(&t.dialect);
        reference.push(t.inputs.iter().map(|(_, sql)| watched("reference", sql, c, &|| parse_cfg(&d, sql, c))).collect());
    }
    let mut sensitive = 0;
    for j in 0..t.inputs.len() {
        let distinct: HashSet<&Result<String, String>> = reference.iter().map(|r| &r[j]).collect();
        if distinct.len() > 1 {
            sensitive += 1;
        }
        if t.history == 0 && j < CFG_SKELETONS.len() {
            buf.count("config_history_distinct_trees_of_the_skeletons", distinct.len());
        }
    }
    // the switches must reach the parser at all: a process-wide remembered answer would make every instance agree
    if t.history == 0 {
        let (off, on) = (&reference[0], &reference[t.configs.len() - 1]);
        let moved = (0..CFG_SKELETONS.len().min(t.inputs.len())).filter(|&j| off[j] != on[j]).count();
        buf.hyp("indentation_switches_change_the_tree_of_the_skeleton_statements(all off vs all on)", "blocking", moved >= 5, json!({"dialect": t.dialect, "skeletons_with_different_trees": moved, "of": CFG_SKELETONS.len()}));
    }
    buf.count("config_history_inputs", t.inputs.len());
    buf.count("inputs_config-history", t.inputs.len());
    buf.count("config_history_inputs_whose_tree_depends_on_the_switches", sensitive);
    buf.count("nontrivial_inputs", sensitive);
    buf.count("config_history_configurations", if t.history == 0 && t.dialect == "ansi" { t.configs.len() } else { 0 });
    let mut h = Hist { dialect: crate::c14::dialect_of(&t.dialect), linter: catch(|| c04::mk_linter(&t.dialect, "LT01", None)).ok(), first: None, prev: None };
    if h.linter.is_none() {
        buf.count("config_history_tasks_without_a_linter", 1);
    }
    let mut rng = Rng::new(t.seed);
    let (mut listed_p, mut listed_l) = (0usize, 0usize);
    for (j, (name, sql)) in t.inputs.iter().enumerate() {
        let mut order: Vec<usize> = (0..t.configs.len()).collect();
        if j == 0 {
            if t.history == 1 {
                order.reverse();
            }
        } else {
            rng.shuffle(&mut order);
        }
        for &ci in &order {
            let c = &t.configs[ci];
            let hist = history_json(&h);
            let got = watched("parser", sql, c, &|| parse_cfg(&h.dialect, sql, c));
            judge("parser", &t.dialect, name, sql, c, &got, &reference[ci][j], &hist, &mut listed_p, buf);
            if let Some(l) = h.linter.as_mut() {
                if set_switches(l, c) {
                    let l = &*l;
                    let got = watched("linter", sql, c, &|| parse_templated(l, sql));
                    judge("linter", &t.dialect, name, sql, c, &got, &reference[ci][j], &hist, &mut listed_l, buf);
                }
            }
            if h.first.is_none() {
                h.first = Some((sql.clone(), c.clone()));
            }
            h.prev = Some((sql.clone(), c.clone()));
        }
    }
}

/// Replay of one reported difference: a never-used object parses the recorded history, then the input.
pub(super) fn replay_history(v: &Value, buf: &mut Buf) {
    verif_switches::set(false, false);
    let dname = v["dialect"].as_str().unwrap_or("ansi");
    let sql = v["sql"].as_str().unwrap_or("");
    let c = cfg_from_json(&v["config"]);
    let entry = v["entry"].as_str().unwrap_or("parser");
    let hist: Vec<(String, Vec<bool>)> = v["history"].as_array().map(|a| a.iter().map(|e| (e["sql"].as_str().unwrap_or("").to_string(), cfg_from_json(&e["config"]))).collect()).unwrap_or_default();
    let want = parse_cfg(&crate::c14::dialect_of(dname), sql, &c);
    let mut listed = 0;
    let got = if entry == "linter" {
        let Ok(mut l) = catch(|| c04::mk_linter(dname, "LT01", None)) else {
            return;
        };
        for (s, hc) in &hist {
            set_switches(&mut l, hc);
            let _ = parse_templated(&l, s);
        }
        set_switches(&mut l, &c);
        parse_templated(&l, sql)
    } else {
        let d = crate::c14::dialect_of(dname);
        for (s, hc) in &hist {
            let _ = parse_cfg(&d, s, hc);
        }
        parse_cfg(&d, sql, &c)
    };
    judge(entry, dname, "replay", sql, &c, &got, &want, &v["history"], &mut listed, buf);
}
