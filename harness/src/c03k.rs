//! C03 kernel correspondence — see coq/theories/Crash/Model.v and Corr/C03.v.
//!  group `scan`: `FluffConfig::process_raw_file_for_config` vs `scan_config false`
//!  group `htc` : `LintFix::has_template_conflicts` on generated fix shapes × templated files vs the model
//!                (`templated_slice_to_source_slice` answers recorded and passed as a table)
//!  group `loop`: the fix loop of `lint_fix_parsed`, observed through the `verif_hook`, vs `lint_fix`
//!                (rule crawls + apply_fixes recorded as a table keyed by (phase, pass, rule, version))
use std::cell::RefCell;
use std::collections::HashMap;
use std::rc::Rc;

use serde_json::{Value, json};
use sqruff_lib::core::linter::core::{Linter, verif_hook};
use sqruff_lib::core::rules::base::LintPhase;
use sqruff_lib_core::dialects::init::DialectKind;
use sqruff_lib_core::dialects::syntax::SyntaxKind;
use sqruff_lib_core::lint_fix::LintFix;
use sqruff_lib_core::parser::markers::PositionMarker;
use sqruff_lib_core::parser::segments::base::{ErasedSegment, SegmentBuilder};
use sqruff_lib_core::templaters::base::{RawFileSlice, TemplatedFile, TemplatedFileSlice};

use super::mk_linter;
use crate::common::*;

/// true iff `usize` subtraction wraps in this build (overflow checks off).
fn wrapping_build() -> bool {
    catch(|| {
        let a: usize = std::hint::black_box(0);
        let b: usize = std::hint::black_box(1);
        std::hint::black_box(a - b)
    })
    .is_ok()
}

// ------------------------------------------------------------------ scan
fn scan_case(linter: &Linter, cls: &str, sql: &str, buf: &mut Buf) {
    let crashed = catch(|| linter.config().process_raw_file_for_config(sql)).is_err();
    // stage invariant of parse_rendered: the lexer reports no violation list (else `unimplemented!`)
    let lv = catch(|| {
        let tables = sqruff_lib_core::parser::segments::base::Tables::default();
        let tf = TemplatedFile::new(sql.to_string(), "f".into(), None, None, None).ok()?;
        Some(Linter::lex_templated_file(&tables, tf, linter.config().get_dialect()).1.is_empty())
    });
    buf.hyp("H_lex_violations_empty", "blocking", matches!(lv, Ok(Some(true)) | Ok(None)), json!({"sql":sql}));
    let has = sql.lines().any(|l| l.starts_with("-- sqlfluff"));
    buf.case("scan", cls, has, g_str(sql), g_bool(crashed), json!({"input":{"kernel":"scan","sql":sql},"crashed":crashed}));
}

// ------------------------------------------------------------------ has_template_conflicts
struct TfSpec {
    source: String,
    templated: String,
    sliced: Vec<(String, (usize, usize), (usize, usize))>,
    raw: Vec<(String, String, usize)>,
}
fn build_tf(spec: &TfSpec, plain: bool) -> Option<TemplatedFile> {
    if plain {
        return TemplatedFile::new(spec.source.clone(), "f".into(), None, None, None).ok();
    }
    let sliced = spec.sliced.iter().map(|(t, s, p)| TemplatedFileSlice::new(t, s.0..s.1, p.0..p.1)).collect();
    let raw = spec.raw.iter().map(|(r, t, i)| RawFileSlice::new(r.clone(), t.clone(), *i, None, None)).collect();
    catch(|| TemplatedFile::new(spec.source.clone(), "f".into(), Some(spec.templated.clone()), Some(sliced), Some(raw))).ok()?.ok()
}
/// literal / templated pieces, like the placeholder templater produces.
fn gen_tf(rng: &mut Rng) -> (TfSpec, bool) {
    let lits = ["SELECT ", " FROM ", "a, b", " WHERE x = ", "\n", "t", "1"];
    if rng.chance(1, 3) {
        let n = rng.range(0, 3);
        let src: String = (0..n).map(|_| lits[rng.below(lits.len())]).collect();
        let len = src.len();
        return (
            TfSpec { source: src.clone(), templated: src.clone(), sliced: vec![("literal".into(), (0, len), (0, len))], raw: vec![(src, "literal".into(), 0)] },
            true,
        );
    }
    let n = rng.range(1, 5);
    let (mut source, mut templated) = (String::new(), String::new());
    let (mut sliced, mut raw) = (vec![], vec![]);
    for i in 0..n {
        let templ = (i % 2 == 1) ^ rng.chance(1, 5);
        let (s0, t0) = (source.len(), templated.len());
        if templ {
            let ph = [":x", "{{ a }}", "?", "$1"][rng.below(4)];
            let val = ["1", "tbl", "", "a + b"][rng.below(4)];
            source.push_str(ph);
            templated.push_str(val);
            sliced.push(("templated".to_string(), (s0, source.len()), (t0, templated.len())));
            raw.push((ph.to_string(), "templated".to_string(), s0));
        } else {
            let l = lits[rng.below(lits.len())];
            source.push_str(l);
            templated.push_str(l);
            sliced.push(("literal".to_string(), (s0, source.len()), (t0, templated.len())));
            raw.push((l.to_string(), "literal".to_string(), s0));
        }
    }
    (TfSpec { source, templated, sliced, raw }, false)
}

fn htc_case(rng: &mut Rng, id: u32, wrapping: bool, buf: &mut Buf) {
    let (spec, plain) = gen_tf(rng);
    let Some(tf) = build_tf(&spec, plain) else {
        buf.count("htc_tf_rejected", 1);
        return;
    };
    let tlen = spec.templated.len();
    let slen = spec.source.len();
    // anchor
    let with_marker = !rng.chance(1, 12);
    let (ta, tb) = {
        let a = rng.below(tlen + 2);
        let b = if rng.chance(1, 4) { a } else { a + rng.below(tlen + 3 - a.min(tlen + 2)) };
        (a, b.max(a))
    };
    let (sa, sb) = {
        let a = rng.below(slen + 2);
        let b = if rng.chance(1, 4) { a } else { a + rng.below(4) };
        (a, b)
    };
    let anchor_raw = "anchor";
    let mut ab = SegmentBuilder::token(id, anchor_raw, SyntaxKind::Word);
    if with_marker {
        let pm = catch(|| PositionMarker::new(sa..sb, ta..tb, tf.clone(), None, None));
        match pm {
            Ok(pm) => ab = ab.with_position(pm),
            Err(_) => {
                buf.count("htc_marker_rejected", 1);
                return;
            }
        }
    }
    let anchor = ab.finish();
    // edits
    let n_edits = [0usize, 1, 1, 2, 3][rng.below(5)];
    let mut edits: Vec<ErasedSegment> = vec![];
    let mut shapes = vec![];
    for k in 0..n_edits {
        let same = rng.chance(1, 3);
        let raw = if same { anchor_raw } else { "edit" };
        let leaf = !rng.chance(1, 4);
        let seg = if leaf {
            SegmentBuilder::token(id + 1 + k as u32, raw, SyntaxKind::Word).finish()
        } else {
            SegmentBuilder::node(id + 1 + k as u32, SyntaxKind::ColumnReference, DialectKind::Ansi, vec![SegmentBuilder::token(id + 10 + k as u32, raw, SyntaxKind::Word).finish()]).finish()
        };
        let same_raw = seg.raw() == anchor.raw();
        let nfix = seg.get_source_fixes().len();
        shapes.push((seg.segments().is_empty(), nfix, same_raw));
        edits.push(seg);
    }
    let ty = rng.below(4);
    let with_source = rng.chance(1, 4);
    let source = if with_source { Some(vec![anchor.clone()]) } else { None };
    let fix = match ty {
        0 => LintFix::create_before(anchor.clone(), edits.clone()),
        1 => LintFix::create_after(anchor.clone(), edits.clone(), source),
        2 => LintFix::replace(anchor.clone(), edits.clone(), source),
        _ => LintFix::delete(anchor.clone()),
    };
    let shapes = if ty == 3 { vec![] } else { shapes };
    let has_source = !fix.source.is_empty();
    // oracle table: templated_slice_to_source_slice on every range fix_slices can ask for
    let mut ranges: Vec<(usize, usize)> = vec![];
    if with_marker {
        ranges = vec![(ta.saturating_sub(1), ta + 1), (ta.saturating_sub(1), ta), (tb.saturating_sub(1), tb + 1), (tb.wrapping_sub(1), tb + 1), (tb, tb + 1), (ta, tb)];
        ranges.sort();
        ranges.dedup();
    }
    let table: Vec<((usize, usize), Result<Option<(usize, usize)>, ()>)> = ranges
        .iter()
        .map(|&(a, b)| {
            let r = catch(|| tf.templated_slice_to_source_slice(a..b));
            ((a, b), match r {
                Ok(Ok(s)) => Ok(Some((s.start, s.end))),
                Ok(Err(_)) => Ok(None),
                Err(_) => Err(()),
            })
        })
        .collect();
    let res = catch(|| fix.has_template_conflicts(&tf));
    let exp = match &res {
        Ok(b) => format!("(Some {})", g_bool(*b)),
        Err(_) => "None".to_string(),
    };
    let g_nn = |a: usize, b: usize| format!("({},{})", a, b);
    let marker_g = if with_marker { format!("(Some ({},{},{},{}))", sa, sb, ta, tb) } else { "None".to_string() };
    let args = g_tuple(&[
        g_bool(wrapping),
        g_n(ty),
        marker_g,
        g_list(shapes.iter().map(|(leaf, nfix, same)| g_tuple(&[g_bool(*leaf), g_n(*nfix), g_bool(*same)]))),
        g_bool(has_source),
        g_list(spec.raw.iter().map(|(r, t, i)| g_tuple(&[g_bool(t == "templated"), g_n(*i), g_n(r.len())]))),
        g_list(table.iter().map(|((a, b), r)| {
            g_pair(&g_nn(*a, *b), &match r {
                Ok(Some((x, y))) => format!("(Some (Some {}))", g_nn(*x, *y)),
                Ok(None) => "(Some None)".to_string(),
                Err(()) => "None".to_string(),
            })
        })),
    ]);
    if res.is_err() {
        buf.count("htc_real_panics", 1);
    }
    if let Ok(true) = res {
        buf.count("htc_conflict_true", 1);
    }
    let cls = format!("htc-{}-{}", ["create_before", "create_after", "replace", "delete"][ty], if plain { "plain" } else { "templated" });
    let nontrivial = with_marker && !plain;
    buf.case(
        "htc",
        &cls,
        nontrivial,
        args,
        exp,
        json!({"input":{"kernel":"htc"},"type":ty,"marker":[sa,sb,ta,tb],"with_marker":with_marker,"edits":shapes.iter().map(|s| json!([s.0,s.1,s.2])).collect::<Vec<_>>(),
               "source":spec.source,"templated":spec.templated,"result":format!("{:?}", res)}),
    );
}

// ------------------------------------------------------------------ compute_anchor_edit_info
fn aei_case(rng: &mut Rng, id: u32, buf: &mut Buf) {
    let raws = ["a", "b", "x"];
    let n_anchor = rng.range(1, 3);
    let anchors: Vec<ErasedSegment> = (0..n_anchor).map(|k| SegmentBuilder::token(id + k as u32, raws[rng.below(2)], SyntaxKind::Word).finish()).collect();
    let n = rng.range(1, 5);
    let mut fixes = vec![];
    let mut desc = vec![];
    for j in 0..n {
        let a = &anchors[rng.below(anchors.len())];
        let ty = [0usize, 1, 2, 2, 3][rng.below(5)];
        let n_ed = if ty == 3 { 0 } else { [0usize, 1, 1, 1, 2][rng.below(5)] };
        let ed_raws: Vec<&str> = (0..n_ed).map(|_| raws[rng.below(raws.len())]).collect();
        let edits: Vec<ErasedSegment> = ed_raws.iter().enumerate().map(|(k, r)| SegmentBuilder::token(id + 100 + (j * 4 + k) as u32, r, SyntaxKind::Word).finish()).collect();
        let f = match ty {
            0 => LintFix::create_before(a.clone(), edits),
            1 => LintFix::create_after(a.clone(), edits, None),
            2 => LintFix::replace(a.clone(), edits, None),
            _ => LintFix::delete(a.clone()),
        };
        desc.push((ty, a.id(), a.raw().to_string(), ed_raws.iter().map(|s| s.to_string()).collect::<Vec<_>>()));
        fixes.push(f);
    }
    let r = catch(|| {
        let m = sqruff_lib_core::linter::compute_anchor_edit_info(fixes.into_iter());
        let mut rows: Vec<(u32, (usize, usize, usize, usize, usize, Option<usize>))> =
            m.iter().map(|(k, i)| (*k, (i.delete, i.replace, i.create_before, i.create_after, i.fixes.len(), i.first_replace))).collect();
        rows.sort();
        rows
    });
    let exp = match &r {
        Ok(rows) => format!(
            "(Some {})",
            g_list(rows.iter().map(|(k, (d, rp, cb, ca, n, fr))| format!("({},({},{},{},{},{},{}))", k, d, rp, cb, ca, n, g_opt(fr.map(g_n)))))
        ),
        Err(_) => "None".to_string(),
    };
    if r.is_err() {
        buf.count("aei_real_panics", 1);
    }
    let args = g_list(desc.iter().map(|(ty, a, raw, es)| g_tuple(&[g_n(*ty), g_n(*a as usize), g_str(raw), g_list(es.iter().map(|e| g_str(e)))])));
    buf.case("aei", "aei-generated", desc.len() > 1, args, exp, json!({"input":{"kernel":"aei"},"fixes":desc.iter().map(|(t,a,r,e)| json!([t,a,r,e])).collect::<Vec<_>>(),"result":format!("{:?}", r)}));
}

// ------------------------------------------------------------------ fix loop
#[derive(Clone, Debug)]
enum Ev {
    Batch(bool, usize, &'static str, String, String, bool), // phase is Main, pass, rule, before raw, after raw, accepted
    PassEnd(bool, usize, bool),
    Start(String),
    End(String),
}
fn is_main(p: &LintPhase) -> bool {
    *p == LintPhase::Main
}

fn loop_case(linter: &Linter, dialect: &str, rules: &str, fix: bool, cls: &str, sql: &str, buf: &mut Buf) {
    let evs: Rc<RefCell<Vec<Ev>>> = Rc::new(RefCell::new(vec![]));
    let sink = evs.clone();
    let hyps: Rc<RefCell<Vec<(bool, bool, &'static str)>>> = Rc::new(RefCell::new(vec![]));
    let hyp_sink = hyps.clone();
    let stats: Rc<RefCell<(usize, usize, Vec<bool>)>> = Rc::new(RefCell::new((0, 0, vec![])));
    let stat_sink = stats.clone();
    verif_hook::FIX_HOOK.with(|h| {
        *h.borrow_mut() = Some(Box::new(move |ev| {
            let e = match ev {
                verif_hook::FixEvent::Start { tree, .. } => Ev::Start(tree.raw().to_string()),
                verif_hook::FixEvent::Batch { phase, pass, rule, before, after, accepted, fixes } => {
                    // hypotheses of fix_inv, observed on the fixes real rules produce
                    // stage invariant of AnchorEditInfo::add (segments.rs): a "just source edit" replace
                    // (one edit, same raw as the anchor) after another replace on the same anchor is `unimplemented!()`
                    {
                        let mut seen_replace: Vec<u32> = vec![];
                        let mut added: Vec<&LintFix> = vec![];
                        for f in fixes {
                            if added.iter().any(|g| *g == f) {
                                continue;
                            }
                            let jse = f.is_just_source_edit();
                            if jse {
                                stat_sink.borrow_mut().0 += 1;
                            }
                            let bad = jse && seen_replace.contains(&f.anchor.id());
                            stat_sink.borrow_mut().2.push(!bad);
                            if f.edit_type == sqruff_lib_core::edit_type::EditType::Replace {
                                if seen_replace.contains(&f.anchor.id()) {
                                    stat_sink.borrow_mut().1 += 1;
                                }
                                seen_replace.push(f.anchor.id());
                            }
                            added.push(f);
                        }
                    }
                    for f in fixes {
                        let pm = f.anchor.get_position_marker();
                        let positioned = pm.is_some();
                        let ca_ok = !(f.edit_type == sqruff_lib_core::edit_type::EditType::CreateAfter) || pm.map(|p| p.templated_slice.end >= 1).unwrap_or(true);
                        hyp_sink.borrow_mut().push((positioned, ca_ok, rule));
                    }
                    Ev::Batch(is_main(&phase), pass, rule, before.raw().to_string(), after.raw().to_string(), accepted)
                }
                verif_hook::FixEvent::PassEnd { phase, pass, changed } => Ev::PassEnd(is_main(&phase), pass, changed),
                verif_hook::FixEvent::End { tree } => Ev::End(tree.raw().to_string()),
            };
            sink.borrow_mut().push(e);
        }));
    });
    let r = catch(|| linter.lint_string(sql, None, fix));
    verif_hook::FIX_HOOK.with(|h| *h.borrow_mut() = None);
    if r.is_err() {
        buf.count("loop_runs_panicked", 1);
        return;
    }
    for (positioned, ca_ok, rule) in hyps.borrow().iter() {
        buf.hyp("H_fix_anchor_positioned", "blocking", *positioned, json!({"sql":sql,"rule":rule}));
        buf.hyp("H_create_after_anchor_end_ge_1", "diagnostic", *ca_ok, json!({"sql":sql,"rule":rule}));
    }
    {
        let st = stats.borrow();
        buf.count("fixes_that_are_just_source_edits", st.0);
        buf.count("second_replace_on_same_anchor_in_a_batch", st.1);
        for ok in &st.2 {
            buf.hyp("H_no_source_edit_after_replace_on_anchor", "blocking", *ok, json!({"sql":sql}));
        }
    }
    let evs = evs.borrow().clone();
    if evs.is_empty() {
        buf.count("loop_runs_without_tree", 1);
        return;
    }
    // intern versions
    let mut ids: HashMap<String, usize> = HashMap::new();
    let mut intern = |s: &str| -> usize {
        let n = ids.len();
        *ids.entry(s.to_string()).or_insert(n)
    };
    let rules_v: Vec<(usize, bool, bool)> =
        linter.rules().iter().enumerate().map(|(i, r)| (i, r.lint_phase() == LintPhase::Main, r.is_fix_compatible())).collect();
    let code_idx: HashMap<&'static str, usize> = linter.rules().iter().enumerate().map(|(i, r)| (r.code(), i)).collect();
    let mut start = 0usize;
    let mut end = 0usize;
    let mut table = vec![];
    let mut expected = vec![];
    let mut n_batches = 0;
    let mut n_rejected = 0;
    for e in &evs {
        match e {
            Ev::Start(raw) => start = intern(raw),
            Ev::End(raw) => end = intern(raw),
            Ev::Batch(main, pass, rule, before, after, accepted) => {
                let (b, a) = (intern(before), intern(after));
                let ri = code_idx[rule];
                table.push(g_tuple(&[g_bool(*main), g_n(*pass), g_n(ri), g_n(b), g_n(a)]));
                expected.push(format!("(inl ({},{},{},{}))", g_bool(*main), pass, ri, g_bool(*accepted)));
                n_batches += 1;
                if !accepted {
                    n_rejected += 1;
                }
            }
            Ev::PassEnd(main, pass, changed) => expected.push(format!("(inr ({},{},{}))", g_bool(*main), pass, g_bool(*changed))),
        }
    }
    let n_pass = evs.iter().filter(|e| matches!(e, Ev::PassEnd(..))).count();
    buf.hyp("H_loop_passes_le_12", "blocking", n_pass <= 12, json!({"sql":sql,"passes":n_pass}));
    if n_rejected > 0 {
        buf.count("loop_runs_with_rejected_batch", 1);
    }
    if n_pass >= 3 {
        buf.count("loop_runs_with_3+_passes", 1);
    }
    let args = g_tuple(&[g_bool(fix), g_list(rules_v.iter().map(|(i, m, f)| g_tuple(&[g_n(*i), g_bool(*m), g_bool(*f)]))), g_n(start), g_list(table)]);
    let exp = g_pair(&g_list(expected), &g_n(end));
    buf.case(
        "loop",
        cls,
        n_batches > 0,
        args,
        exp,
        json!({"input":{"kernel":"loop","dialect":dialect,"rules":rules,"fix":fix,"sql":sql},"batches":n_batches,"passes":n_pass,"rejected":n_rejected}),
    );
}

// ------------------------------------------------------------------ drivers
pub fn kernel_cases(args: &Args, out: &mut Out) {
    let thorough = args.thorough();
    let mut rng = Rng::new(args.seed ^ 0x51ed);
    let wrapping = wrapping_build();
    out.stat(json!({"usize_sub_wraps_in_this_build": wrapping}));
    let mut buf = Buf::default();

    // scan
    let linter = mk_linter("ansi", "core");
    let fixed: &[&str] = &[
        "", "\n", "SELECT 1\n", "-- sqlfluff", "-- sqlfluff:dialect:ansi\nSELECT 1\n", "SELECT 1\n-- sqlfluff:rules:LT01", " -- sqlfluff:x\n", "--sqlfluff:x\n",
        "SELECT 1 -- sqlfluff:x\n", "-- SQLFLUFF:x\n", "\r\n-- sqlfluff\r\n", "a\r-- sqlfluff\r", "-- sqlfluf\n-- sqlflufff\n", "/*\n-- sqlfluff:in:comment\n*/\n", "SELECT '\n-- sqlfluff in string\n'\n",
    ];
    for s in fixed {
        scan_case(&linter, "scan-fixed", s, &mut buf);
    }
    let parts = ["SELECT a FROM t", "-- sqlfluff:dialect:ansi", "-- sqlfluff", "-- note", " -- sqlfluff:x", "--sqlfluff", "WHERE a = 1", "", "-- sqlfluffy", "\t-- sqlfluff"];
    for _ in 0..(if thorough { 1500 } else { 250 }) {
        let n = rng.range(1, 6);
        let mut s = String::new();
        for _ in 0..n {
            s.push_str(parts[rng.below(parts.len())]);
            s.push_str(["\n", "\n", "\r\n", "\r", ""][rng.below(5)]);
        }
        scan_case(&linter, "scan-random", &s, &mut buf);
    }
    // has_template_conflicts
    let mut rng_h = Rng::new(args.seed ^ 0x7711);
    for i in 0..(if thorough { 12000 } else { 2500 }) {
        htc_case(&mut rng_h, 1000 + 20 * i as u32, wrapping, &mut buf);
    }
    let mut rng_a = Rng::new(args.seed ^ 0xae1);
    for i in 0..(if thorough { 6000 } else { 1200 }) {
        aei_case(&mut rng_a, 500_000 + 200 * i as u32, &mut buf);
    }
    out.absorb(buf);

    // fix loop: rule fixture snippets (they violate rules on purpose), a few corpus files, both modes
    struct L {
        dialect: String,
        rules: String,
        fix: bool,
        cls: &'static str,
        sql: String,
    }
    let mut items: Vec<L> = vec![];
    let snippets = rule_snippets();
    let n_snip = if thorough { snippets.len() } else { 500.min(snippets.len()) };
    let mut idx: Vec<usize> = (0..snippets.len()).collect();
    rng.shuffle(&mut idx);
    for &i in idx.iter().take(n_snip) {
        let sel = ["all", "all", "core", "layout", "capitalisation", "LT01,LT02,CP01,AL01,ST06,CV07"][rng.below(6)];
        items.push(L { dialect: "ansi".into(), rules: sel.into(), fix: !rng.chance(1, 6), cls: "loop-rule-snippets", sql: snippets[i].1.clone() });
    }
    let corpus = corpus();
    let small: Vec<&CorpusFile> = corpus.iter().filter(|f| f.text.len() < 1500).collect();
    for _ in 0..(if thorough { 1200 } else { 150 }) {
        let f = small[rng.below(small.len())];
        items.push(L { dialect: f.dialect.clone(), rules: "all".into(), fix: true, cls: "loop-corpus", sql: f.text.clone() });
    }
    // messy layout: many passes
    for k in 0..(if thorough { 200 } else { 40 }) {
        let sql = format!(
            "select{}a,b ,c from{}t where  a=1 and(b=2 or c =3){}group by a{}\n",
            [" ", "  ", "\n", "\t"][k % 4],
            ["\n", " ", "   "][k % 3],
            ["", "\n\n\n", " "][(k / 3) % 3],
            [";", "", " ;"][(k / 9) % 3]
        );
        items.push(L { dialect: DIALECTS[k % DIALECTS.len()].into(), rules: "all".into(), fix: true, cls: "loop-messy", sql });
    }
    par_run(
        out,
        &items,
        HashMap::<(String, String), Linter>::new,
        |ls, it, buf| {
            let key = (it.dialect.clone(), it.rules.clone());
            if !ls.contains_key(&key) {
                ls.insert(key.clone(), mk_linter(&it.dialect, &it.rules));
            }
            loop_case(&ls[&key], &it.dialect, &it.rules, it.fix, it.cls, &it.sql, buf);
        },
    );
}

pub fn replay(v: &Value, out: &mut Out) {
    let mut buf = Buf::default();
    match v["kernel"].as_str().unwrap_or("") {
        "scan" => scan_case(&mk_linter("ansi", "core"), "replay", v["sql"].as_str().unwrap_or(""), &mut buf),
        "loop" => {
            let (d, r) = (v["dialect"].as_str().unwrap_or("ansi"), v["rules"].as_str().unwrap_or("all"));
            loop_case(&mk_linter(d, r), d, r, v["fix"].as_bool().unwrap_or(true), "replay", v["sql"].as_str().unwrap_or(""), &mut buf)
        }
        _ => {
            // htc cases are generated from the seed: re-run the generator
            let mut rng = Rng::new(1 ^ 0x7711);
            let w = wrapping_build();
            for i in 0..2500 {
                htc_case(&mut rng, 1000 + 20 * i as u32, w, &mut buf);
            }
        }
    }
    out.absorb(buf);
}
