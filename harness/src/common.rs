//! Shared helpers of the `sqv` harness: PRNG, corpus, Gallina term printers,
//! JSONL output, panic capture.
#![allow(dead_code)]

use std::fmt::Write as _;
use std::io::Write as _;
use std::panic::{AssertUnwindSafe, catch_unwind};
use std::path::{Path, PathBuf};

use serde_json::{Value, json};

pub const DIALECTS: [&str; 13] = [
    "ansi",
    "athena",
    "bigquery",
    "clickhouse",
    "databricks",
    "duckdb",
    "mysql",
    "postgres",
    "redshift",
    "snowflake",
    "sparksql",
    "sqlite",
    "trino",
];

// ---------------------------------------------------------------- PRNG (splitmix64)
#[derive(Clone)]
pub struct Rng(pub u64);
impl Rng {
    pub fn new(seed: u64) -> Self {
        Rng(seed.wrapping_mul(0x9E3779B97F4A7C15) ^ 0xD1B54A32D192ED03)
    }
    pub fn next(&mut self) -> u64 {
        self.0 = self.0.wrapping_add(0x9E3779B97F4A7C15);
        let mut z = self.0;
        z = (z ^ (z >> 30)).wrapping_mul(0xBF58476D1CE4E5B9);
        z = (z ^ (z >> 27)).wrapping_mul(0x94D049BB133111EB);
        z ^ (z >> 31)
    }
    pub fn below(&mut self, n: usize) -> usize {
        if n == 0 { 0 } else { (self.next() % n as u64) as usize }
    }
    pub fn range(&mut self, lo: usize, hi: usize) -> usize {
        lo + self.below(hi - lo + 1)
    }
    pub fn chance(&mut self, num: usize, den: usize) -> bool {
        self.below(den) < num
    }
    pub fn pick<'a, T>(&mut self, xs: &'a [T]) -> &'a T {
        &xs[self.below(xs.len())]
    }
    pub fn shuffle<T>(&mut self, xs: &mut [T]) {
        for i in (1..xs.len()).rev() {
            let j = self.below(i + 1);
            xs.swap(i, j);
        }
    }
}

// ---------------------------------------------------------------- arguments
pub struct Args {
    pub tier: String,
    pub seed: u64,
    pub out: PathBuf,
    pub extra: Vec<String>,
}
impl Args {
    pub fn parse(argv: &[String]) -> Args {
        let mut tier = "quick".to_string();
        let mut seed = 1u64;
        let mut out = PathBuf::from("/dev/stdout");
        let mut extra = vec![];
        let mut i = 0;
        while i < argv.len() {
            match argv[i].as_str() {
                "--tier" => {
                    tier = argv[i + 1].clone();
                    i += 1
                }
                "--seed" => {
                    seed = argv[i + 1].parse().unwrap_or(1);
                    i += 1
                }
                "--out" => {
                    out = PathBuf::from(&argv[i + 1]);
                    i += 1
                }
                other => extra.push(other.to_string()),
            }
            i += 1;
        }
        Args { tier, seed, out, extra }
    }
    pub fn thorough(&self) -> bool {
        self.tier == "thorough"
    }
    pub fn flag(&self, name: &str) -> Option<String> {
        let mut it = self.extra.iter();
        while let Some(a) = it.next() {
            if a == name {
                return it.next().cloned();
            }
        }
        None
    }
}

// ---------------------------------------------------------------- output
/// Per-thread buffer of result lines; merged into `Out` in submission order.
#[derive(Default)]
pub struct Buf {
    pub lines: Vec<Value>,
}
impl Buf {
    /// A correspondence case: `args` and `exp` are Gallina terms for `Corr.check args exp`.
    /// `group` selects the Coq check function; `cls` is the generator class.
    pub fn case(&mut self, group: &str, cls: &str, nontrivial: bool, args: String, exp: String, sample: Value) {
        self.lines.push(json!({"t":"case","group":group,"cls":cls,"nontrivial":nontrivial,"args":args,"exp":exp,"sample":sample}));
    }
    /// Result of observing the property itself on the implementation.
    pub fn direct(&mut self, cls: &str, ok: bool, key: &str, msg: &str, input: Value) {
        if ok {
            self.lines.push(json!({"t":"direct_ok","cls":cls}));
        } else {
            self.lines.push(json!({"t":"direct_fail","cls":cls,"key":key,"msg":msg,"input":input}));
        }
    }
    pub fn count(&mut self, name: &str, n: usize) {
        self.lines.push(json!({"t":"count","name":name,"n":n}));
    }
    pub fn hyp(&mut self, name: &str, class: &str, ok: bool, example: Value) {
        self.lines.push(json!({"t":"hyp1","name":name,"class":class,"ok":ok,"example":example}));
    }
    /// `checks` evaluations of one hypothesis at once, `failures` of them failing (`example`: the first failing one).
    pub fn hyp_n(&mut self, name: &str, class: &str, checks: usize, failures: usize, example: Value) {
        self.lines.push(json!({"t":"hyp1","name":name,"class":class,"ok":failures == 0,"n":checks,"fails":failures,"example":example}));
    }
}
pub struct Out {
    w: std::io::BufWriter<std::fs::File>,
    pub n_cases: usize,
    pub n_direct: usize,
    pub n_direct_fail: usize,
    counts: std::collections::BTreeMap<String, usize>,
    direct_cls: std::collections::BTreeMap<String, usize>,
    hyps: std::collections::BTreeMap<String, (String, usize, usize, Value)>,
}
impl Out {
    pub fn new(path: &Path) -> Out {
        let f = std::fs::File::create(path).expect("create out");
        Out { w: std::io::BufWriter::new(f), n_cases: 0, n_direct: 0, n_direct_fail: 0, counts: Default::default(), direct_cls: Default::default(), hyps: Default::default() }
    }
    pub fn line(&mut self, v: Value) {
        writeln!(self.w, "{}", v).unwrap();
    }
    pub fn absorb(&mut self, buf: Buf) {
        for mut l in buf.lines {
            match l["t"].as_str().unwrap_or("") {
                "case" => {
                    self.n_cases += 1;
                    l["id"] = json!(self.n_cases);
                    self.line(l);
                }
                "direct_ok" => {
                    self.n_direct += 1;
                    *self.direct_cls.entry(l["cls"].as_str().unwrap_or("").to_string()).or_default() += 1;
                }
                "direct_fail" => {
                    self.n_direct += 1;
                    self.n_direct_fail += 1;
                    *self.direct_cls.entry(l["cls"].as_str().unwrap_or("").to_string()).or_default() += 1;
                    self.line(l);
                }
                "count" => {
                    *self.counts.entry(l["name"].as_str().unwrap_or("").to_string()).or_default() += l["n"].as_u64().unwrap_or(0) as usize;
                }
                "hyp1" => {
                    let e = self.hyps.entry(l["name"].as_str().unwrap_or("").to_string()).or_insert((l["class"].as_str().unwrap_or("").to_string(), 0, 0, Value::Null));
                    e.1 += l["n"].as_u64().unwrap_or(1) as usize;
                    if !l["ok"].as_bool().unwrap_or(false) {
                        e.2 += l["fails"].as_u64().unwrap_or(1) as usize;
                        if e.3.is_null() {
                            e.3 = l["example"].clone();
                        }
                    }
                }
                _ => self.line(l),
            }
        }
    }
    pub fn stat(&mut self, v: Value) {
        self.line(json!({"t":"stat","v":v}));
    }
    pub fn finish(mut self) {
        let counts = std::mem::take(&mut self.counts);
        let direct_cls = std::mem::take(&mut self.direct_cls);
        let hyps = std::mem::take(&mut self.hyps);
        for (name, (class, checks, failures, example)) in hyps {
            self.line(json!({"t":"hyp","name":name,"class":class,"checks":checks,"failures":failures,"example":example}));
        }
        self.line(json!({"t":"counts","v":counts,"direct_by_class":direct_cls}));
        let v = json!({"t":"done","cases":self.n_cases,"direct":self.n_direct,"direct_fail":self.n_direct_fail});
        self.line(v);
        self.w.flush().unwrap();
    }
}

/// Run `f` over `items` on `threads` OS threads (each thread gets its own state from `init`),
/// absorbing the buffers in item order so output is deterministic.
pub fn par_run<I: Sync, S>(out: &mut Out, items: &[I], init: impl Fn() -> S + Sync, f: impl Fn(&mut S, &I, &mut Buf) + Sync) {
    let threads = std::env::var("SQV_THREADS").ok().and_then(|s| s.parse().ok()).unwrap_or(16usize).max(1);
    let n = items.len();
    let next = std::sync::atomic::AtomicUsize::new(0);
    let results: std::sync::Mutex<Vec<Option<Buf>>> = std::sync::Mutex::new((0..n).map(|_| None).collect());
    std::thread::scope(|sc| {
        for _ in 0..threads.min(n.max(1)) {
            sc.spawn(|| {
                let mut st = init();
                loop {
                    let i = next.fetch_add(1, std::sync::atomic::Ordering::SeqCst);
                    if i >= n {
                        break;
                    }
                    let mut buf = Buf::default();
                    f(&mut st, &items[i], &mut buf);
                    results.lock().unwrap()[i] = Some(buf);
                }
            });
        }
    });
    for b in results.into_inner().unwrap().into_iter().flatten() {
        out.absorb(b);
    }
}

// ---------------------------------------------------------------- Gallina printers
pub fn g_n(n: usize) -> String {
    format!("{}", n)
}
pub fn g_bool(b: bool) -> String {
    if b { "true".into() } else { "false".into() }
}
pub fn g_bytes(s: &[u8]) -> String {
    g_list(s.iter().map(|b| format!("{}", b)))
}
pub fn g_str(s: &str) -> String {
    g_bytes(s.as_bytes())
}
pub fn g_list<I: IntoIterator<Item = String>>(it: I) -> String {
    let mut o = String::from("[");
    let mut first = true;
    for x in it {
        if !first {
            o.push(';');
        }
        first = false;
        o.push_str(&x);
    }
    o.push(']');
    o
}
pub fn g_opt(o: Option<String>) -> String {
    match o {
        Some(s) => format!("(Some {})", s),
        None => "None".to_string(),
    }
}
pub fn g_pair(a: &str, b: &str) -> String {
    format!("({},{})", a, b)
}
pub fn g_tuple(xs: &[String]) -> String {
    let mut o = String::from("(");
    for (i, x) in xs.iter().enumerate() {
        if i > 0 {
            o.push(',');
        }
        let _ = write!(o, "{}", x);
    }
    o.push(')');
    o
}

// ---------------------------------------------------------------- panics
pub fn silence_panics() {
    if std::env::var("SQV_LOUD").is_ok() {
        return;
    }
    std::panic::set_hook(Box::new(|_| {}));
}
pub fn catch<T>(f: impl FnOnce() -> T) -> Result<T, String> {
    match catch_unwind(AssertUnwindSafe(f)) {
        Ok(v) => Ok(v),
        Err(e) => {
            let msg = if let Some(s) = e.downcast_ref::<&str>() {
                s.to_string()
            } else if let Some(s) = e.downcast_ref::<String>() {
                s.clone()
            } else {
                "panic".to_string()
            };
            Err(msg)
        }
    }
}

// ---------------------------------------------------------------- corpus
pub struct CorpusFile {
    pub dialect: String,
    pub name: String,
    pub text: String,
}
pub fn repo_root() -> PathBuf {
    PathBuf::from(std::env::var("SQV_REPO").unwrap_or_else(|_| "/repo".into()))
}
/// All dialect fixtures `crates/lib-dialects/test/fixtures/dialects/<d>/*.sql`, sorted.
pub fn corpus() -> Vec<CorpusFile> {
    let base = repo_root().join("crates/lib-dialects/test/fixtures/dialects");
    let mut out = vec![];
    let mut dirs: Vec<_> = std::fs::read_dir(&base).map(|d| d.filter_map(Result::ok).map(|e| e.path()).collect()).unwrap_or_default();
    dirs.sort();
    for d in dirs {
        if !d.is_dir() {
            continue;
        }
        let dialect = d.file_name().unwrap().to_string_lossy().to_string();
        let mut files = vec![];
        collect_sql(&d, &mut files);
        files.sort();
        for f in files {
            if let Ok(text) = std::fs::read_to_string(&f) {
                out.push(CorpusFile { dialect: dialect.clone(), name: f.strip_prefix(&base).unwrap().to_string_lossy().to_string(), text });
            }
        }
    }
    out
}
fn collect_sql(d: &Path, out: &mut Vec<PathBuf>) {
    if let Ok(rd) = std::fs::read_dir(d) {
        for e in rd.filter_map(Result::ok) {
            let p = e.path();
            if p.is_dir() {
                collect_sql(&p, out);
            } else if p.extension().map(|x| x == "sql").unwrap_or(false) {
                out.push(p);
            }
        }
    }
}
/// `pass_str` / `fail_str` / `fix_str` snippets of the rule yaml fixtures (crude block-scalar reader).
pub fn rule_snippets() -> Vec<(String, String)> {
    let base = repo_root().join("crates/lib/test/fixtures/rules/std_rule_cases");
    let mut files: Vec<_> = std::fs::read_dir(&base).map(|d| d.filter_map(Result::ok).map(|e| e.path()).collect()).unwrap_or_default();
    files.sort();
    let mut out = vec![];
    for f in files {
        let Ok(text) = std::fs::read_to_string(&f) else { continue };
        let name = f.file_name().unwrap().to_string_lossy().to_string();
        let lines: Vec<&str> = text.lines().collect();
        let mut i = 0;
        while i < lines.len() {
            let l = lines[i];
            let t = l.trim_start();
            let indent = l.len() - t.len();
            for key in ["pass_str:", "fail_str:", "fix_str:"] {
                if let Some(rest) = t.strip_prefix(key) {
                    let rest = rest.trim();
                    if rest.starts_with('|') {
                        let mut body = String::new();
                        let mut j = i + 1;
                        let mut bind: Option<usize> = None;
                        while j < lines.len() {
                            let lj = lines[j];
                            if lj.trim().is_empty() {
                                body.push('\n');
                                j += 1;
                                continue;
                            }
                            let ind = lj.len() - lj.trim_start().len();
                            if ind <= indent {
                                break;
                            }
                            let b = *bind.get_or_insert(ind);
                            body.push_str(&lj[b.min(ind)..]);
                            body.push('\n');
                            j += 1;
                        }
                        while body.ends_with("\n\n") {
                            body.pop();
                        }
                        out.push((name.clone(), body));
                    } else if !rest.is_empty() {
                        let s = rest.trim_matches('"').trim_matches('\'').to_string();
                        out.push((name.clone(), s));
                    }
                }
            }
            i += 1;
        }
    }
    out
}

pub fn is_ascii_ws(b: u8) -> bool {
    matches!(b, 9 | 10 | 11 | 12 | 13 | 32)
}

pub fn trunc(s: &str, n: usize) -> String {
    if s.len() <= n {
        s.to_string()
    } else {
        let mut e = n;
        while !s.is_char_boundary(e) {
            e -= 1;
        }
        format!("{}…", &s[..e])
    }
}
