//! C11 — parse structure is invariant under layout and keyword case.
//!
//! Direct observation: for every fully parsable corpus text, the code-only serialisation of
//! the parse tree (node types over code tokens, keywords compared case-insensitively) of the
//! original and of each perturbed text must be equal.
//! Kernel correspondence (Layout/Model.v): `skip_start_index_forward_to_code`,
//! `skip_stop_index_backward_to_code`, `StringParser`/`MultiStringParser` matching, block
//! comment subdivision.
use ahash::AHashMap;
use serde_json::{Value, json};
use sqruff_lib::core::linter::core::Linter;
use sqruff_lib_core::dialects::syntax::SyntaxKind;
use sqruff_lib_core::parser::context::ParseContext;
use sqruff_lib_core::parser::lexer::StringOrTemplate;
use sqruff_lib_core::parser::match_algorithms::{skip_start_index_forward_to_code, skip_stop_index_backward_to_code};
use sqruff_lib_core::parser::matchable::MatchableTrait;
use sqruff_lib_core::parser::parsers::{MultiStringParser, StringParser};
use sqruff_lib_core::parser::segments::base::{ErasedSegment, Tables};

use crate::common::*;

fn mk_linter(dialect: &str) -> Linter {
    let src = format!("[sqruff]\ndialect = {}\nrules = core\n", dialect);
    Linter::new(sqruff_lib::core::config::FluffConfig::from_source(&src, None), None, None, true)
}

fn fnv(s: &str) -> String {
    let mut h: u64 = 0xcbf29ce484222325;
    for b in s.as_bytes() {
        h ^= *b as u64;
        h = h.wrapping_mul(0x100000001b3);
    }
    format!("{:010x}", h & 0xff_ffff_ffff)
}

// ------------------------------------------------------------------ tree views
#[derive(Clone)]
struct Leaf {
    kind: SyntaxKind,
    raw: String,
    start: usize, // byte offset in the text
    code: bool,
}

fn leaves(tree: &ErasedSegment) -> Vec<Leaf> {
    let mut out = vec![];
    let mut pos = 0usize;
    for s in tree.get_raw_segments() {
        let raw = s.raw().to_string();
        let n = raw.len();
        out.push(Leaf { kind: s.get_type(), raw, start: pos, code: s.is_code() });
        pos += n;
    }
    out
}

/// code-only serialisation: `type(children…)` for nodes that contain code, `type:raw` for code
/// leaves (keyword raws upper-cased), nothing for non-code.
fn shape(seg: &ErasedSegment, out: &mut String) {
    if seg.segments().is_empty() {
        if seg.is_code() {
            out.push_str(seg.get_type().as_str());
            out.push(':');
            if seg.get_type() == SyntaxKind::Keyword {
                out.push_str(&seg.raw().to_uppercase());
            } else {
                out.push_str(seg.raw());
            }
            out.push(' ');
        }
        return;
    }
    if !seg.is_code() {
        return;
    }
    out.push_str(seg.get_type().as_str());
    out.push('(');
    for c in seg.segments() {
        shape(c, out);
    }
    out.push(')');
}

struct Parsed {
    tree: ErasedSegment,
    shape: String,
}
/// Ok(None): not fully parsable. Err: panic.
fn parse(linter: &Linter, sql: &str) -> Result<Option<Parsed>, String> {
    catch(|| {
        let tables = Tables::default();
        let p = linter.parse_string(&tables, sql, None).ok()?;
        if !p.violations.is_empty() {
            return None;
        }
        let tree = p.tree?;
        if tree.raw().as_str() != sql {
            return None;
        }
        let mut s = String::new();
        shape(&tree, &mut s);
        Some(Parsed { tree, shape: s })
    })
}

// ------------------------------------------------------------------ perturbations
pub const PERTURBATIONS: [&str; 12] = [
    "space->spaces",
    "space->tab",
    "space->newline",
    "block-comment-in-whitespace",
    "block-comment-left-of-whitespace",
    "block-comment-right-of-whitespace",
    "inline-comment-before-newline",
    "blank-line-doubling",
    "keywords-upper",
    "keywords-lower",
    "keywords-swap",
    "mixed",
];

fn swapcase(s: &str) -> String {
    s.chars().map(|c| if c.is_ascii_uppercase() { c.to_ascii_lowercase() } else { c.to_ascii_uppercase() }).collect()
}

/// positions (leaf indices) a perturbation may touch
fn sites(ls: &[Leaf], p: usize) -> Vec<usize> {
    let mut in_block = false;
    let mut out = vec![];
    for (i, l) in ls.iter().enumerate() {
        let is_comment = matches!(l.kind, SyntaxKind::BlockComment | SyntaxKind::Comment);
        if is_comment && l.raw.starts_with("/*") && !(l.raw.ends_with("*/") && l.raw.len() >= 4) {
            in_block = true;
        } else if in_block && is_comment && l.raw.ends_with("*/") {
            in_block = false;
            continue;
        }
        if in_block {
            continue;
        }
        let ok = match p {
            0..=5 => l.kind == SyntaxKind::Whitespace,
            6 | 7 => l.kind == SyntaxKind::Newline,
            11 => l.kind == SyntaxKind::Whitespace || l.kind == SyntaxKind::Newline || (l.kind == SyntaxKind::Keyword && l.raw.is_ascii()),
            _ => l.kind == SyntaxKind::Keyword && l.raw.is_ascii(),
        };
        if ok {
            out.push(i);
        }
    }
    out
}

fn apply(ls: &[Leaf], p: usize, chosen: &[usize]) -> String {
    let mut s = String::new();
    let mut k = 0;
    for (i, l) in ls.iter().enumerate() {
        let hit = k < chosen.len() && chosen[k] == i;
        if hit {
            k += 1;
            // "mixed": every claimed perturbation at once, chosen per site from the site index
            let p = if p == 11 {
                match l.kind {
                    SyntaxKind::Whitespace => [0usize, 1, 2, 3][(i * 7 + l.start) % 4],
                    SyntaxKind::Newline => [6usize, 7][(i + l.start) % 2],
                    _ => [8usize, 9, 10][(i * 5 + l.start) % 3],
                }
            } else {
                p
            };
            match p {
                0 => s.push_str("   "),
                1 => s.push('\t'),
                2 => s.push('\n'),
                3 => {
                    s.push_str(&l.raw);
                    s.push_str("/* c */");
                    s.push_str(&l.raw);
                }
                4 => {
                    s.push_str("/* c */");
                    s.push_str(&l.raw);
                }
                5 => {
                    s.push_str(&l.raw);
                    s.push_str("/* c */");
                }
                6 => {
                    s.push_str(" -- c");
                    s.push_str(&l.raw);
                }
                7 => {
                    s.push_str(&l.raw);
                    s.push_str(&l.raw);
                }
                8 => s.push_str(&l.raw.to_ascii_uppercase()),
                9 => s.push_str(&l.raw.to_ascii_lowercase()),
                _ => s.push_str(&swapcase(&l.raw)),
            }
        } else {
            s.push_str(&l.raw);
        }
    }
    s
}

fn first_diff(a: &str, b: &str) -> String {
    let (ab, bb) = (a.as_bytes(), b.as_bytes());
    let mut i = 0;
    while i < ab.len() && i < bb.len() && ab[i] == bb[i] {
        i += 1;
    }
    let lo = i.saturating_sub(60);
    let cut = |s: &str| {
        let mut lo = lo.min(s.len());
        while !s.is_char_boundary(lo) {
            lo -= 1;
        }
        let mut hi = (i + 80).min(s.len());
        while !s.is_char_boundary(hi) {
            hi -= 1;
        }
        s[lo..hi].to_string()
    };
    format!("original …{}… vs perturbed …{}…", cut(a), cut(b))
}

struct Item {
    dialect: String,
    name: String,
    text: String,
}

fn check_one(linter: &Linter, it: &Item, base: &Parsed, p: usize, mode: &str, chosen: &[usize], ls: &[Leaf], buf: &mut Buf) {
    let text2 = apply(ls, p, chosen);
    if text2 == it.text {
        return;
    }
    buf.count("perturbed_parses", 1);
    let cls = PERTURBATIONS[p];
    // comments abutting a code token on one side: outside the claimed class (DESIGN 6.11), one key per side
    let key = match p {
        4 => "c11:comment-abuts-previous-code-token".to_string(),
        5 => "c11:comment-abuts-next-code-token".to_string(),
        _ => format!("c11:{}:{}:{}", it.dialect, cls, fnv(&text2)),
    };
    let input = json!({"dialect":it.dialect,"perturbation":cls,"mode":mode,"origin":it.name,"original":it.text,"perturbed":text2});
    match parse(linter, &text2) {
        Err(msg) => buf.direct(cls, false, &key, &format!("perturbed text panics the parser: {}", trunc(&msg, 120)), input),
        Ok(None) => buf.direct(cls, false, &key, "original parses fully, perturbed text has unparsable sections", input),
        Ok(Some(p2)) => {
            if p2.shape == base.shape {
                buf.direct(cls, true, "", "", Value::Null);
            } else {
                buf.direct(cls, false, &key, &format!("code-only tree differs: {}", first_diff(&base.shape, &p2.shape)), input);
            }
        }
    }
}

fn run_file(ls_cache: &mut std::collections::HashMap<String, Linter>, it: &(Item, u64, bool), buf: &mut Buf) {
    let (it, seed, thorough) = (&it.0, it.1, it.2);
    let linter = ls_cache.entry(it.dialect.clone()).or_insert_with(|| mk_linter(&it.dialect));
    buf.count("files", 1);
    let base = match parse(linter, &it.text) {
        Ok(Some(p)) => p,
        Ok(None) => {
            buf.count("files_not_fully_parsable_skipped", 1);
            return;
        }
        Err(_) => {
            buf.count("files_panicking_skipped", 1);
            return;
        }
    };
    buf.count("files_fully_parsable", 1);
    let ls = leaves(&base.tree);
    let mut rng = Rng::new(seed);
    for p in 0..PERTURBATIONS.len() {
        let st = sites(&ls, p);
        if st.is_empty() {
            continue;
        }
        buf.count("sites", st.len());
        // globally
        check_one(linter, it, &base, p, "global", &st, &ls, buf);
        // random subsets
        let n_sub = if thorough { 4 } else { 1 };
        for _ in 0..n_sub {
            let sub: Vec<usize> = st.iter().copied().filter(|_| rng.chance(1, 2)).collect();
            if !sub.is_empty() && sub.len() < st.len() {
                check_one(linter, it, &base, p, "subset", &sub, &ls, buf);
            }
        }
        // single positions
        let n_single = if thorough { 6.min(st.len()) } else { 2.min(st.len()) };
        for _ in 0..n_single {
            let one = [st[rng.below(st.len())]];
            check_one(linter, it, &base, p, "single", &one, &ls, buf);
        }
    }
}

// ------------------------------------------------------------------ kernel correspondence
fn kernel_cases(args: &Args, out: &mut Out) {
    let thorough = args.thorough();
    let mut rng = Rng::new(args.seed ^ 0xc11);
    let mut buf = Buf::default();
    let corpus = corpus();
    let linter = mk_linter("ansi");
    let dialect = linter.config().get_dialect();
    let tables = Tables::default();
    // token lists from real files
    let n_files = if thorough { 400 } else { 80 };
    let mut token_lists: Vec<Vec<ErasedSegment>> = vec![];
    for _ in 0..n_files {
        let f = &corpus[rng.below(corpus.len())];
        if f.text.len() > 1200 || !f.text.is_ascii() {
            continue;
        }
        if let Ok(Ok((toks, _))) = catch(|| dialect.lexer().lex(&tables, StringOrTemplate::String(&f.text))) {
            token_lists.push(toks);
        }
    }
    // skip_forward / skip_backward
    for toks in &token_lists {
        let flags: Vec<bool> = toks.iter().map(|t| t.is_code()).collect();
        let n = toks.len() as u32;
        for _ in 0..(if thorough { 12 } else { 6 }) {
            let a = rng.below(n as usize + 1) as u32;
            let b = rng.below(n as usize + 1) as u32;
            // the Rust functions index segments[idx]: keep max_idx <= len (as every call site does)
            let fwd = catch(|| skip_start_index_forward_to_code(toks, a, b));
            let bwd = catch(|| skip_stop_index_backward_to_code(toks, a, b));
            let g = |r: &Result<u32, String>| match r {
                Ok(v) => format!("(Some {})", v),
                Err(_) => "None".to_string(),
            };
            let nontrivial = fwd.as_ref().map(|v| *v != a).unwrap_or(false) || bwd.as_ref().map(|v| *v != a).unwrap_or(false);
            buf.case(
                "skip",
                "skip-real-tokens",
                nontrivial,
                g_tuple(&[g_list(flags.iter().map(|b| g_bool(*b))), g_n(a as usize), g_n(b as usize)]),
                g_pair(&g(&fwd), &g(&bwd)),
                json!({"input":{"kernel":"skip"},"flags":flags.iter().map(|b| *b as u8).collect::<Vec<_>>(),"a":a,"b":b}),
            );
        }
    }
    // StringParser / MultiStringParser: templates × real tokens (with case variants)
    let indent_cfg: AHashMap<String, bool> = AHashMap::new();
    let mut pc = ParseContext::new(dialect, &indent_cfg);
    let templates = ["select", "FROM", "Where", "a", "t", "group", "BY", "é", "straße", "İ", "ſ", "k"];
    let mut n_kw = 0;
    'outer: for toks in &token_lists {
        for (i, t) in toks.iter().enumerate() {
            if !t.raw().is_ascii() && rng.chance(1, 2) {
                continue;
            }
            if n_kw >= (if thorough { 6000 } else { 1200 }) {
                break 'outer;
            }
            if !(t.is_code() || rng.chance(1, 6)) {
                continue;
            }
            let tpl = if rng.chance(1, 2) { t.raw().to_string() } else { templates[rng.below(templates.len())].to_string() };
            let tpl = match rng.below(3) {
                0 => tpl.to_uppercase(),
                1 => tpl.to_lowercase(),
                _ => tpl,
            };
            if !tpl.is_ascii() || !t.raw().is_ascii() {
                // the model is ASCII only; non-ASCII templates/raws are counted and skipped
                buf.count("string_parser_non_ascii_skipped", 1);
                continue;
            }
            n_kw += 1;
            let sp = StringParser::new(&tpl, SyntaxKind::Keyword);
            let r1 = catch(|| sp.match_segments(toks, i as u32, &mut pc).map(|m| m.span.end - m.span.start).unwrap_or(99));
            let tpl2 = templates[rng.below(templates.len())].to_uppercase();
            let tpls: Vec<String> = vec![tpl.to_uppercase(), tpl2].into_iter().filter(|s| s.is_ascii()).collect();
            let mp = MultiStringParser::new(tpls.clone(), SyntaxKind::Keyword);
            let r2 = catch(|| mp.match_segments(toks, i as u32, &mut pc).map(|m| m.span.end - m.span.start).unwrap_or(99));
            let matched = r1.as_ref().map(|v| *v == 1).unwrap_or(false);
            buf.case(
                "strmatch",
                "string-parser-real-tokens",
                matched,
                g_tuple(&[g_str(&tpl), g_list(tpls.iter().map(|s| g_str(s))), g_bool(t.is_code()), g_str(t.raw())]),
                g_pair(&g_bool(matched), &g_bool(r2.as_ref().map(|v| *v == 1).unwrap_or(false))),
                json!({"input":{"kernel":"strmatch"},"template":tpl,"raw":t.raw().as_str(),"is_code":t.is_code()}),
            );
        }
    }
    // block comment subdivision (ANSI matcher: newline subdivider, whitespace trim)
    let pieces = ["a", " ", "  ", "\t", "\n", "\r\n", "b c", "*", "/", "noqa", "\n\n", " \n ", "x\t"];
    for _ in 0..(if thorough { 3000 } else { 600 }) {
        let n = rng.range(0, 7);
        let body: String = (0..n).map(|_| pieces[rng.below(pieces.len())]).collect();
        if body.contains("*/") || body.contains("/*") || body.starts_with('/') || body.ends_with('/') || !body.is_ascii() {
            continue;
        }
        let text = format!("/*{}*/", body);
        let r = catch(|| dialect.lexer().lex(&tables, StringOrTemplate::String(&text)));
        let Ok(Ok((toks, _))) = r else {
            buf.count("block_comment_lex_failed", 1);
            continue;
        };
        let elems: Vec<(usize, String)> = toks
            .iter()
            .filter(|t| t.get_type() != SyntaxKind::EndOfFile)
            .map(|t| {
                let k = match t.get_type() {
                    SyntaxKind::BlockComment => 0,
                    SyntaxKind::Newline => 1,
                    SyntaxKind::Whitespace => 2,
                    _ => 9,
                };
                (k, t.raw().to_string())
            })
            .collect();
        let all_noncode = toks.iter().all(|t| !t.is_code());
        buf.hyp("H_block_comment_tokens_are_non_code", "blocking", all_noncode, json!({"text":text}));
        buf.case(
            "subdiv",
            "block-comment",
            elems.len() > 1,
            g_str(&text),
            g_list(elems.iter().map(|(k, r)| g_pair(&g_n(*k), &g_str(r)))),
            json!({"input":{"kernel":"subdiv"},"text":text,"tokens":elems.iter().map(|(k,r)| json!([k,r])).collect::<Vec<_>>()}),
        );
    }
    out.absorb(buf);
}

// ------------------------------------------------------------------ main
pub fn main(args: &Args) {
    silence_panics();
    let mut out = Out::new(&args.out);
    let mut items: Vec<(Item, u64, bool)> = vec![];
    let thorough = args.thorough();
    if let Some(path) = args.flag("--replay-input") {
        let v: Value = serde_json::from_str(&std::fs::read_to_string(path).unwrap()).unwrap();
        let v = if v.get("input").is_some() { v["input"].clone() } else { v };
        if v.get("kernel").is_some() {
            kernel_cases(args, &mut out);
            out.finish();
            return;
        }
        // re-run exactly one (original, perturbed) pair
        let d = v["dialect"].as_str().unwrap_or("ansi");
        let linter = mk_linter(d);
        let mut buf = Buf::default();
        let orig = v["original"].as_str().unwrap_or("");
        let pert = v["perturbed"].as_str().unwrap_or("");
        let cls = v["perturbation"].as_str().unwrap_or("replay").to_string();
        let key = match cls.as_str() {
            "block-comment-left-of-whitespace" => "c11:comment-abuts-previous-code-token".to_string(),
            "block-comment-right-of-whitespace" => "c11:comment-abuts-next-code-token".to_string(),
            _ => format!("c11:{}:{}:{}", d, cls, fnv(pert)),
        };
        match (parse(&linter, orig), parse(&linter, pert)) {
            (Ok(Some(a)), Ok(Some(b))) => {
                let ok = a.shape == b.shape;
                buf.direct("replay", ok, &key, &format!("code-only tree differs: {}", first_diff(&a.shape, &b.shape)), v.clone());
            }
            (Ok(Some(_)), Ok(None)) => buf.direct("replay", false, &key, "original parses fully, perturbed text has unparsable sections", v.clone()),
            (Ok(Some(_)), Err(m)) => buf.direct("replay", false, &key, &format!("perturbed text panics the parser: {}", m), v.clone()),
            _ => buf.direct("replay", true, "", "original not fully parsable: outside the property", Value::Null),
        }
        out.absorb(buf);
        out.finish();
        return;
    }
    kernel_cases(args, &mut out);
    // regression: the two-sided comment must not change the tree in any dialect
    {
        let mut buf = Buf::default();
        for d in DIALECTS {
            let linter = mk_linter(d);
            for (orig, pert, cls) in [
                ("SELECT a FROM t\n", "SELECT a /* c */ FROM t\n", "block-comment-in-whitespace"),
                ("SELECT a FROM t\n", "select\n\ta\n\n\nfrom -- c\n t\n", "mixed"),
                ("SELECT a FROM t\n", "SELECT a /* c */FROM t\n", "block-comment-right-of-whitespace"),
            ] {
                let key = if cls == "block-comment-right-of-whitespace" { "c11:comment-abuts-next-code-token".to_string() } else { format!("c11:{}:{}:{}", d, cls, fnv(pert)) };
                let input = json!({"dialect":d,"perturbation":cls,"mode":"regression","origin":"regression","original":orig,"perturbed":pert});
                match (parse(&linter, orig), parse(&linter, pert)) {
                    (Ok(Some(a)), Ok(Some(b))) => buf.direct("regression", a.shape == b.shape, &key, "code-only tree differs", input),
                    (Ok(Some(_)), Ok(None)) => buf.direct("regression", false, &key, "original parses fully, perturbed text has unparsable sections", input),
                    (Ok(Some(_)), Err(m)) => buf.direct("regression", false, &key, &format!("perturbed text panics the parser: {}", m), input),
                    _ => buf.count("regression_original_not_parsable", 1),
                }
            }
        }
        out.absorb(buf);
    }
    let mut rng = Rng::new(args.seed);
    for f in corpus() {
        if f.text.len() > (if thorough { 20000 } else { 6000 }) {
            continue;
        }
        let seed = rng.next();
        items.push((Item { dialect: f.dialect.clone(), name: f.name.clone(), text: f.text }, seed, thorough));
    }
    for (i, (name, text)) in rule_snippets().into_iter().enumerate() {
        if !thorough && i % 3 != 0 {
            continue;
        }
        let seed = rng.next();
        items.push((Item { dialect: "ansi".into(), name, text }, seed, thorough));
    }
    out.stat(json!({"candidate_files": items.len()}));
    par_run(&mut out, &items, std::collections::HashMap::<String, Linter>::new, run_file);
    out.finish();
}
