//! C11 — parse structure is invariant under layout and keyword case.
//!
//! Direct observation: for every fully parsable corpus text, the code-only serialisation of
//! the parse tree (node types over code tokens, keywords compared case-insensitively) of the
//! original and of each perturbed text must be equal.
//! The perturbation *material* is varied too (classes `…+material`, `space->whitespace-mix`):
//! comment bodies with multi-byte characters, stars, slashes, quotes, keywords, line breaks;
//! whitespace runs with tabs, CR, CRLF, Unicode spaces; singly next to unusual tokens; and a
//! sweep of every material x every dialect on two small texts.
//! The *places* are varied as well (classes `…@new-gap`): further base texts are derived from each
//! corpus text by putting a space / a newline where two code tokens touch (before and after commas,
//! inside and before brackets, around dots, before terminators, between operators, at the edges of
//! the text); those that parse fully are texts of the quantifier, and their new gaps are perturbed.
//! Kernel correspondence (Layout/Model.v): `skip_start_index_forward_to_code`,
//! `skip_stop_index_backward_to_code`, `StringParser`/`MultiStringParser` matching, block
//! comment subdivision (UTF-8), the native `block_comment` matcher on `Cursor`.
use ahash::AHashMap;
use serde_json::{Value, json};
use sqruff_lib::core::linter::core::Linter;
use sqruff_lib_core::dialects::syntax::SyntaxKind;
use sqruff_lib_core::parser::context::ParseContext;
use sqruff_lib_core::parser::lexer::StringOrTemplate;
use sqruff_lib_core::parser::match_algorithms::{skip_start_index_forward_to_code, skip_stop_index_backward_to_code};
use sqruff_lib_core::parser::matchable::MatchableTrait;
use sqruff_lib_core::parser::parsers::{MultiStringParser, StringParser};
use sqruff_lib_core::parser::segments::base::{ErasedSegment, Tables};

use crate::common::*;

fn mk_linter(dialect: &str) -> Linter {
    let src = format!("[sqruff]\ndialect = {}\nrules = core\n", dialect);
    Linter::new(sqruff_lib::core::config::FluffConfig::from_source(&src, None), None, None, true)
}

fn fnv(s: &str) -> String {
    let mut h: u64 = 0xcbf29ce484222325;
    for b in s.as_bytes() {
        h ^= *b as u64;
        h = h.wrapping_mul(0x100000001b3);
    }
    format!("{:010x}", h & 0xff_ffff_ffff)
}

// ------------------------------------------------------------------ tree views
#[derive(Clone)]
struct Leaf {
    kind: SyntaxKind,
    raw: String,
    start: usize, // byte offset in the text
    code: bool,
}

fn leaves(tree: &ErasedSegment) -> Vec<Leaf> {
    let mut out = vec![];
    let mut pos = 0usize;
    for s in tree.get_raw_segments() {
        let raw = s.raw().to_string();
        let n = raw.len();
        out.push(Leaf { kind: s.get_type(), raw, start: pos, code: s.is_code() });
        pos += n;
    }
    out
}

/// code-only serialisation: `type(children…)` for nodes that contain code, `type:raw` for code
/// leaves (keyword raws upper-cased), nothing for non-code.
fn shape(seg: &ErasedSegment, out: &mut String) {
    if seg.segments().is_empty() {
        if seg.is_code() {
            out.push_str(seg.get_type().as_str());
            out.push(':');
            if seg.get_type() == SyntaxKind::Keyword {
                out.push_str(&seg.raw().to_uppercase());
            } else {
                out.push_str(seg.raw());
            }
            out.push(' ');
        }
        return;
    }
    if !seg.is_code() {
        return;
    }
    out.push_str(seg.get_type().as_str());
    out.push('(');
    for c in seg.segments() {
        shape(c, out);
    }
    out.push(')');
}

struct Parsed {
    tree: ErasedSegment,
    shape: String,
}
/// Ok(None): not fully parsable. Err: panic.
fn parse(linter: &Linter, sql: &str) -> Result<Option<Parsed>, String> {
    catch(|| {
        let tables = Tables::default();
        let p = linter.parse_string(&tables, sql, None).ok()?;
        if !p.violations.is_empty() {
            return None;
        }
        let tree = p.tree?;
        // the tree must cover the whole text (Linter::normalise_newlines maps "\r\n" and "\r" to "\n" first)
        if tree.raw().as_str() != sql && tree.raw().as_str() != sql.replace("\r\n", "\n").replace('\r', "\n") {
            return None;
        }
        let mut s = String::new();
        shape(&tree, &mut s);
        Some(Parsed { tree, shape: s })
    })
}

// ------------------------------------------------------------------ perturbations
pub const PERTURBATIONS: [&str; 16] = [
    "space->spaces",
    "space->tab",
    "space->newline",
    "block-comment-in-whitespace",
    "block-comment-left-of-whitespace",
    "block-comment-right-of-whitespace",
    "inline-comment-before-newline",
    "blank-line-doubling",
    "keywords-upper",
    "keywords-lower",
    "keywords-swap",
    "mixed",
    // the same claimed classes with varied perturbation *material* (chosen per site)
    "space->whitespace-mix",
    "block-comment-in-whitespace+material",
    "inline-comment-before-newline+material",
    "mixed+material",
];

/// Bodies of inserted block comments (`/*` body `*/`): ASCII and multi-byte text (2-, 3- and
/// 4-byte UTF-8), stars and slashes (never an opener or closer), quotes of every kind, SQL
/// keywords and punctuation, line breaks, one nested comment. None starts with `+` or `!` (optimizer hints /
/// conditional comments are not comments).
pub const BLOCK_BODIES: [&str; 31] = [
    " c ",
    "",
    "c",
    " caf\u{e9} ",
    "\u{e9}",
    " 5 \u{20ac} ",
    " \u{6ce8}\u{91ca} ",
    "\u{6ce8}",
    " \u{1f600} ok ",
    " na\u{ef}ve \u{2014} \u{fc}ber \u{df} ",
    " \u{43a}\u{43e}\u{43c}\u{43c}\u{435}\u{43d}\u{442}\u{430}\u{440}\u{438}\u{439} ",
    "*",
    " ** ",
    " * a * ",
    "/ x",
    " a / b // c ",
    " a * b / c ",
    " it's ",
    " 'q' ",
    " \"dq ",
    " `bt` ",
    " l'\u{e9}t\u{e9} ",
    " -- dash ",
    " ; , ( ",
    " select from where ",
    " $$ @x :y #z ",
    " line1\n   line2 ",
    " \u{e9}\n\t\u{6ce8} *\n",
    " a\r\n b ",
    " [x] {y} <z> \\ ",
    // a nested comment (the native matcher of every dialect counts nesting depth)
    " outer /* inn\u{e9}r */ outer ",
];
/// Text of inserted inline comments (inserted as ` --` text before a newline).
pub const INLINE_BODIES: [&str; 12] = [
    " c",
    "",
    "c",
    " caf\u{e9}",
    " \u{6ce8}\u{91ca} \u{1f600}",
    " it's",
    " \"dq",
    " /* not a block",
    " */",
    " -- again ; select",
    "- x",
    " \u{20ac}'\u{e9}",
];
/// Replacements of a whitespace run: other whitespace and newlines.
pub const WS_RUNS: [&str; 15] = ["\u{a0}", " \u{3000} ", "\u{2003}\t", "  ", " \t ", "\t\t", "\n\n", " \n ", "\r\n", "\n\t", "\t\n  ", "      ", "\n \n\t\n", "\r", " \r\n\t"];

/// How the material of a material-class perturbation is chosen at a site.
#[derive(Clone, Copy)]
enum Mat {
    /// pseudo-randomly per site from a seed
    Hash(u64),
    /// the k-th entry of the pool at every site
    Fixed(usize),
}
impl Mat {
    fn pick(self, site: usize, n: usize) -> usize {
        match self {
            Mat::Fixed(k) => k % n,
            Mat::Hash(seed) => {
                let mut z = seed ^ (site as u64).wrapping_mul(0x9E3779B97F4A7C15);
                z = (z ^ (z >> 30)).wrapping_mul(0xBF58476D1CE4E5B9);
                z = (z ^ (z >> 27)).wrapping_mul(0x94D049BB133111EB);
                ((z ^ (z >> 31)) % n as u64) as usize
            }
        }
    }
}

fn swapcase(s: &str) -> String {
    s.chars().map(|c| if c.is_ascii_uppercase() { c.to_ascii_lowercase() } else { c.to_ascii_uppercase() }).collect()
}

/// positions (leaf indices) a perturbation may touch
fn sites(ls: &[Leaf], p: usize) -> Vec<usize> {
    let mut in_block = false;
    let mut out = vec![];
    for (i, l) in ls.iter().enumerate() {
        let is_comment = matches!(l.kind, SyntaxKind::BlockComment | SyntaxKind::Comment);
        if is_comment && l.raw.starts_with("/*") && !(l.raw.ends_with("*/") && l.raw.len() >= 4) {
            in_block = true;
        } else if in_block && is_comment && l.raw.ends_with("*/") {
            in_block = false;
            continue;
        }
        if in_block {
            continue;
        }
        let ok = match p {
            0..=5 | 12 | 13 => l.kind == SyntaxKind::Whitespace,
            6 | 7 | 14 => l.kind == SyntaxKind::Newline,
            11 | 15 => l.kind == SyntaxKind::Whitespace || l.kind == SyntaxKind::Newline || (l.kind == SyntaxKind::Keyword && l.raw.is_ascii()),
            _ => l.kind == SyntaxKind::Keyword && l.raw.is_ascii(),
        };
        if ok {
            out.push(i);
        }
    }
    out
}

fn apply(ls: &[Leaf], p: usize, chosen: &[usize], mat: Mat) -> String {
    let mut s = String::new();
    let mut k = 0;
    for (i, l) in ls.iter().enumerate() {
        let hit = k < chosen.len() && chosen[k] == i;
        if hit {
            k += 1;
            // "mixed": every claimed perturbation at once, chosen per site from the site index
            let p = if p == 11 {
                match l.kind {
                    SyntaxKind::Whitespace => [0usize, 1, 2, 3][(i * 7 + l.start) % 4],
                    SyntaxKind::Newline => [6usize, 7][(i + l.start) % 2],
                    _ => [8usize, 9, 10][(i * 5 + l.start) % 3],
                }
            } else if p == 15 {
                match l.kind {
                    SyntaxKind::Whitespace => [12usize, 13, 13, 12, 2][(i * 7 + l.start) % 5],
                    SyntaxKind::Newline => [14usize, 7, 14][(i + l.start) % 3],
                    _ => [8usize, 9, 10][(i * 5 + l.start) % 3],
                }
            } else {
                p
            };
            match p {
                12 => s.push_str(WS_RUNS[mat.pick(i, WS_RUNS.len())]),
                13 => {
                    s.push_str(&l.raw);
                    s.push_str("/*");
                    s.push_str(BLOCK_BODIES[mat.pick(i, BLOCK_BODIES.len())]);
                    s.push_str("*/");
                    s.push_str(&l.raw);
                }
                14 => {
                    s.push_str(" --");
                    s.push_str(INLINE_BODIES[mat.pick(i, INLINE_BODIES.len())]);
                    s.push_str(&l.raw);
                }
                0 => s.push_str("   "),
                1 => s.push('\t'),
                2 => s.push('\n'),
                3 => {
                    s.push_str(&l.raw);
                    s.push_str("/* c */");
                    s.push_str(&l.raw);
                }
                4 => {
                    s.push_str("/* c */");
                    s.push_str(&l.raw);
                }
                5 => {
                    s.push_str(&l.raw);
                    s.push_str("/* c */");
                }
                6 => {
                    s.push_str(" -- c");
                    s.push_str(&l.raw);
                }
                7 => {
                    s.push_str(&l.raw);
                    s.push_str(&l.raw);
                }
                8 => s.push_str(&l.raw.to_ascii_uppercase()),
                9 => s.push_str(&l.raw.to_ascii_lowercase()),
                _ => s.push_str(&swapcase(&l.raw)),
            }
        } else {
            s.push_str(&l.raw);
        }
    }
    s
}

fn first_diff(a: &str, b: &str) -> String {
    let (ab, bb) = (a.as_bytes(), b.as_bytes());
    let mut i = 0;
    while i < ab.len() && i < bb.len() && ab[i] == bb[i] {
        i += 1;
    }
    let lo = i.saturating_sub(60);
    let cut = |s: &str| {
        let mut lo = lo.min(s.len());
        while !s.is_char_boundary(lo) {
            lo -= 1;
        }
        let mut hi = (i + 80).min(s.len());
        while !s.is_char_boundary(hi) {
            hi -= 1;
        }
        s[lo..hi].to_string()
    };
    format!("original …{}… vs perturbed …{}…", cut(a), cut(b))
}

struct Item {
    dialect: String,
    name: String,
    text: String,
}

fn check_one(linter: &Linter, it: &Item, base: &Parsed, p: usize, mode: &str, chosen: &[usize], ls: &[Leaf], mat: Mat, buf: &mut Buf) {
    let text2 = apply(ls, p, chosen, mat);
    if text2 == it.text {
        return;
    }
    buf.count("perturbed_parses", 1);
    // perturbations of a gap that the corpus text did not have (base text derived by `run_gapped`) are their own classes
    let cls_owned = if it.name.starts_with("gapped[") { format!("{}@new-gap", PERTURBATIONS[p]) } else { PERTURBATIONS[p].to_string() };
    let cls = cls_owned.as_str();
    // comments abutting a code token on one side: outside the claimed class (DESIGN 6.11), one key per side
    let mut key = match p {
        4 => "c11:comment-abuts-previous-code-token".to_string(),
        5 => "c11:comment-abuts-next-code-token".to_string(),
        _ => format!("c11:{}:{}:{}", it.dialect, cls, fnv(&text2)),
    };
    if p == 4 || p == 5 {
        // the two recorded classes are keyed by the site that fails: the kind of the code token the comment touches on its
        // left (p = 4: a token whose pattern absorbs '/' or '*'), the keyword it touches on its right (p = 5: a keyword
        // terminator); a failure at any other kind of site is a different violation
        let fails = |sites: &[usize]| -> bool {
            match parse(linter, &apply(ls, p, sites, mat)) {
                Ok(Some(p2)) => p2.shape != base.shape,
                _ => true,
            }
        };
        if fails(chosen) {
            let culprit = chosen.iter().copied().find(|&i| fails(&[i]));
            let site = match culprit {
                Some(i) => {
                    let nb = if p == 4 { ls[..i].iter().rev().find(|l| l.code) } else { ls[i + 1..].iter().find(|l| l.code) };
                    match nb {
                        Some(l) if p == 4 => format!("{:?}", l.kind).to_lowercase(),
                        Some(l) => l.raw.to_ascii_uppercase().chars().take(24).collect::<String>(),
                        None => "edge".to_string(),
                    }
                }
                None => "several-sites".to_string(),
            };
            key = format!("{}:{}", key, site);
        }
    }
    let input = json!({"dialect":it.dialect,"perturbation":cls,"mode":mode,"origin":it.name,"original":it.text,"perturbed":text2,"known_key":key});
    match parse(linter, &text2) {
        Err(msg) => buf.direct(cls, false, &key, &format!("perturbed text panics the parser: {}", trunc(&msg, 120)), input),
        Ok(None) => buf.direct(cls, false, &key, "original parses fully, perturbed text has unparsable sections", input),
        Ok(Some(p2)) => {
            if p2.shape == base.shape {
                buf.direct(cls, true, "", "", Value::Null);
            } else {
                buf.direct(cls, false, &key, &format!("code-only tree differs: {}", first_diff(&base.shape, &p2.shape)), input);
            }
        }
    }
}

/// leaf kinds that every dialect produces all the time; a perturbation site whose nearest code
/// neighbour is of any *other* kind sits next to a dialect-specific / unusual token
fn common_kind(k: SyntaxKind) -> bool {
    matches!(
        k,
        SyntaxKind::Keyword
            | SyntaxKind::NakedIdentifier
            | SyntaxKind::Comma
            | SyntaxKind::NumericLiteral
            | SyntaxKind::StartBracket
            | SyntaxKind::EndBracket
            | SyntaxKind::Dot
            | SyntaxKind::Star
            | SyntaxKind::QuotedLiteral
            | SyntaxKind::RawComparisonOperator
            | SyntaxKind::StatementTerminator
            | SyntaxKind::FunctionNameIdentifier
            | SyntaxKind::DataTypeIdentifier
            | SyntaxKind::BinaryOperator
            | SyntaxKind::ComparisonOperator
    )
}
fn rare_neighbour(ls: &[Leaf], i: usize) -> bool {
    let prev = ls[..i].iter().rev().find(|l| !l.raw.is_empty());
    let next = ls[i + 1..].iter().find(|l| !l.raw.is_empty());
    [prev, next].into_iter().flatten().any(|l| l.code && !common_kind(l.kind))
}

// ------------------------------------------------------------------ gaps the corpus does not have
// The property quantifies over every fully parsable text and every whitespace run in it; the corpus
// pins one spelling per statement, so most (grammar element, gap) pairs have *no* gap in any corpus
// text (`f(a, b)`: nothing before the comma, nothing inside the brackets, nothing around the dot of
// `t.a`), and a perturbation of existing whitespace never gets there.  From every fully parsable
// corpus text further base texts are derived by putting one space (or one newline) at the junctions
// of adjacent code tokens; a derived text that parses fully is a text of the property's quantifier
// in its own right (its tree is its own reference, the corpus text's tree is not consulted), and the
// property's perturbations are then applied to the *new* whitespace / newline tokens.
pub const JUNCTION_CLASSES: [&str; 8] = ["before-comma", "after-comma", "inside-bracket", "before-bracket", "at-dot", "before-terminator", "other", "file-edge"];
fn opener(k: SyntaxKind) -> bool {
    matches!(k, SyntaxKind::StartBracket | SyntaxKind::StartSquareBracket | SyntaxKind::StartCurlyBracket | SyntaxKind::StartAngleBracket)
}
fn closer(k: SyntaxKind) -> bool {
    matches!(k, SyntaxKind::EndBracket | SyntaxKind::EndSquareBracket | SyntaxKind::EndCurlyBracket | SyntaxKind::EndAngleBracket)
}
/// (index of the right-hand leaf, class) of every place where two code tokens touch, and the two
/// edges of the text where it starts / ends with a code token (index `ls.len()`: behind the last leaf)
fn junctions(ls: &[Leaf]) -> Vec<(usize, usize)> {
    let vis: Vec<usize> = (0..ls.len()).filter(|i| !ls[*i].raw.is_empty()).collect();
    let mut out = vec![];
    if vis.first().is_some_and(|i| ls[*i].code) {
        out.push((vis[0], 7));
    }
    for w in vis.windows(2) {
        let (a, b) = (&ls[w[0]], &ls[w[1]]);
        if !(a.code && b.code) {
            continue;
        }
        let cls = if b.kind == SyntaxKind::Comma {
            0
        } else if a.kind == SyntaxKind::Comma {
            1
        } else if opener(a.kind) || closer(b.kind) {
            2
        } else if opener(b.kind) {
            3
        } else if a.kind == SyntaxKind::Dot || b.kind == SyntaxKind::Dot {
            4
        } else if b.kind == SyntaxKind::StatementTerminator {
            5
        } else {
            6
        };
        out.push((w[1], cls));
    }
    if vis.last().is_some_and(|i| ls[*i].code) {
        out.push((ls.len(), 7));
    }
    out
}
/// the text with `gap` put in front of the leaves `at` (ascending); byte offsets of the inserted gaps
fn insert_gaps(ls: &[Leaf], at: &[usize], gap: &str) -> (String, Vec<usize>) {
    let mut s = String::new();
    let mut offs = vec![];
    let mut k = 0;
    for (i, l) in ls.iter().enumerate() {
        if k < at.len() && at[k] == i {
            k += 1;
            offs.push(s.len());
            s.push_str(gap);
        }
        s.push_str(&l.raw);
    }
    if k < at.len() && at[k] == ls.len() {
        offs.push(s.len());
        s.push_str(gap);
    }
    (s, offs)
}

/// one derived base text: parse it, find the new gap tokens, perturb them
fn run_gapped_base(linter: &Linter, origin: &Item, origin_shape: &str, ls: &[Leaf], at: &[usize], gap: &str, label: &str, rng: &mut Rng, thorough: bool, buf: &mut Buf) -> bool {
    let (text, offs) = insert_gaps(ls, at, gap);
    buf.count("gapped_candidates", 1);
    let base = match parse(linter, &text) {
        Ok(Some(p)) => p,
        _ => {
            // not a text of the quantifier (`a . b`, `> =`, `: :` …)
            buf.count("gapped_candidates_not_fully_parsable", 1);
            return false;
        }
    };
    buf.count("gapped_bases", 1);
    if base.shape != origin_shape {
        // not a failure: putting a gap where there was none is not one of the property's perturbations
        buf.count("gapped_bases_whose_tree_differs_from_the_corpus_text", 1);
    }
    let it = Item { dialect: origin.dialect.clone(), name: format!("gapped[{}]:{}", label, origin.name), text };
    let ls2 = leaves(&base.tree);
    let want = if gap == "\n" { SyntaxKind::Newline } else { SyntaxKind::Whitespace };
    let new_sites: Vec<usize> = (0..ls2.len()).filter(|i| ls2[*i].kind == want && ls2[*i].raw == gap && offs.binary_search(&ls2[*i].start).is_ok()).collect();
    buf.count("gapped_sites", new_sites.len());
    if new_sites.is_empty() {
        return true;
    }
    let ps: &[usize] = if gap == "\n" { &[6, 7, 14] } else { &[0, 1, 2, 3, 12, 13] };
    for &p in ps {
        let allowed = sites(&ls2, p);
        let st: Vec<usize> = new_sites.iter().copied().filter(|i| allowed.binary_search(i).is_ok()).collect();
        if st.is_empty() {
            continue;
        }
        check_one(linter, &it, &base, p, "new-gaps-global", &st, &ls2, Mat::Hash(rng.next()), buf);
        if st.len() > 1 {
            let n_single = if thorough { 4 } else { 1 } + if p >= 12 { 1 } else { 0 };
            for _ in 0..n_single.min(st.len()) {
                let one = [st[rng.below(st.len())]];
                check_one(linter, &it, &base, p, "new-gap-single", &one, &ls2, Mat::Hash(rng.next()), buf);
            }
            if thorough {
                let sub: Vec<usize> = st.iter().copied().filter(|_| rng.chance(1, 2)).collect();
                if !sub.is_empty() && sub.len() < st.len() {
                    check_one(linter, &it, &base, p, "new-gaps-subset", &sub, &ls2, Mat::Hash(rng.next()), buf);
                }
            }
        }
    }
    true
}

fn run_gapped(linter: &Linter, it: &Item, base: &Parsed, ls: &[Leaf], rng: &mut Rng, thorough: bool, buf: &mut Buf) {
    let js = junctions(ls);
    buf.count("junctions", js.len());
    if js.is_empty() {
        return;
    }
    for (gap, gname) in [(" ", "space"), ("\n", "newline")] {
        // everywhere at once; where that is not a parsable text, class by class; where a class is not, a few junctions singly
        let mut covered = std::collections::HashSet::new();
        let all: Vec<usize> = js.iter().map(|j| j.0).collect();
        let all_ok = run_gapped_base(linter, it, &base.shape, ls, &all, gap, &format!("{}:all", gname), rng, thorough, buf);
        if all_ok {
            covered.extend(all.iter().copied());
        }
        if !all_ok || thorough {
            for (c, cname) in JUNCTION_CLASSES.iter().enumerate() {
                let at: Vec<usize> = js.iter().filter(|j| j.1 == c).map(|j| j.0).collect();
                if at.is_empty() || at.len() == all.len() {
                    continue;
                }
                if run_gapped_base(linter, it, &base.shape, ls, &at, gap, &format!("{}:{}", gname, cname), rng, thorough, buf) {
                    covered.extend(at.iter().copied());
                    continue;
                }
                if at.len() == 1 {
                    continue;
                }
                for _ in 0..(if thorough { 6 } else { 2 }).min(at.len()) {
                    let one = [at[rng.below(at.len())]];
                    if run_gapped_base(linter, it, &base.shape, ls, &one, gap, &format!("{}:{}:one", gname, cname), rng, thorough, buf) {
                        covered.insert(one[0]);
                    }
                }
            }
        }
        buf.count(if gap == " " { "junctions_given_a_space_in_a_parsable_base" } else { "junctions_given_a_newline_in_a_parsable_base" }, covered.len());
    }
}

fn run_file(ls_cache: &mut std::collections::HashMap<String, Linter>, it: &(Item, u64, bool), buf: &mut Buf) {
    let (it, seed, thorough) = (&it.0, it.1, it.2);
    let linter = ls_cache.entry(it.dialect.clone()).or_insert_with(|| mk_linter(&it.dialect));
    buf.count("files", 1);
    let base = match parse(linter, &it.text) {
        Ok(Some(p)) => p,
        Ok(None) => {
            buf.count("files_not_fully_parsable_skipped", 1);
            return;
        }
        Err(_) => {
            buf.count("files_panicking_skipped", 1);
            return;
        }
    };
    buf.count("files_fully_parsable", 1);
    let ls = leaves(&base.tree);
    let mut rng = Rng::new(seed);
    if it.name.starts_with("sweep:") {
        // every entry of every material pool, at every site singly and at all sites
        for (p, n) in [(12usize, WS_RUNS.len()), (13, BLOCK_BODIES.len()), (14, INLINE_BODIES.len())] {
            let st = sites(&ls, p);
            for k in 0..n {
                for one in &st {
                    check_one(linter, it, &base, p, "sweep-single", &[*one], &ls, Mat::Fixed(k), buf);
                }
                check_one(linter, it, &base, p, "sweep-global", &st, &ls, Mat::Fixed(k), buf);
            }
        }
        return;
    }
    for p in 0..PERTURBATIONS.len() {
        let st = sites(&ls, p);
        if st.is_empty() {
            continue;
        }
        let material = p >= 12;
        buf.count("sites", st.len());
        // globally
        check_one(linter, it, &base, p, "global", &st, &ls, Mat::Hash(rng.next()), buf);
        // random subsets
        let n_sub = if thorough { 4 } else { 1 };
        for _ in 0..n_sub {
            let sub: Vec<usize> = st.iter().copied().filter(|_| rng.chance(1, 2)).collect();
            if !sub.is_empty() && sub.len() < st.len() {
                check_one(linter, it, &base, p, "subset", &sub, &ls, Mat::Hash(rng.next()), buf);
            }
        }
        // single positions (material classes: the product site x material is larger)
        let n_single = if thorough { 6 } else { 2 } + if material { 2 } else { 0 };
        for _ in 0..n_single.min(st.len()) {
            let one = [st[rng.below(st.len())]];
            check_one(linter, it, &base, p, "single", &one, &ls, Mat::Hash(rng.next()), buf);
        }
        // single positions next to a dialect-specific / unusual token
        if material || p == 3 {
            let rare: Vec<usize> = st.iter().copied().filter(|i| rare_neighbour(&ls, *i)).collect();
            buf.count("sites_next_to_unusual_token", rare.len());
            let n_rare = if thorough { 4 } else { 2 };
            for _ in 0..n_rare.min(rare.len()) {
                let one = [rare[rng.below(rare.len())]];
                check_one(linter, it, &base, p, "single-next-to-unusual-token", &one, &ls, Mat::Hash(rng.next()), buf);
            }
        }
    }
    // the gaps this text does not have
    run_gapped(linter, it, &base, &ls, &mut rng, thorough, buf);
}

// ------------------------------------------------------------------ kernel correspondence
/// `clean_body` of Layout/Model.v: no NUL, no opener or closer inside, no '/' at the very end
fn clean_body(body: &str) -> bool {
    !body.contains('\0') && !body.contains("/*") && !body.contains("*/") && !body.ends_with('/')
}

fn kernel_cases(args: &Args, out: &mut Out) {
    let thorough = args.thorough();
    let mut rng = Rng::new(args.seed ^ 0xc11);
    let mut buf = Buf::default();
    let corpus = corpus();
    let linter = mk_linter("ansi");
    let dialect = linter.config().get_dialect();
    let tables = Tables::default();
    // token lists from real files
    let n_files = if thorough { 400 } else { 80 };
    let mut token_lists: Vec<Vec<ErasedSegment>> = vec![];
    for _ in 0..n_files {
        let f = &corpus[rng.below(corpus.len())];
        if f.text.len() > 1200 || !f.text.is_ascii() {
            continue;
        }
        if let Ok(Ok((toks, _))) = catch(|| dialect.lexer().lex(&tables, StringOrTemplate::String(&f.text))) {
            token_lists.push(toks);
        }
    }
    // skip_forward / skip_backward
    for toks in &token_lists {
        let flags: Vec<bool> = toks.iter().map(|t| t.is_code()).collect();
        let n = toks.len() as u32;
        for _ in 0..(if thorough { 12 } else { 6 }) {
            let a = rng.below(n as usize + 1) as u32;
            let b = rng.below(n as usize + 1) as u32;
            // the Rust functions index segments[idx]: keep max_idx <= len (as every call site does)
            let fwd = catch(|| skip_start_index_forward_to_code(toks, a, b));
            let bwd = catch(|| skip_stop_index_backward_to_code(toks, a, b));
            let g = |r: &Result<u32, String>| match r {
                Ok(v) => format!("(Some {})", v),
                Err(_) => "None".to_string(),
            };
            let nontrivial = fwd.as_ref().map(|v| *v != a).unwrap_or(false) || bwd.as_ref().map(|v| *v != a).unwrap_or(false);
            buf.case(
                "skip",
                "skip-real-tokens",
                nontrivial,
                g_tuple(&[g_list(flags.iter().map(|b| g_bool(*b))), g_n(a as usize), g_n(b as usize)]),
                g_pair(&g(&fwd), &g(&bwd)),
                json!({"input":{"kernel":"skip"},"flags":flags.iter().map(|b| *b as u8).collect::<Vec<_>>(),"a":a,"b":b}),
            );
        }
    }
    // StringParser / MultiStringParser: templates × real tokens (with case variants)
    let indent_cfg: AHashMap<String, bool> = AHashMap::new();
    let mut pc = ParseContext::new(dialect, &indent_cfg);
    let templates = ["select", "FROM", "Where", "a", "t", "group", "BY", "é", "straße", "İ", "ſ", "k"];
    let mut n_kw = 0;
    'outer: for toks in &token_lists {
        for (i, t) in toks.iter().enumerate() {
            if !t.raw().is_ascii() && rng.chance(1, 2) {
                continue;
            }
            if n_kw >= (if thorough { 6000 } else { 1200 }) {
                break 'outer;
            }
            if !(t.is_code() || rng.chance(1, 6)) {
                continue;
            }
            let tpl = if rng.chance(1, 2) { t.raw().to_string() } else { templates[rng.below(templates.len())].to_string() };
            let tpl = match rng.below(3) {
                0 => tpl.to_uppercase(),
                1 => tpl.to_lowercase(),
                _ => tpl,
            };
            if !tpl.is_ascii() || !t.raw().is_ascii() {
                // the model is ASCII only; non-ASCII templates/raws are counted and skipped
                buf.count("string_parser_non_ascii_skipped", 1);
                continue;
            }
            n_kw += 1;
            let sp = StringParser::new(&tpl, SyntaxKind::Keyword);
            let r1 = catch(|| sp.match_segments(toks, i as u32, &mut pc).map(|m| m.span.end - m.span.start).unwrap_or(99));
            let tpl2 = templates[rng.below(templates.len())].to_uppercase();
            let tpls: Vec<String> = vec![tpl.to_uppercase(), tpl2].into_iter().filter(|s| s.is_ascii()).collect();
            let mp = MultiStringParser::new(tpls.clone(), SyntaxKind::Keyword);
            let r2 = catch(|| mp.match_segments(toks, i as u32, &mut pc).map(|m| m.span.end - m.span.start).unwrap_or(99));
            let matched = r1.as_ref().map(|v| *v == 1).unwrap_or(false);
            buf.case(
                "strmatch",
                "string-parser-real-tokens",
                matched,
                g_tuple(&[g_str(&tpl), g_list(tpls.iter().map(|s| g_str(s))), g_bool(t.is_code()), g_str(t.raw())]),
                g_pair(&g_bool(matched), &g_bool(r2.as_ref().map(|v| *v == 1).unwrap_or(false))),
                json!({"input":{"kernel":"strmatch"},"template":tpl,"raw":t.raw().as_str(),"is_code":t.is_code()}),
            );
        }
    }
    // block comment subdivision (ANSI matcher: newline subdivider, whitespace trim); bodies of the
    // perturbation class: ASCII and multi-byte text, Unicode whitespace, stars, slashes, quotes
    let pieces = [
        "a", " ", "  ", "\t", "\n", "\r\n", "b c", "*", "/", "noqa", "\n\n", " \n ", "x\t", "\u{e9}", "\u{20ac}", "\u{6ce8}\u{91ca}", "\u{1f600}", "\u{a0}",
        "\u{3000}", "\u{2003}", "\u{85}", "\u{2028}", "'", "\"", "caf\u{e9}", "\u{b}", "\r",
    ];
    for round in 0..(if thorough { 4000 } else { 900 }) {
        let body: String = if round < BLOCK_BODIES.len() {
            BLOCK_BODIES[round].to_string()
        } else {
            let n = rng.range(0, 7);
            (0..n).map(|_| pieces[rng.below(pieces.len())]).collect()
        };
        if !clean_body(&body) {
            continue;
        }
        let text = format!("/*{}*/", body);
        let r = catch(|| dialect.lexer().lex(&tables, StringOrTemplate::String(&text)));
        let Ok(Ok((toks, _))) = r else {
            buf.hyp("H_block_comment_tokens_are_non_code", "blocking", false, json!({"text":text,"lexer":"failed or panicked"}));
            continue;
        };
        let elems: Vec<(usize, String)> = toks
            .iter()
            .filter(|t| t.get_type() != SyntaxKind::EndOfFile)
            .map(|t| {
                let k = match t.get_type() {
                    SyntaxKind::BlockComment => 0,
                    SyntaxKind::Newline => 1,
                    SyntaxKind::Whitespace => 2,
                    _ => 9,
                };
                (k, t.raw().to_string())
            })
            .collect();
        let all_noncode = toks.iter().all(|t| !t.is_code());
        buf.hyp("H_block_comment_tokens_are_non_code", "blocking", all_noncode, json!({"text":text}));
        buf.case(
            "subdiv",
            if text.is_ascii() { "block-comment" } else { "block-comment-non-ascii" },
            elems.len() > 1,
            g_str(&text),
            g_list(elems.iter().map(|(k, r)| g_pair(&g_n(*k), &g_str(r)))),
            json!({"input":{"kernel":"subdiv"},"text":text,"tokens":elems.iter().map(|(k,r)| json!([k,r])).collect::<Vec<_>>()}),
        );
    }
    // the native block_comment matcher itself (Pattern::matches -> Cursor::lexed): byte length of
    // the match on comment + following text; every dialect's own matcher
    let heads = ["/*", "/*", "/*", "/**", "/*/", "/", "/ *", "", "-", "*/", "\u{e9}/*"];
    let mids = [
        "a", " ", "*", "/", "/*", "*/", "\n", "\u{e9}", "\u{20ac}", "\u{6ce8}", "\u{1f600}", "caf\u{e9} ", "'", "--", "\0", "\u{a0}", "**", "//", " x ",
    ];
    let tails = ["", "*/", "*/", "*/ , b", "*/\u{e9}", "*/ FROM t\n", "*/*/", "*", "*/ /* \u{e9} */ x"];
    for d in DIALECTS {
        let l = mk_linter(d);
        let dl = l.config().get_dialect();
        let lexer = dl.lexer();
        let Some(m) = lexer.verif_matchers().iter().find(|m| m.name() == "block_comment") else {
            buf.count("dialects_without_block_comment_matcher", 1);
            continue;
        };
        let pat = m.verif_pattern();
        if pat.verif_variant() != "native" {
            buf.count("dialects_with_non_native_block_comment", 1);
            continue;
        }
        buf.count("dialects_with_native_block_comment", 1);
        let n = (if thorough { 2500 } else { 500 }) / (if d == "ansi" { 1 } else { 5 });
        for round in 0..n {
            let text: String = if round < BLOCK_BODIES.len() {
                format!("/*{}*/{}", BLOCK_BODIES[round], tails[round % tails.len()])
            } else {
                let k = rng.range(0, 6);
                let mut t = heads[rng.below(heads.len())].to_string();
                for _ in 0..k {
                    t.push_str(mids[rng.below(mids.len())]);
                }
                t.push_str(tails[rng.below(tails.len())]);
                t
            };
            let r = catch(|| pat.verif_matches(&text));
            buf.hyp("H_block_comment_matcher_does_not_panic", "blocking", r.is_ok(), json!({"dialect":d,"text":text}));
            let Ok(r) = r else { continue };
            buf.case(
                "bcmatch",
                if text.is_ascii() { "block-comment-matcher" } else { "block-comment-matcher-non-ascii" },
                r.is_some(),
                g_str(&text),
                g_opt(r.map(g_n)),
                json!({"input":{"kernel":"bcmatch"},"dialect":d,"text":text,"matched_bytes":r}),
            );
        }
    }
    out.absorb(buf);
}

// ------------------------------------------------------------------ main
pub fn main(args: &Args) {
    silence_panics();
    let mut out = Out::new(&args.out);
    let mut items: Vec<(Item, u64, bool)> = vec![];
    let thorough = args.thorough();
    if let Some(path) = args.flag("--replay-input") {
        let v: Value = serde_json::from_str(&std::fs::read_to_string(path).unwrap()).unwrap();
        let v = if v.get("input").is_some() { v["input"].clone() } else { v };
        if v.get("kernel").is_some() {
            kernel_cases(args, &mut out);
            out.finish();
            return;
        }
        // re-run exactly one (original, perturbed) pair
        let d = v["dialect"].as_str().unwrap_or("ansi");
        let linter = mk_linter(d);
        let mut buf = Buf::default();
        let orig = v["original"].as_str().unwrap_or("");
        let pert = v["perturbed"].as_str().unwrap_or("");
        let cls = v["perturbation"].as_str().unwrap_or("replay").to_string();
        let key = match (v["known_key"].as_str(), cls.as_str()) {
            (Some(k), _) => k.to_string(),
            (None, "block-comment-left-of-whitespace") => "c11:comment-abuts-previous-code-token".to_string(),
            (None, "block-comment-right-of-whitespace") => "c11:comment-abuts-next-code-token".to_string(),
            _ => format!("c11:{}:{}:{}", d, cls, fnv(pert)),
        };
        match (parse(&linter, orig), parse(&linter, pert)) {
            (Ok(Some(a)), Ok(Some(b))) => {
                let ok = a.shape == b.shape;
                buf.direct("replay", ok, &key, &format!("code-only tree differs: {}", first_diff(&a.shape, &b.shape)), v.clone());
            }
            (Ok(Some(_)), Ok(None)) => buf.direct("replay", false, &key, "original parses fully, perturbed text has unparsable sections", v.clone()),
            (Ok(Some(_)), Err(m)) => buf.direct("replay", false, &key, &format!("perturbed text panics the parser: {}", m), v.clone()),
            _ => buf.direct("replay", true, "", "original not fully parsable: outside the property", Value::Null),
        }
        out.absorb(buf);
        out.finish();
        return;
    }
    kernel_cases(args, &mut out);
    // regression: the two-sided comment must not change the tree in any dialect
    {
        let mut buf = Buf::default();
        for d in DIALECTS {
            let linter = mk_linter(d);
            for (orig, pert, cls) in [
                ("SELECT a FROM t\n", "SELECT a /* c */ FROM t\n", "block-comment-in-whitespace"),
                ("SELECT a FROM t\n", "select\n\ta\n\n\nfrom -- c\n t\n", "mixed"),
                ("SELECT a FROM t\n", "SELECT a /* c */FROM t\n", "block-comment-right-of-whitespace"),
            ] {
                let key = if cls == "block-comment-right-of-whitespace" { "c11:comment-abuts-next-code-token:FROM".to_string() } else { format!("c11:{}:{}:{}", d, cls, fnv(pert)) };
                let input = json!({"dialect":d,"perturbation":cls,"mode":"regression","origin":"regression","original":orig,"perturbed":pert});
                match (parse(&linter, orig), parse(&linter, pert)) {
                    (Ok(Some(a)), Ok(Some(b))) => buf.direct("regression", a.shape == b.shape, &key, "code-only tree differs", input),
                    (Ok(Some(_)), Ok(None)) => buf.direct("regression", false, &key, "original parses fully, perturbed text has unparsable sections", input),
                    (Ok(Some(_)), Err(m)) => buf.direct("regression", false, &key, &format!("perturbed text panics the parser: {}", m), input),
                    _ => buf.count("regression_original_not_parsable", 1),
                }
            }
        }
        out.absorb(buf);
    }
    let mut rng = Rng::new(args.seed);
    // (first, so that the first reported failing inputs are the small ones)
    // every material of every pool x every dialect, on small texts with the constructs the
    // material could fuse with (alias vs operator, list separators, string and quoted names)
    for d in DIALECTS {
        for (k, text) in ["SELECT a , b FROM t\n", "SELECT a b , 'it''s' AS c\nFROM t AS u\nWHERE x = 1 AND y <> 'z'\n"].into_iter().enumerate() {
            let seed = rng.next();
            items.push((Item { dialect: d.to_string(), name: format!("sweep:{}", k), text: text.to_string() }, seed, thorough));
        }
    }
    for f in corpus() {
        if f.text.len() > (if thorough { 20000 } else { 6000 }) {
            continue;
        }
        let seed = rng.next();
        items.push((Item { dialect: f.dialect.clone(), name: f.name.clone(), text: f.text }, seed, thorough));
    }
    for (i, (name, text)) in rule_snippets().into_iter().enumerate() {
        if !thorough && i % 3 != 0 {
            continue;
        }
        let seed = rng.next();
        items.push((Item { dialect: "ansi".into(), name, text }, seed, thorough));
    }
    out.stat(json!({"candidate_files": items.len()}));
    par_run(&mut out, &items, std::collections::HashMap::<String, Linter>::new, run_file);
    out.finish();
}
