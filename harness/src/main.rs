//! `sqv` — verification harness for quarylabs/sqruff (see /verif/DESIGN.md).
//! One subcommand per property; every subcommand writes JSON lines to `--out`.
mod common;
mod pem;
mod c01;
mod c02;
mod c03;
mod c04;
mod c05;
mod c06;
mod c07;
mod c08;
mod c09;
mod c10;
mod c11;
mod c12;
mod c13;
mod c14;
mod c15;
mod c16;
mod c17;
mod c18;
mod c19;
mod c20;

fn main() {
    let argv: Vec<String> = std::env::args().skip(1).collect();
    if argv.is_empty() {
        eprintln!("usage: sqv <property> [--tier quick|thorough] [--seed N] [--out FILE]");
        std::process::exit(2);
    }
    let args = common::Args::parse(&argv[1..]);
    match argv[0].as_str() {
        "c01" => c01::main(&args),
        "c02" => c02::main(&args),
        "c03" => c03::main(&args),
        "c04" => c04::main(&args),
        "c05" => c05::main(&args),
        "c06" => c06::main(&args),
        "c07" => c07::main(&args),
        "c08" => c08::main(&args),
        "c09" => c09::main(&args),
        "c10" => c10::main(&args),
        "c11" => c11::main(&args),
        "c12" => c12::main(&args),
        "c13" => c13::main(&args),
        "c14" => c14::main(&args),
        "c15" => c15::main(&args),
        "c16" => c16::main(&args),
        "c17" => c17::main(&args),
        "c18" => c18::main(&args),
        "c19" => c19::main(&args),
        "c20" => c20::main(&args),
        "pem" => pem::main(&args),
        other => {
            eprintln!("unknown subcommand {other}");
            std::process::exit(2);
        }
    }
}
