//! `sqv` — verification harness for quarylabs/sqruff (see /verif/DESIGN.md).
//! One subcommand per property; every subcommand writes JSON lines to `--out`.
mod common;
mod c10;

fn main() {
    let argv: Vec<String> = std::env::args().skip(1).collect();
    if argv.is_empty() {
        eprintln!("usage: sqv <property> [--tier quick|thorough] [--seed N] [--out FILE]");
        std::process::exit(2);
    }
    let args = common::Args::parse(&argv[1..]);
    match argv[0].as_str() {
        "c10" => c10::main(&args),
        other => {
            eprintln!("unknown subcommand {other}");
            std::process::exit(2);
        }
    }
}
