//! C06 — layout fixes change only layout.
//!
//! For every (dialect, layout configuration, input): run `fix` with `rules = layout` while the
//! `verif_hook` of the fix loop records every applied batch (rule, fixes, tree before, tree after).
//!  * correspondence `batch`: Gallina `apply_batch before fixes` must equal the real `after` tree
//!    (ids, kinds, classes, raws, structure);
//!  * correspondence `run`: Gallina `run` over all batches of a file must end in the real final tree
//!    (acceptance by `previous_versions`) and `run_okb` must agree with the monitors below;
//!  * monitors (hypotheses of the theorems, evaluated on the real trees): `ids_unique`, `edits_fresh`,
//!    `single_anchor`, `code_neutral` per batch, `no_source_fixes`, `relex_stable` per final tree;
//!  * direct: code tokens of lex(source) vs lex(fix(source)), comment multiset, final tree vs lex(fix(source)).
//! The recording/conversion helpers are `pub`: c05.rs uses them too.
use std::cell::RefCell;
use std::collections::{HashMap, HashSet};

use serde_json::{Value, json};
use sqruff_lib::core::config::FluffConfig;
use sqruff_lib::core::linter::core::Linter;
use sqruff_lib::core::linter::core::verif_hook::{FIX_HOOK, FixEvent};
use sqruff_lib_core::edit_type::EditType;
use sqruff_lib_core::lint_fix::LintFix;
use sqruff_lib_core::parser::lexer::StringOrTemplate;
use sqruff_lib_core::parser::segments::base::{ErasedSegment, Tables};

use crate::common::*;

// ------------------------------------------------------------------ recording the fix loop
pub struct BatchRec {
    pub phase: String,
    pub pass: usize,
    pub rule: &'static str,
    pub fixes: Vec<LintFix>,
    pub before: ErasedSegment,
    pub after: ErasedSegment,
    pub accepted: bool,
}
#[derive(Default)]
pub struct Recorded {
    pub start: Option<ErasedSegment>,
    pub batches: Vec<BatchRec>,
    pub end: Option<ErasedSegment>,
}
thread_local! {
    static REC: RefCell<Recorded> = RefCell::new(Recorded::default());
}
pub fn install_hook() {
    FIX_HOOK.with(|h| {
        *h.borrow_mut() = Some(Box::new(|ev| {
            REC.with(|r| {
                let mut r = r.borrow_mut();
                match ev {
                    FixEvent::Start { tree, .. } => {
                        *r = Recorded::default();
                        r.start = Some(tree.clone());
                    }
                    FixEvent::Batch { phase, pass, rule, fixes, before, after, accepted } => r.batches.push(BatchRec {
                        phase: format!("{:?}", phase),
                        pass,
                        rule,
                        fixes: fixes.to_vec(),
                        before: before.clone(),
                        after: after.clone(),
                        accepted,
                    }),
                    FixEvent::PassEnd { .. } => {}
                    FixEvent::End { tree } => r.end = Some(tree.clone()),
                }
            })
        }));
    });
}
pub fn take_rec() -> Recorded {
    REC.with(|r| std::mem::take(&mut *r.borrow_mut()))
}

// ------------------------------------------------------------------ owned trees
#[derive(Clone, PartialEq, Debug)]
pub enum T {
    Leaf { id: u32, kind: usize, cls: u8, raw: String },
    Node { id: u32, kind: usize, cs: Vec<T> },
}
pub fn cls_of(seg: &ErasedSegment) -> u8 {
    if seg.is_comment() {
        1
    } else if seg.is_code() {
        0
    } else {
        2
    }
}
pub fn conv(seg: &ErasedSegment) -> T {
    if seg.segments().is_empty() {
        T::Leaf { id: seg.id(), kind: seg.get_type() as usize, cls: cls_of(seg), raw: seg.raw().to_string() }
    } else {
        T::Node { id: seg.id(), kind: seg.get_type() as usize, cs: seg.segments().iter().map(conv).collect() }
    }
}
impl T {
    pub fn id(&self) -> u32 {
        match self {
            T::Leaf { id, .. } | T::Node { id, .. } => *id,
        }
    }
    pub fn all_ids(&self, out: &mut Vec<u32>) {
        out.push(self.id());
        if let T::Node { cs, .. } = self {
            for c in cs {
                c.all_ids(out);
            }
        }
    }
    pub fn desc_ids(&self, out: &mut Vec<u32>) {
        if let T::Node { cs, .. } = self {
            for c in cs {
                c.all_ids(out);
            }
        }
    }
    pub fn leaves<'a>(&'a self, out: &mut Vec<(u8, &'a str)>) {
        match self {
            T::Leaf { cls, raw, .. } => out.push((*cls, raw.as_str())),
            T::Node { cs, .. } => {
                for c in cs {
                    c.leaves(out)
                }
            }
        }
    }
    pub fn n_leaves(&self) -> usize {
        let mut v = vec![];
        self.leaves(&mut v);
        v.len()
    }
    pub fn raw(&self) -> String {
        let mut v = vec![];
        self.leaves(&mut v);
        v.iter().map(|x| x.1).collect()
    }
    pub fn code_seq(&self) -> Vec<String> {
        let mut v = vec![];
        self.leaves(&mut v);
        v.iter().filter(|x| x.0 == 0).map(|x| x.1.to_string()).collect()
    }
    pub fn comments_sorted(&self) -> Vec<String> {
        let mut v = vec![];
        self.leaves(&mut v);
        let mut c: Vec<String> = v.iter().filter(|x| x.0 == 1).map(|x| x.1.to_string()).collect();
        c.sort();
        c
    }
    pub fn g(&self, o: &mut String) {
        match self {
            T::Leaf { id, kind, cls, raw } => {
                o.push_str(&format!("(Leaf {} {} {} {})", id, kind, cls, g_str(raw)));
            }
            T::Node { id, kind, cs } => {
                o.push_str(&format!("(Node {} {} [", id, kind));
                for (i, c) in cs.iter().enumerate() {
                    if i > 0 {
                        o.push(';');
                    }
                    c.g(o);
                }
                o.push_str("])");
            }
        }
    }
    pub fn gs(&self) -> String {
        let mut o = String::new();
        self.g(&mut o);
        o
    }
}
pub fn has_kind(seg: &ErasedSegment, kind: sqruff_lib_core::dialects::syntax::SyntaxKind) -> bool {
    seg.get_type() == kind || seg.segments().iter().any(|c| has_kind(c, kind))
}
pub fn ids_unique(t: &T) -> bool {
    let mut v = vec![];
    t.all_ids(&mut v);
    let n = v.len();
    let s: HashSet<u32> = v.into_iter().collect();
    s.len() == n
}

pub fn etype_g(e: EditType) -> &'static str {
    match e {
        EditType::CreateBefore => "CreateBefore",
        EditType::CreateAfter => "CreateAfter",
        EditType::Replace => "Replace",
        EditType::Delete => "Delete",
    }
}
pub fn fix_g(f: &LintFix) -> String {
    let mut o = format!("(mkfix {} {} {} {} [", etype_g(f.edit_type), f.anchor.id(), f.anchor.get_type() as usize, g_str(f.anchor.raw()));
    for (i, e) in f.edit.iter().enumerate() {
        if i > 0 {
            o.push(';');
        }
        conv(e).g(&mut o);
    }
    o.push_str("])");
    o
}
pub fn fix_j(f: &LintFix) -> Value {
    json!({"type": etype_g(f.edit_type), "anchor": f.anchor.id(), "anchor_raw": trunc(f.anchor.raw(), 40),
           "edit": f.edit.iter().map(|e| trunc(e.raw(), 40)).collect::<Vec<_>>()})
}

/// The monitored hypotheses of one batch, computed on the real objects.
pub struct BatchMon {
    pub ids_unique: bool,
    pub edits_fresh: bool,
    pub single_anchor: bool,
    pub code_neutral: bool,
    pub no_source_fixes: bool,
}
impl BatchMon {
    pub fn all(&self) -> bool {
        self.ids_unique && self.edits_fresh && self.single_anchor && self.code_neutral
    }
}
pub fn monitor_batch(b: &BatchRec, before: &T, after: &T) -> BatchMon {
    let keys: HashSet<u32> = b.fixes.iter().map(|f| f.anchor.id()).collect();
    let mut fresh = true;
    let mut nsf = b.before.get_source_fixes().is_empty() && b.after.get_source_fixes().is_empty();
    for f in &b.fixes {
        for e in &f.edit {
            let mut d = vec![];
            conv(e).desc_ids(&mut d);
            if d.iter().any(|i| keys.contains(i)) {
                fresh = false;
            }
            if !e.get_source_fixes().is_empty() {
                nsf = false;
            }
        }
    }
    // entries after the real deduplication (LintFix: PartialEq)
    let mut entries: Vec<(u32, Vec<&LintFix>)> = vec![];
    for f in &b.fixes {
        let id = f.anchor.id();
        let pos = match entries.iter().position(|e| e.0 == id) {
            Some(p) => p,
            None => {
                entries.push((id, vec![]));
                entries.len() - 1
            }
        };
        if !entries[pos].1.iter().any(|g| *g == f) {
            entries[pos].1.push(f);
        }
    }
    let mut single = true;
    for (_, fs) in &entries {
        let n = fs.len();
        let uses = fs.iter().filter(|f| f.edit_type == EditType::CreateBefore || (f.edit_type == EditType::CreateAfter && n == 1)).count();
        if uses > 1 {
            single = false;
        }
    }
    BatchMon {
        ids_unique: ids_unique(before),
        edits_fresh: fresh,
        single_anchor: single,
        code_neutral: before.code_seq() == after.code_seq() && before.comments_sorted() == after.comments_sorted(),
        no_source_fixes: nsf,
    }
}

// ------------------------------------------------------------------ lexing
/// (cls, raw) of every lexer token with a non-empty raw.
pub fn lex_tokens(linter: &Linter, text: &str) -> Result<Vec<(u8, String)>, String> {
    let tables = Tables::default();
    let dialect = linter.config().get_dialect();
    let r = catch(|| dialect.lexer().lex(&tables, StringOrTemplate::String(text)));
    match r {
        Ok(Ok((toks, errs))) => {
            if !errs.is_empty() {
                return Err(format!("{} lex errors", errs.len()));
            }
            Ok(toks.iter().filter(|t| !t.raw().is_empty()).map(|t| (cls_of(t), t.raw().to_string())).collect())
        }
        Ok(Err(e)) => Err(format!("lex error: {:?}", e)),
        Err(p) => Err(format!("lex panic: {}", p)),
    }
}
pub fn code_of(toks: &[(u8, String)]) -> Vec<String> {
    toks.iter().filter(|t| t.0 == 0).map(|t| t.1.clone()).collect()
}
pub fn comments_of(toks: &[(u8, String)]) -> Vec<String> {
    let mut c: Vec<String> = toks.iter().filter(|t| t.0 == 1).map(|t| t.1.clone()).collect();
    c.sort();
    c
}

pub fn fnv(s: &str) -> String {
    let mut h: u64 = 0xcbf29ce484222325;
    for b in s.as_bytes() {
        h ^= *b as u64;
        h = h.wrapping_mul(0x100000001b3);
    }
    format!("{:012x}", h & 0xffff_ffff_ffff)
}

/// Key of a text-level failure: the two source code tokens at the first place where the code
/// token sequences part (the fusion / swallowing site), independent of layout config and whitespace.
pub fn site_key(dialect: &str, a: &[String], b: &[String]) -> String {
    let n = a.len().min(b.len());
    let mut i = 0;
    while i < n && a[i] == b[i] {
        i += 1;
    }
    let tok = |k: usize| -> String {
        a.get(k).map(|s| s.chars().filter(|c| !c.is_whitespace()).take(24).collect::<String>()).unwrap_or_else(|| "<end>".into())
    };
    format!("c06:site:{}:{}+{}", dialect, tok(i).to_ascii_uppercase(), tok(i + 1).to_ascii_uppercase())
}

/// first index where two sequences differ, with a little context
pub fn first_diff(a: &[String], b: &[String]) -> String {
    let n = a.len().min(b.len());
    let mut i = 0;
    while i < n && a[i] == b[i] {
        i += 1;
    }
    let ctx = |v: &[String]| v[i.saturating_sub(2)..(i + 3).min(v.len())].iter().map(|s| trunc(s, 30)).collect::<Vec<_>>();
    format!("at code token {}: before {:?} after {:?} (lengths {} / {})", i, ctx(a), ctx(b), a.len(), b.len())
}

// ------------------------------------------------------------------ input perturbations
/// Replace every whitespace/newline run by `f(run, after_inline_comment)`.
pub fn map_ws_runs(toks: &[(u8, String)], kinds_ws: &dyn Fn(&str) -> bool, mut f: impl FnMut(&str, bool) -> String) -> String {
    let mut out = String::new();
    let mut i = 0;
    let mut prev_inline = false;
    while i < toks.len() {
        if toks[i].0 == 2 && kinds_ws(&toks[i].1) {
            let mut run = String::new();
            while i < toks.len() && toks[i].0 == 2 && kinds_ws(&toks[i].1) {
                run.push_str(&toks[i].1);
                i += 1;
            }
            out.push_str(&f(&run, prev_inline));
            prev_inline = false;
        } else {
            prev_inline = toks[i].0 == 1 && (toks[i].1.starts_with("--") || toks[i].1.starts_with('#') || toks[i].1.starts_with("//"));
            out.push_str(&toks[i].1);
            i += 1;
        }
    }
    out
}
fn is_ws_text(s: &str) -> bool {
    !s.is_empty() && s.bytes().all(is_ascii_ws)
}
pub fn scramble(toks: &[(u8, String)], rng: &mut Rng) -> String {
    const W: &[&str] = &[" ", "  ", "\n", "\n    ", "   \n ", "\t", "\n\n", " \n  ", "     "];
    map_ws_runs(toks, &is_ws_text, |_run, after_inline| {
        let w = W[rng.below(W.len())];
        if after_inline && !w.contains('\n') { format!("\n{}", w) } else { w.to_string() }
    })
}
/// insert comments into whitespace runs: an inline comment ending the line, or a block comment inside / ending the
/// line, with a space around them or touching the code on either side; block comments of one line or of several
/// (starting at a line end, alone on lines, between tokens)
pub fn comment_in(toks: &[(u8, String)], rng: &mut Rng) -> String {
    let mut n = 0;
    map_ws_runs(toks, &is_ws_text, |run, after_inline| {
        if after_inline {
            return run.to_string();
        }
        n += 1;
        match rng.below(14) {
            0 => format!(" -- c{}\n", n),
            1 => format!(" /* c{} */ ", n),
            2 => format!(" /* c{} */\n", n),
            3 => format!("-- c{}\n", n),
            4 => format!("/* c{} */", n),
            5 => format!("/* c{} */\n", n),
            6 => format!(" /* c{}\n   d{} */\n", n, n),
            7 => format!("\n/* c{}\n   d{}\n*/\n", n, n),
            8 => format!("/* c{}\n d{} */ ", n, n),
            _ => run.to_string(),
        }
    })
}
pub fn collapse(toks: &[(u8, String)]) -> String {
    map_ws_runs(toks, &is_ws_text, |run, after_inline| {
        if after_inline && run.contains('\n') { "\n".to_string() } else { " ".to_string() }
    })
}

// ------------------------------------------------------------------ gap variations
/// An input seen as non-whitespace tokens and the gaps around them (`gaps.len() == toks.len() + 1`:
/// before the first token, between neighbours — possibly empty —, after the last token).
pub struct Gapped {
    pub toks: Vec<(u8, String)>,
    pub gaps: Vec<String>,
}
/// The shapes a gap is given: nothing, one space, a line break with the next token at column 0,
/// an empty line, a line break with an indented next token, several spaces.
pub const GAP_SHAPES: &[&str] = &["", " ", "\n", "\n\n", "\n    ", "   "];
fn is_inline_comment(t: &(u8, String)) -> bool {
    t.0 == 1 && (t.1.starts_with("--") || t.1.starts_with('#') || t.1.starts_with("//"))
}
fn is_word_byte(b: u8) -> bool {
    b.is_ascii_alphanumeric() || b == b'_' || b >= 0x80
}
pub fn gapped(toks: &[(u8, String)]) -> Gapped {
    let mut g = Gapped { toks: vec![], gaps: vec![String::new()] };
    for t in toks {
        if t.0 == 2 && is_ws_text(&t.1) {
            g.gaps.last_mut().unwrap().push_str(&t.1);
        } else {
            g.toks.push(t.clone());
            g.gaps.push(String::new());
        }
    }
    g
}
impl Gapped {
    /// The text with some gaps overridden. A gap that follows an inline comment keeps a line break.
    pub fn render(&self, over: &[(usize, &str)]) -> String {
        let mut out = String::new();
        for i in 0..self.gaps.len() {
            let shape: &str = over.iter().find(|o| o.0 == i).map(|o| o.1).unwrap_or(self.gaps[i].as_str());
            if i > 0 && is_inline_comment(&self.toks[i - 1]) && !shape.contains('\n') {
                out.push('\n');
            }
            out.push_str(shape);
            if i < self.toks.len() {
                out.push_str(&self.toks[i].1);
            }
        }
        out
    }
    /// Is `shape` worth trying at gap `i`? Not the shape it has; not the fusion of two words.
    fn admits(&self, i: usize, shape: &str) -> bool {
        if self.gaps[i] == shape {
            return false;
        }
        if shape.is_empty() && i > 0 && i < self.toks.len() {
            let l = self.toks[i - 1].1.as_bytes().last().copied().unwrap_or(b' ');
            let r = self.toks[i].1.as_bytes().first().copied().unwrap_or(b' ');
            if is_word_byte(l) && is_word_byte(r) {
                return false;
            }
        }
        true
    }
    /// Gaps next to a separator of sibling constructs: after `,` `)` `;`, before `,` `;`, and the two ends of the file.
    pub fn separator_gaps(&self) -> Vec<usize> {
        let n = self.toks.len();
        (0..=n)
            .filter(|&i| {
                i == 0
                    || i == n
                    || matches!(self.toks[i - 1].1.as_str(), "," | ")" | ";")
                    || matches!(self.toks[i].1.as_str(), "," | ";")
            })
            .collect()
    }
    pub fn all_gaps(&self) -> Vec<usize> {
        (0..=self.toks.len()).collect()
    }
    /// Every single-gap deviation: each gap of `which` given each other shape.
    pub fn vary1(&self, which: &[usize]) -> Vec<String> {
        let mut v = vec![];
        for &i in which {
            for s in GAP_SHAPES {
                if self.admits(i, s) {
                    v.push(self.render(&[(i, s)]));
                }
            }
        }
        v
    }
    /// Every two-gap deviation over `which`: the sites of one construct list get different shapes.
    pub fn vary2(&self, which: &[usize]) -> Vec<String> {
        let mut v = vec![];
        for (a, &i) in which.iter().enumerate() {
            for &j in &which[a + 1..] {
                for s in GAP_SHAPES {
                    for t in GAP_SHAPES {
                        if self.admits(i, s) && self.admits(j, t) {
                            v.push(self.render(&[(i, s), (j, t)]));
                        }
                    }
                }
            }
        }
        v
    }
}

/// Comments put into a gap so that they touch the code: no space between the comment and the token in
/// front of it and / or behind it; inline comments, block comments of one line and of several lines.
pub const TOUCH_SHAPES: &[&str] = &[
    "-- zq\n",
    "--zq\n    ",
    "/* zq */",
    "/* zq */ ",
    " /* zq */",
    "/* zq */\n",
    "\n/* zq */",
    "/* zq\n   d */",
    "/* zq\n   d */\n",
    "\n    -- zq\n",
];
/// Block comments of several lines (the lexer cuts them at the line breaks): starting at a line end,
/// between tokens, touching the code, alone on lines, with an empty line inside.
pub const ML_SHAPES: &[&str] = &[" /* zq\n   d */\n", " /* zq\n   d */ ", "/* zq\n   d */", "\n/* zq\n   d\n*/\n", " /* zq\n\n   d\n   e */\n"];
impl Gapped {
    /// Each gap of `which` replaced by each comment shape (not behind an inline comment, which would swallow it).
    pub fn vary_comment(&self, which: &[usize], shapes: &[&'static str]) -> Vec<String> {
        let mut v = vec![];
        for &i in which {
            for s in shapes {
                if i > 0 && is_inline_comment(&self.toks[i - 1]) && !s.starts_with('\n') {
                    continue;
                }
                v.push(self.render(&[(i, s)]));
            }
        }
        v
    }
    /// The gaps next to a token an option acts on (`hints`: the option row's hints; symbols match inside
    /// symbol tokens, `=` in `>=`). Hints that are not tokens (line breaks, comments) select every gap.
    pub fn hint_gaps(&self, hints: &[&str]) -> Vec<usize> {
        let sym = |s: &str| !s.is_empty() && s.bytes().all(|b| b.is_ascii_punctuation());
        let hit = |t: &str| {
            let t = t.to_ascii_uppercase();
            hints.iter().any(|h| {
                let h = h.trim();
                !h.is_empty() && (t == h || (sym(h) && sym(&t) && t.contains(h)))
            })
        };
        if hints.iter().any(|h| matches!(h.trim(), "" | "--" | "/*" | "COMMENT")) {
            return self.all_gaps();
        }
        let n = self.toks.len();
        (0..=n).filter(|&i| (i > 0 && hit(&self.toks[i - 1].1)) || (i < n && hit(&self.toks[i].1))).collect()
    }
}
/// Length (in characters) of the line that holds the first `/* zq` of `text`, up to the end of that line.
pub fn comment_line_len(text: &str) -> Option<usize> {
    let p = text.find("/* zq")?;
    let start = text[..p].rfind('\n').map(|i| i + 1).unwrap_or(0);
    let end = text[p..].find('\n').map(|i| p + i).unwrap_or(text.len());
    Some(text[start..end].chars().count())
}

/// Statements with several sibling constructs that a layout rule visits one after the other in one
/// evaluation (CTEs, select targets, set operators, statements, function calls, operators, WHEN
/// branches, value tuples): the inputs of the two-gap variations.
pub const SIBLING_PROBES: &[(&str, &str)] = &[
    ("ansi", "WITH a AS (SELECT 1), b AS (SELECT 2), c AS (SELECT 3) SELECT * FROM a, b, c\n"),
    ("ansi", "WITH a AS (SELECT 1) -- c1\n, b AS (SELECT 2) /* c2 */, c AS (SELECT 3) SELECT * FROM a\n"),
    ("ansi", "WITH a AS (SELECT 1), b AS (WITH c AS (SELECT 2), d AS (SELECT 3) SELECT * FROM c) SELECT * FROM a\n"),
    ("ansi", "SELECT a, b, c FROM t UNION SELECT d, e, f FROM u UNION ALL SELECT g, h, i FROM v\n"),
    ("ansi", "SELECT 1; SELECT 2; SELECT 3;\n"),
    ("ansi", "SELECT DISTINCT a, b FROM t; SELECT DISTINCT c, d FROM u;\n"),
    ("ansi", "SELECT f (a), g (b, c), h (d) FROM t\n"),
    ("ansi", "SELECT a + b - c * d, e || f || g FROM t WHERE a = 1 AND b = 2 OR c = 3\n"),
    ("ansi", "SELECT CASE WHEN a THEN 1 WHEN b THEN 2 ELSE 3 END, CASE WHEN c THEN 4 END FROM t\n"),
    ("ansi", "INSERT INTO t (a, b, c) VALUES (1, 2, 3), (4, 5, 6), (7, 8, 9)\n"),
    ("ansi", "SELECT a FROM t JOIN u ON t.a = u.a JOIN v ON u.b = v.b WHERE a IN (1, 2, 3) ORDER BY a, b DESC, c\n"),
    ("ansi", "CREATE TABLE t (a INT, b INT, c INT); CREATE TABLE u AS WITH x AS (SELECT 1), y AS (SELECT 2) SELECT * FROM x\n"),
    ("postgres", "WITH a AS (SELECT 1), b AS (SELECT 2) INSERT INTO t SELECT * FROM a, b; WITH c AS (SELECT 3), d AS (SELECT 4) SELECT * FROM c\n"),
    ("bigquery", "WITH a AS (SELECT 1), b AS (SELECT 2) SELECT * EXCEPT (x), ARRAY(SELECT 1), STRUCT(1 AS a, 2 AS b) FROM a, b\n"),
    ("snowflake", "WITH a AS (SELECT 1), b AS (SELECT 2) SELECT a:b::string, c[0] FROM a, b QUALIFY ROW_NUMBER() OVER (PARTITION BY a ORDER BY b) = 1\n"),
];

// ------------------------------------------------------------------ configurations
pub struct LayoutCfg {
    pub name: &'static str,
    pub body: &'static str,
}
pub const LAYOUT_CFGS: &[LayoutCfg] = &[
    LayoutCfg { name: "default", body: "" },
    LayoutCfg { name: "tab-indent", body: "[sqruff:indentation]\nindent_unit = tab\n" },
    LayoutCfg { name: "indent2", body: "[sqruff:indentation]\ntab_space_size = 2\n" },
    LayoutCfg { name: "comma-leading", body: "[sqruff:layout:type:comma]\nspacing_before = touch\nline_position = leading\n" },
    LayoutCfg { name: "operator-trailing", body: "[sqruff:layout:type:binary_operator]\nspacing_within = touch\nline_position = trailing\n[sqruff:layout:type:comparison_operator]\nspacing_within = touch\nline_position = trailing\n" },
    LayoutCfg { name: "maxlen40", body: "max_line_length = 40\n" },
    LayoutCfg { name: "maxlen20-after", body: "max_line_length = 20\n[sqruff:indentation]\ntrailing_comments = after\n" },
    LayoutCfg { name: "maxlen0", body: "max_line_length = 0\n" },
    LayoutCfg { name: "comma-leading-maxlen30-tab", body: "max_line_length = 30\n[sqruff:indentation]\nindent_unit = tab\ntrailing_comments = after\n[sqruff:layout:type:comma]\nspacing_before = touch\nline_position = leading\n" },
];
pub fn layout_cfg_by_name(name: &str) -> &'static LayoutCfg {
    if name.starts_with("gen|") {
        return intern_cfg(name);
    }
    LAYOUT_CFGS.iter().find(|c| c.name == name).unwrap_or(&LAYOUT_CFGS[0])
}
/// Generated configurations: the name spells the body (`gen|` + the lines joined by `|`), so a replay
/// input needs nothing but the name. Interned and leaked: a few dozen per process.
fn intern_cfg(name: &str) -> &'static LayoutCfg {
    static GEN: std::sync::Mutex<Option<HashMap<String, &'static LayoutCfg>>> = std::sync::Mutex::new(None);
    let mut g = GEN.lock().unwrap();
    let map = g.get_or_insert_with(HashMap::new);
    if let Some(c) = map.get(name) {
        return c;
    }
    let body = format!("{}\n", name["gen|".len()..].replace('|', "\n"));
    let c: &'static LayoutCfg = Box::leak(Box::new(LayoutCfg { name: Box::leak(name.to_string().into_boxed_str()), body: Box::leak(body.into_boxed_str()) }));
    map.insert(name.to_string(), c);
    c
}
pub fn gen_cfg(body: &str) -> &'static LayoutCfg {
    intern_cfg(&format!("gen|{}", body.trim_end().replace('\n', "|")))
}
/// Every layout option of the configuration file at every value other than its default (the option
/// rows of `c17::KNOBS`), one option per configuration, with what a token next to a gap has to be
/// for the option to act there (the row's hints), and optionally a line length limit.
pub fn knob_cfgs(limit: Option<usize>) -> Vec<(&'static LayoutCfg, &'static [&'static str])> {
    let mut v = vec![];
    for (k, row) in crate::c17::KNOBS.iter().enumerate() {
        for j in 0..row.2.len() {
            v.push((gen_cfg(&crate::c17::knob_config(limit, &[(k, j)])), row.3));
        }
    }
    v
}
/// Some options together: the ones that move commas, operators and trailing comments.
pub fn knob_combos(limit: Option<usize>) -> Vec<&'static LayoutCfg> {
    let find = |sec: &str, key: &str| crate::c17::KNOBS.iter().position(|r| r.0 == sec && r.1 == key).expect("knob");
    let (bin, cmp, comma, tc, icl) = (
        find("layout:type:binary_operator", "line_position"),
        find("layout:type:comparison_operator", "line_position"),
        find("layout:type:comma", "line_position"),
        find("indentation", "trailing_comments"),
        find("rules:layout.long_lines", "ignore_comment_lines"),
    );
    [vec![(bin, 0), (cmp, 0)], vec![(bin, 0), (cmp, 0), (comma, 0)], vec![(bin, 0), (tc, 0)], vec![(comma, 0), (tc, 0)], vec![(cmp, 0), (icl, 0)]]
        .iter()
        .map(|ch| gen_cfg(&crate::c17::knob_config(limit, ch)))
        .collect()
}
pub fn mk_linter(dialect: &str, rules: &str, cfg: &LayoutCfg) -> Linter {
    // keys of the [sqruff] section come first; cfg.body may start with such keys
    let (core_keys, sections): (String, String) = match cfg.body.find('[') {
        Some(0) => (String::new(), cfg.body.to_string()),
        Some(p) => (cfg.body[..p].to_string(), cfg.body[p..].to_string()),
        None => (cfg.body.to_string(), String::new()),
    };
    let src = format!("[sqruff]\ndialect = {}\nrules = {}\n{}{}", dialect, rules, core_keys, sections);
    Linter::new(FluffConfig::from_source(&src, None), None, None, true)
}

pub type Linters = HashMap<(String, String, String), Linter>;
pub fn linter<'a>(ls: &'a mut Linters, dialect: &str, rules: &str, cfg: &'static LayoutCfg) -> &'a Linter {
    // every Linter owns an expanded dialect grammar (several MB): bound the per-thread cache
    if ls.len() >= 12 && !ls.contains_key(&(dialect.to_string(), rules.to_string(), cfg.name.to_string())) {
        ls.clear();
    }
    ls.entry((dialect.to_string(), rules.to_string(), cfg.name.to_string())).or_insert_with(|| mk_linter(dialect, rules, cfg))
}

/// A linter with the configuration of `base` and another rule selection (the `rules` key of the
/// `[sqruff]` section and the allow-list `FluffConfig::new` derives from it), without expanding the
/// dialect grammar again. `selection_equals_configured` ties it to a linter built from the source text.
pub fn with_rules(base: &Linter, rules: &str) -> Linter {
    use sqruff_lib::core::config::Value as CV;
    let mut c = base.config().clone();
    if let Some(core) = c.raw.get_mut("core").and_then(|v| v.as_map_mut()) {
        core.insert("rules".into(), CV::String(rules.into()));
        core.insert("rule_allowlist".into(), CV::Array(rules.split(',').map(|r| CV::String(r.trim().into())).collect()));
    }
    Linter::new(c, None, None, true)
}
/// Per-thread state: the expensive linters (`rules = layout`) and the cheap re-selections of them.
#[derive(Default)]
pub struct St {
    pub ls: Linters,
    pub sel: Linters,
}
pub fn linter_for<'a>(st: &'a mut St, dialect: &str, rules: &str, cfg: &'static LayoutCfg) -> &'a Linter {
    if rules == "layout" {
        return linter(&mut st.ls, dialect, rules, cfg);
    }
    let key = (dialect.to_string(), rules.to_string(), cfg.name.to_string());
    if !st.sel.contains_key(&key) {
        let l = with_rules(linter(&mut st.ls, dialect, "layout", cfg), rules);
        if st.sel.len() >= 8 {
            st.sel.clear();
        }
        st.sel.insert(key.clone(), l);
    }
    &st.sel[&key]
}
/// The codes of the layout rules.
pub const LAYOUT_RULES: &[&str] = &["LT01", "LT02", "LT03", "LT04", "LT05", "LT06", "LT07", "LT08", "LT09", "LT10", "LT11", "LT12", "LT13"];

// ------------------------------------------------------------------ one item
pub struct Item {
    pub cls: &'static str,
    pub dialect: String,
    pub cfg: &'static LayoutCfg,
    /// the rule selection: `layout`, or layout rule codes
    pub rules: String,
    /// > 0: after the run, run the input again under each rule that proposed fixes, selected alone
    /// (1: LT02 alone only for the probes; 2: always)
    pub each_alone: u8,
    pub sql: String,
    pub emit_cases: bool,
    /// > 0: do not lint; parse and drive `apply_fixes` directly with this many synthetic batches
    pub synth: usize,
}

const MAX_CASE_LEAVES: usize = 260;
const MAX_RUN_LEAVES: usize = 120;

fn run_one(st: &mut St, it: &Item, out: &mut Buf) {
    if it.synth > 0 {
        return run_synth(&mut st.ls, it, out);
    }
    let fired = run_fix(st, it, out);
    if it.each_alone > 0 {
        // "only layout rules selected" also means fewer of them: a rule selected alone meets the input
        // as written, not as the rules before it in the pack have left it
        for rule in fired {
            // LT01 is first in the pack: alone it repeats its first evaluation. LT02 (second, pure
            // re-indentation through the reflow engine) proposes fixes for nearly every input: it is
            // run alone on the probes only unless `each_alone` asks for all (thorough tier).
            if rule == "LT01" || (rule == "LT02" && it.each_alone == 1 && it.cls != "probe") {
                continue;
            }
            let solo = Item { cls: "alone", dialect: it.dialect.clone(), cfg: it.cfg, rules: rule.to_string(), each_alone: 0, sql: it.sql.clone(), emit_cases: false, synth: 0 };
            run_fix(st, &solo, out);
        }
    }
    compact(out);
}

/// The buffers of all items live until the end of the run: drop the examples of the monitor
/// evaluations that held (only a failing one is ever shown) and merge the counters.
fn compact(out: &mut Buf) {
    let mut counts: Vec<(String, u64)> = vec![];
    let mut n_ok: Vec<(String, u64)> = vec![];
    let mut kept: Vec<Value> = vec![];
    for mut l in std::mem::take(&mut out.lines) {
        match l["t"].as_str().unwrap_or("") {
            "count" => {
                let (name, n) = (l["name"].as_str().unwrap_or("").to_string(), l["n"].as_u64().unwrap_or(0));
                match counts.iter_mut().find(|c| c.0 == name) {
                    Some(c) => c.1 += n,
                    None => counts.push((name, n)),
                }
            }
            "hyp1" if l["ok"].as_bool().unwrap_or(false) => {
                l["example"] = Value::Null;
                kept.push(l);
            }
            "direct_ok" => {
                let cls = l["cls"].as_str().unwrap_or("").to_string();
                match n_ok.iter_mut().find(|c| c.0 == cls) {
                    Some(c) => c.1 += 1,
                    None => n_ok.push((cls, 1)),
                }
                kept.push(l);
            }
            _ => kept.push(l),
        }
    }
    let _ = n_ok;
    out.lines = kept;
    for (name, n) in counts {
        out.count(&name, n as usize);
    }
}

/// One fix run with every observation; returns the rules that proposed fixes.
fn run_fix(st: &mut St, it: &Item, out: &mut Buf) -> Vec<&'static str> {
    let lt = linter_for(st, &it.dialect, &it.rules, it.cfg);
    let input = if it.rules == "layout" {
        json!({"dialect": it.dialect, "cfg": it.cfg.name, "sql": it.sql})
    } else {
        json!({"dialect": it.dialect, "cfg": it.cfg.name, "rules": it.rules, "sql": it.sql})
    };
    if it.rules != "layout" {
        out.count("inputs_with_rule_subset", 1);
    }
    out.count("inputs", 1);
    let src_toks = match lex_tokens(lt, &it.sql) {
        Ok(t) => t,
        Err(_) => {
            out.count("skipped_unlexable_source", 1);
            return vec![];
        }
    };
    install_hook();
    let r = catch(|| {
        let lf = lt.lint_string(&it.sql, None, true);
        lf.fix_string()
    });
    let rec = take_rec();
    let fixed = match r {
        Ok(s) => s,
        Err(_) => {
            // a crash of fix is C03's subject; nothing to observe for C06
            out.count("skipped_fix_panicked", 1);
            return vec![];
        }
    };
    let (Some(start), Some(end)) = (rec.start.as_ref(), rec.end.as_ref()) else {
        out.count("skipped_no_tree", 1);
        return vec![];
    };
    let t0 = conv(start);
    let tf = conv(end);
    if std::env::var("SQV_SHOW").is_ok() {
        fn show(s: &ErasedSegment, d: usize) {
            eprintln!("{}{:?} #{} {:?}", "  ".repeat(d), s.get_type(), s.id(), if s.segments().is_empty() { s.raw().to_string() } else { String::new() });
            for c in s.segments() {
                show(c, d + 1);
            }
        }
        show(start, 0);
        for b in &rec.batches {
            {
                let mut v = vec![];
                conv(&b.before).all_ids(&mut v);
                let mut seen = HashSet::new();
                let dups: Vec<u32> = v.iter().filter(|i| !seen.insert(**i)).cloned().collect();
                if !dups.is_empty() {
                    eprintln!("DUP IDS before {} pass {}: {:?}", b.rule, b.pass, dups);
                }
            }
            if std::env::var("SQV_SHOW").map(|v| v == b.rule).unwrap_or(false) {
                show(&b.before, 0);
            }
            eprintln!("BATCH {} pass {} accepted {}: {}", b.rule, b.pass, b.accepted, serde_json::to_string(&b.fixes.iter().map(fix_j).collect::<Vec<_>>()).unwrap());
        }
        eprintln!("FIXED: {:?}", fixed);
    }
    let hkey = fnv(&it.sql);
    let unparsable = has_kind(start, sqruff_lib_core::dialects::syntax::SyntaxKind::Unparsable);
    if unparsable {
        out.count("inputs_with_unparsable_section", 1);
    }
    let mut input = input;
    if unparsable {
        input["unparsable_section"] = json!(true);
    }
    let input = input;
    let mut fired: Vec<&'static str> = vec![];
    for b in &rec.batches {
        if !fired.contains(&b.rule) {
            fired.push(b.rule);
        }
    }
    out.hyp("parsed_tree_spells_source", "blocking", t0.raw() == it.sql.replace("\r\n", "\n"), json!({"input": input}));
    out.hyp("parsed_tree_holds_lexed_tokens", "blocking", t0.code_seq() == code_of(&src_toks) && t0.comments_sorted() == comments_of(&src_toks), json!({"input": input}));
    out.count("batches", rec.batches.len());
    if !rec.batches.is_empty() {
        out.count("inputs_with_fixes", 1);
    }

    // ---- per batch: monitors + correspondence
    let mut all_ok = true;
    let mut convs: Vec<(T, T)> = vec![];
    for b in &rec.batches {
        let before = conv(&b.before);
        let after = conv(&b.after);
        let m = monitor_batch(b, &before, &after);
        let ex = |what: &str| json!({"input": input, "rule": b.rule, "pass": b.pass, "what": what, "fixes": b.fixes.iter().take(6).map(fix_j).collect::<Vec<_>>()});
        out.hyp("ids_unique", "blocking", m.ids_unique, ex("ids_unique"));
        // diagnostic: a rule may *move* a segment (delete it at one anchor and create the same object at another in one batch: LT03
        // with trailing operators does); its id is then not fresh, but it is not duplicated either - `ids_unique` on the resulting
        // tree stays blocking
        out.hyp("edits_fresh", "diagnostic", m.edits_fresh, ex("edits_fresh"));
        out.hyp("single_anchor", "blocking", m.single_anchor, ex("single_anchor"));
        out.hyp("no_source_fixes", "blocking", m.no_source_fixes, ex("no_source_fixes"));
        if !m.code_neutral {
            let msg = format!("batch of {} (pass {}) is not code-neutral: {}", b.rule, b.pass, first_diff(&before.code_seq(), &after.code_seq()));
            out.direct("batch-code-neutral", false, &format!("c06:neutral:{}:{}:{}", it.dialect, b.rule, hkey), &msg, input.clone());
        } else {
            out.direct("batch-code-neutral", true, "", "", Value::Null);
        }
        all_ok &= m.all();
        out.count(&format!("batches_{}", b.rule), 1);
        {
            // which edit types one evaluation of the rule mixes (coverage of the rules' hand-built fixes)
            let mut kinds: Vec<&str> = b.fixes.iter().map(|f| etype_g(f.edit_type)).collect();
            kinds.sort();
            kinds.dedup();
            if kinds.len() >= 2 {
                out.count(&format!("mixed_batches_{}_{}", b.rule, kinds.join("+")), 1);
            }
        }
        convs.push((before, after));
    }
    // ---- the loop threads the tree as the model says: the next batch starts from the previous
    // result iff that result's text was new, else from the unchanged tree; the run ends there too
    {
        let mut seen: HashSet<String> = HashSet::new();
        seen.insert(t0.raw());
        let mut cur: &T = &t0;
        for (k, b) in rec.batches.iter().enumerate() {
            let (before, after) = &convs[k];
            let ex = || json!({"input": input, "batch": k, "rule": b.rule, "pass": b.pass});
            out.hyp("loop_threads_tree", "blocking", before == cur, ex());
            let fresh_text = seen.insert(after.raw());
            out.hyp("acceptance_is_unseen_text", "blocking", b.accepted == fresh_text, ex());
            if fresh_text {
                cur = after;
            }
        }
        out.hyp("loop_threads_tree", "blocking", &tf == cur, json!({"input": input, "batch": "end"}));
        // the final tree too must have unique ids (the next fix run, e.g. in the LSP, starts from it)
        out.hyp("ids_unique", "blocking", ids_unique(&tf), json!({"input": input, "what": "ids_unique of the final tree"}));
    }
    if it.emit_cases {
        for (k, b) in rec.batches.iter().enumerate() {
            let (before, after) = &convs[k];
            if before.n_leaves() > MAX_CASE_LEAVES {
                out.count("batch_cases_skipped_size", 1);
                continue;
            }
            let args = g_tuple(&[before.gs(), g_list(b.fixes.iter().map(fix_g))]);
            let exp = after.gs();
            let kinds: HashSet<&str> = b.fixes.iter().map(|f| etype_g(f.edit_type)).collect();
            let sample = json!({"input": input, "rule": b.rule, "pass": b.pass, "n_fixes": b.fixes.len(), "fixes": b.fixes.iter().take(8).map(fix_j).collect::<Vec<_>>()});
            out.case("batch", &format!("{}:{}", it.cls, b.rule), kinds.len() >= 2 || b.fixes.len() >= 3, args, exp, sample);
        }
        if t0.n_leaves() <= MAX_RUN_LEAVES && !rec.batches.is_empty() && rec.batches.len() <= 30 {
            let args = g_tuple(&[t0.gs(), g_list(rec.batches.iter().map(|b| g_list(b.fixes.iter().map(fix_g))))]);
            let exp = g_tuple(&[tf.gs(), g_bool(all_ok)]);
            let n_rej = rec.batches.iter().filter(|b| !b.accepted).count();
            let sample = json!({"input": input, "batches": rec.batches.len(), "rejected": n_rej, "rules": rec.batches.iter().map(|b| b.rule).collect::<Vec<_>>()});
            out.case("run", it.cls, rec.batches.len() >= 2, args, exp, sample);
            if n_rej > 0 {
                out.count("runs_with_rejected_batch", 1);
            }
        }
    }

    // ---- final tree: re-lex stability, and the property itself on the text
    match lex_tokens(lt, &fixed) {
        Err(e) => {
            out.direct("text", false, &format!("c06:unlexable-output:{}:{}", it.dialect, hkey), &format!("fix output does not lex: {}", e), input.clone());
        }
        Ok(fx_toks) => {
            let relex = code_of(&fx_toks) == tf.code_seq() && comments_of(&fx_toks) == tf.comments_sorted();
            out.hyp("relex_stable", "diagnostic", relex, json!({"input": input}));
            let code_ok = code_of(&src_toks) == code_of(&fx_toks);
            let comm_ok = comments_of(&src_toks) == comments_of(&fx_toks);
            let key = if !code_ok {
                site_key(&it.dialect, &code_of(&src_toks), &code_of(&fx_toks))
            } else if !comm_ok {
                format!("c06:comments:{}:{}", it.dialect, hkey)
            } else {
                site_key(&it.dialect, &tf.code_seq(), &code_of(&fx_toks))
            };
            if !code_ok {
                let msg = format!("code tokens changed by layout fix: {}", first_diff(&code_of(&src_toks), &code_of(&fx_toks)));
                out.direct("text-code", false, &key, &msg, input.clone());
            } else {
                out.direct("text-code", true, "", "", Value::Null);
            }
            if !comm_ok {
                out.direct("text-comments", false, &key, "comment multiset changed by layout fix", input.clone());
            } else {
                out.direct("text-comments", true, "", "", Value::Null);
            }
            if !relex {
                let msg = format!("final tree and lex(fix(source)) differ: {}", first_diff(&tf.code_seq(), &code_of(&fx_toks)));
                out.direct("tree-vs-relex", false, &key, &msg, input.clone());
            } else {
                out.direct("tree-vs-relex", true, "", "", Value::Null);
            }
            out.hyp("fixed_is_final_tree_text", "blocking", fixed == tf.raw(), json!({"input": input}));
            if fixed != it.sql {
                out.count("inputs_changed_by_fix", 1);
            }
        }
    }
    fired
}


// ------------------------------------------------------------------ synthetic batches, kernel level
/// Drive `compute_anchor_edit_info` + `ErasedSegment::apply_fixes` directly (public API) with random
/// batches over a real parsed tree: every edit type, pairs in both orders, duplicates, conflicting
/// entries, anchors on tokens / nodes / the root / a segment that is not in the tree, fresh and
/// moved (same id) edit segments, edit nodes. Group `synth`: Gallina `apply_batch` must equal the result.
fn run_synth(ls: &mut Linters, it: &Item, out: &mut Buf) {
    use sqruff_lib_core::dialects::syntax::SyntaxKind;
    use sqruff_lib_core::linter::compute_anchor_edit_info;
    use sqruff_lib_core::parser::segments::base::SegmentBuilder;
    let lt = linter(ls, &it.dialect, "layout", it.cfg);
    let tables = Tables::default();
    let Ok(Ok(parsed)) = catch(|| lt.parse_string(&tables, &it.sql, None)) else {
        out.count("synth_skipped_unparsed", 1);
        return;
    };
    let Some(tree) = parsed.tree else { return };
    let before = conv(&tree);
    if before.n_leaves() > 90 {
        return;
    }
    let all = tree.recursive_crawl_all(false);
    if all.len() < 4 {
        return;
    }
    let mut rng = Rng::new(u64::from_str_radix(&fnv(&it.sql), 16).unwrap_or(7));
    for round in 0..it.synth {
        let fresh = |rng: &mut Rng| -> ErasedSegment {
            let id = tables.next_id();
            match rng.below(5) {
                0 => SegmentBuilder::whitespace(id, " "),
                1 => SegmentBuilder::newline(id, "\n"),
                2 => SegmentBuilder::whitespace(id, "    "),
                3 => SegmentBuilder::token(id, "-- c", SyntaxKind::InlineComment).finish(),
                _ => SegmentBuilder::keyword(id, "KW"),
            }
        };
        let edit = |rng: &mut Rng| -> Vec<ErasedSegment> {
            let n = rng.range(1, 2);
            (0..n)
                .map(|_| if rng.chance(1, 6) { all[rng.range(1, all.len() - 1)].clone() } else { fresh(rng) })
                .collect()
        };
        let mut fixes: Vec<LintFix> = vec![];
        let n_anchor = rng.range(1, 5);
        for _ in 0..n_anchor {
            let a = match rng.below(20) {
                0 => all[0].clone(),                                 // the root: never met
                1 => SegmentBuilder::whitespace(tables.next_id(), " "), // not in the tree: dropped
                _ => all[rng.range(1, all.len() - 1)].clone(),
            };
            match rng.below(12) {
                11 => {
                    // a same-raw replacement (`is_just_source_edit`), sometimes after another replace:
                    // the latter is the `unimplemented!()` of AnchorEditInfo::add
                    if rng.chance(1, 2) {
                        fixes.push(LintFix::replace(a.clone(), edit(&mut rng), None));
                    }
                    fixes.push(LintFix::replace(a.clone(), vec![a], None));
                }
                0 => fixes.push(LintFix::delete(a)),
                1 => fixes.push(LintFix::replace(a, edit(&mut rng), None)),
                2 => fixes.push(LintFix::create_before(a, edit(&mut rng))),
                3 => fixes.push(LintFix::create_after(a, edit(&mut rng), None)),
                4 => {
                    fixes.push(LintFix::create_before(a.clone(), edit(&mut rng)));
                    fixes.push(LintFix::create_after(a, edit(&mut rng), None));
                }
                5 => {
                    fixes.push(LintFix::create_after(a.clone(), edit(&mut rng), None));
                    fixes.push(LintFix::create_before(a, edit(&mut rng)));
                }
                6 => {
                    // the same fix twice (deduplicated by PartialEq: same raws)
                    let e = vec![SegmentBuilder::whitespace(tables.next_id(), " ")];
                    let e2 = vec![SegmentBuilder::whitespace(tables.next_id(), " ")];
                    fixes.push(LintFix::create_after(a.clone(), e, None));
                    fixes.push(LintFix::create_after(a, e2, None));
                }
                7 => {
                    fixes.push(LintFix::create_after(a.clone(), edit(&mut rng), None));
                    fixes.push(LintFix::delete(a));
                }
                8 => {
                    fixes.push(LintFix::create_before(a.clone(), edit(&mut rng)));
                    fixes.push(LintFix::create_after(a.clone(), edit(&mut rng), None));
                    fixes.push(LintFix::replace(a, edit(&mut rng), None));
                }
                9 => {
                    fixes.push(LintFix::delete(a.clone()));
                    fixes.push(LintFix::delete(a));
                }
                _ => {
                    fixes.push(LintFix::create_after(a.clone(), edit(&mut rng), None));
                    fixes.push(LintFix::create_after(a, edit(&mut rng), None));
                }
            }
        }
        if rng.chance(1, 2) {
            rng.shuffle(&mut fixes);
        }
        let args = g_tuple(&[before.gs(), g_list(fixes.iter().map(fix_g))]);
        let fixes_j: Vec<Value> = fixes.iter().map(fix_j).collect();
        let r = catch(|| {
            let mut info = compute_anchor_edit_info(fixes.clone().into_iter());
            let (t, _, _, _) = tree.apply_fixes(&mut info);
            t
        });
        out.count("synth_batches", 1);
        let sample = json!({"input": {"dialect": it.dialect, "cfg": it.cfg.name, "sql": it.sql, "synth": it.synth}, "round": round, "fixes": fixes_j});
        match r {
            Ok(t) => {
                let after = conv(&t);
                if std::env::var("SQV_SHOW").is_ok() {
                    eprintln!("ROUND {} fixes {}", round, serde_json::to_string(&fixes_j).unwrap());
                    eprintln!("  BEFORE {}", before.gs());
                    eprintln!("  AFTER  {}", after.gs());
                }
                out.case("synth", "synth", fixes.len() >= 3, args, format!("(Some {})", after.gs()), sample);
            }
            Err(msg) => {
                // `unimplemented!()` of AnchorEditInfo::add is modelled (None); panics of the position
                // code are not: only the former is compared
                if msg.contains("not implemented") {
                    out.count("synth_add_unimplemented", 1);
                    out.case("synth", "synth-panic", true, args, "None".to_string(), sample);
                } else {
                    out.count("synth_unmodelled_panic", 1);
                    out.hyp("synth_no_unmodelled_panic", "diagnostic", false, json!({"msg": msg, "sample": sample}));
                }
            }
        }
    }
}

/// hand-written probes: token pairs that spacing rules might make touch
pub const FUSION_PROBES: &[(&str, &str)] = &[
    ("ansi", "SELECT 1 - -2\n"),
    ("ansi", "SELECT 1 - - 2\n"),
    ("ansi", "SELECT a - -b FROM t\n"),
    ("ansi", "SELECT - -1\n"),
    ("ansi", "SELECT a -\n-1 FROM t\n"),
    ("ansi", "SELECT 1 -\n    -2 FROM t\n"),
    ("ansi", "SELECT a / -b, a * -b, a + +b FROM t\n"),
    ("ansi", "SELECT a FROM t WHERE a < - 1 AND b > -1\n"),
    ("ansi", "SELECT a . b FROM t\n"),
    ("ansi", "SELECT t . * FROM t\n"),
    ("ansi", "SELECT a [ 1 ] FROM t\n"),
    ("ansi", "SELECT a :: int FROM t\n"),
    ("ansi", "SELECT 1 ; ; SELECT 2 ;\n"),
    ("ansi", "SELECT f ( a , b ) FROM t\n"),
    ("ansi", "SELECT a , b , c FROM t\n"),
    ("ansi", "SELECT a\n, b\n, c FROM t -- trailing comment that is very long and exceeds the maximum line length for sure\n"),
    ("ansi", "SELECT a /* c1 */ , /* c2 */ b FROM t\n"),
    ("ansi", "SELECT a -- c1\n, b -- c2\nFROM t\n"),
    ("ansi", "SELECT --c\n a FROM t\n"),
    ("ansi", "SELECT /* c */\n a FROM t\n"),
    ("ansi", "SELECT DISTINCT --c\n a FROM t\n"),
    ("ansi", "SELECT a, --c\n b FROM --c\n t WHERE --c\n a = 1 ORDER BY --c\n a\n"),
    ("ansi", "SELECT a FROM t JOIN --c\n u ON --c\n t.a = u.a\n"),
    ("ansi", "SELECT CASE --c\n WHEN a THEN b END, f( --c\n a) FROM t\n"),
    ("ansi", "WITH x AS --c\n (SELECT 1) SELECT * FROM x\n"),
    ("postgres", "SELECT a :: int, b -> 'x', c ->> 'y' FROM t\n"),
    ("postgres", "SELECT 1 - -2, a @> b, a || - b FROM t\n"),
    ("bigquery", "SELECT a [ OFFSET ( 0 ) ] , b . c FROM t\n"),
    ("snowflake", "SELECT a : b :: string , c [ 0 ] FROM t\n"),
    ("mysql", "SELECT 1 - -2 , `a` . `b` FROM t\n"),
];

/// several lines with operators, commas and keywords at line starts and line ends, long and short lines: what the
/// comment placements (d) and (e) are applied to besides the one-line probes
pub const COMMENT_PROBES: &[(&str, &str)] = &[
    ("ansi", "SELECT\n    1\n    + 2\n    - 3 AS x,\n    a\n    || b AS y\nFROM t\nWHERE a = 1\n    AND b\n    >= 2\n"),
    ("ansi", "SELECT\n    a +\n    b,\n    c\n    , d\nFROM t\nWHERE\n    a =\n    1 OR\n    b < 2\n"),
    ("ansi", "select aaaaaaaaaaaaaaaaaaaaaaaaaaaaaaaaaaaa, bbbbbbbbbbbbbbbbbbbbbbbbbbbbbbbbbbbbbbbb, ccccccccccccccccccccccccccc\nfrom t\n"),
    ("postgres", "select o.id, o.total\nfrom orders o\njoin customers c on o.customer_id = c.id\nwhere o.status = 1\n  and o.total\n  >= 100\n"),
    ("bigquery", "select\n  total\n  >= 100 as big,\n  case when a then 1 else 2 end as c\nfrom t\n"),
    ("snowflake", "with x as (\n    select 1 as a\n)\nselect a\nfrom x\nwhere a = 1\n"),
];

/// minimised earlier failures that need a particular layout configuration
pub const CFG_PROBES: &[(&str, &str, &str)] = &[
    // LT05 moves the trailing comment inside the function name node; LT01 (touch:inline) then
    // stripped the line break after it and the comment swallowed the code
    ("ansi", "operator-trailing", "SELECT a\n   ||     to_varchar(date_part(hour, ts), 'xxxxxxxxxxxxxxxxxxxxxxxxxxxxxxxxxxxxxxxxxxxxxxxxxxxxxxxxxxxxx')  -- Concatenate labels and column values to output meaningful filenames.\nFROM t\n"),
    ("ansi", "operator-trailing", "SELECT a\n   ||     to_varchar(date_part(hour, ts), 'xxxxxxxxxxxxxxxxxxxxxxxxxxxxxxxxxxxxxxxxxxxxxxxxxxxxxxxxxxxxx')  -- Concatenate labels and column values to output meaningful filenames\nFROM t\n"),
    // LT05 moves the trailing comment in front of the first `select` of the line (inside its
    // select clause); LT10 then took the comment for the SELECT keyword and moved `as struct` before `select`
    ("bigquery", "default", "select as struct '1' as bb, 2 as aa; select distinct as struct '1' as bb, 2 as aa; -- Example of explicitly building a struct in a select clause.\n"),
    // LT08 inserted the same newline segment twice (duplicate id)
    ("ansi", "default", "WITH a AS (SELECT 1), b AS (SELECT 2) SELECT * FROM a\n"),
    ("ansi", "default", "WITH a AS (\n    SELECT 1\n), b AS (\n    SELECT 2\n)\n\nSELECT * FROM a\n"),
    // doubled unary operator
    ("ansi", "default", "SELECT 8 | ~ ~ ~4, - - 1, a - -1\n"),
    ("sparksql", "maxlen40", "SELECT /*+ COALESCE(3) */ a, b, c FROM t; SELECT /*+ REPARTITION(3) */ a, b, c FROM t; -- multiple partitioning hints\nSELECT /*+ REBALANCE */ a, b, c FROM t;\n"),
    ("postgres", "default", "drop procedure delete_actor, update_actor CASCADE;\n"),
    ("postgres", "maxlen20-after", "drop procedure delete_actor,\nupdate_actor\nCASCADE;\n"),
    // LT09, single select target followed by a trailing comma / an unparsable remainder: the target was
    // re-inserted after SELECT and also moved, with everything up to the last whitespace, behind the clause
    ("bigquery", "default", "SELECT\n    c1\n    ,\n"),
    ("ansi", "default", "SELECT\n    c1,\n{{ \"c2\" }}\n"),
    ("ansi", "default", "SELECT a . b(5,\n    10)\n"),
    ("snowflake", "default", "CREATE OR REPLACE EXTERNAL FUNCTION f(a VARCHAR) RETURNS VARIANT API_INTEGRATION = x REQUEST_TRANSLATOR = db.s.fn RESPONSE_TRANSLATOR = db.s.fn2 AS 'https://x/y';\n"),
];

pub fn main(args: &Args) {
    silence_panics();
    // `--chunk k/n`: this process is a child of the run (see the end of this function)
    let chunk: Option<(usize, usize)> = args.flag("--chunk").and_then(|s| {
        let (k, n) = s.split_once('/')?;
        Some((k.parse().ok()?, n.parse().ok()?))
    });
    let replaying = args.flag("--replay-input").is_some();
    let mut out = Out::new(if chunk.is_some() { std::path::Path::new("/dev/null") } else { &args.out });
    let mut rng = Rng::new(args.seed);
    let mut items: Vec<Item> = vec![];

    if let Some(path) = args.flag("--replay-input") {
        let v: Value = serde_json::from_str(&std::fs::read_to_string(path).unwrap()).unwrap();
        let v = if v.get("input").is_some() { v["input"].clone() } else { v };
        items.push(Item {
            cls: "replay",
            dialect: v["dialect"].as_str().unwrap_or("ansi").to_string(),
            cfg: layout_cfg_by_name(v["cfg"].as_str().unwrap_or("default")),
            sql: v["sql"].as_str().unwrap_or("").to_string(),
            rules: v["rules"].as_str().unwrap_or("layout").to_string(),
            each_alone: 0,
            emit_cases: true,
            synth: v["synth"].as_u64().unwrap_or(0) as usize,
        });
    } else {
        for (d, sql) in FUSION_PROBES {
            if !DIALECTS.contains(d) {
                continue;
            }
            for cfg in LAYOUT_CFGS.iter().take(if args.thorough() { LAYOUT_CFGS.len() } else { 4 }) {
                items.push(Item { cls: "probe", dialect: d.to_string(), cfg, sql: sql.to_string(), rules: "layout".to_string(), each_alone: if args.thorough() { 2 } else { 1 }, emit_cases: true, synth: 0 });
            }
        }
        for (d, c, sql) in CFG_PROBES {
            items.push(Item { cls: "probe", dialect: d.to_string(), cfg: layout_cfg_by_name(c), sql: sql.to_string(), rules: "layout".to_string(), each_alone: if args.thorough() { 2 } else { 1 }, emit_cases: true, synth: 0 });
        }
        let corpus = corpus();
        // the hand-written configurations, every layout option alone at every non-default value, some of them together
        let mut cfg_pool: Vec<&'static LayoutCfg> = LAYOUT_CFGS.iter().collect();
        cfg_pool.extend(knob_cfgs(None).iter().map(|c| c.0));
        cfg_pool.extend(knob_combos(None));
        cfg_pool.extend(knob_combos(Some(40)));
        // per-thread lexers are needed for the perturbations: build them here, single-threaded, with throwaway linters
        let mut gen_linters: HashMap<String, Linter> = HashMap::new();
        let (stride, n_cfg_per_file, max_len) = if args.thorough() { (1usize, 4usize, 12000usize) } else { (4usize, 1usize, 2500usize) };
        let mut case_budget = if args.thorough() { 2500usize } else { 420usize };
        let mut synth_budget = if args.thorough() { 6000usize } else { 600usize };
        for (k, f) in corpus.iter().enumerate() {
            if !DIALECTS.contains(&f.dialect.as_str()) || f.text.len() > max_len {
                continue;
            }
            if (k + args.seed as usize) % stride != 0 {
                continue;
            }
            let gl = gen_linters.entry(f.dialect.clone()).or_insert_with(|| mk_linter(&f.dialect, "layout", &LAYOUT_CFGS[0]));
            let Ok(toks) = lex_tokens(gl, &f.text) else { continue };
            let variants: Vec<(&'static str, String)> = vec![
                ("corpus", f.text.clone()),
                ("scrambled", scramble(&toks, &mut rng)),
                ("collapsed", collapse(&toks)),
                ("commented", comment_in(&toks, &mut rng)),
                // comments behind the code of a line and comment-only lines after it, lines joined (c17's disturbances)
                ("commentate", {
                    let t = if rng.chance(1, 2) { crate::c17::joinlines(&mut rng, &f.text) } else { f.text.clone() };
                    let m = rng.below(4);
                    crate::c17::commentate(&mut rng, &t, m)
                }),
            ];
            if f.text.len() < 600 && synth_budget > 0 {
                let n = if args.thorough() { 12 } else { 6 };
                synth_budget = synth_budget.saturating_sub(n);
                items.push(Item { cls: "synth", dialect: f.dialect.clone(), cfg: &LAYOUT_CFGS[0], sql: f.text.clone(), rules: "layout".to_string(), each_alone: 0, emit_cases: true, synth: n });
            }
            for (cls, sql) in variants {
                for j in 0..n_cfg_per_file {
                    let cfg = if j == 0 && cls == "corpus" { &LAYOUT_CFGS[0] } else { cfg_pool[rng.below(cfg_pool.len())] };
                    let emit = case_budget > 0 && sql.len() < 1500;
                    if emit {
                        case_budget -= 1;
                    }
                    items.push(Item { cls, dialect: f.dialect.clone(), cfg, sql: sql.clone(), rules: "layout".to_string(), each_alone: if cls == "corpus" { 1 } else { 0 }, emit_cases: emit, synth: 0 });
                }
            }
        }

        // ---- gap variations: the same tokens with one or two gaps given another shape, so that the
        // sites a rule visits in one evaluation (CTE after CTE, target after target, ...) differ in
        // what surrounds them — space here, line break there, nothing at a third place
        let mut seen: HashSet<(String, &'static str, String)> = HashSet::new();
        let mut gap_case_budget = if args.thorough() { [200usize; 5] } else { [25usize; 5] };
        let mut n_gap = [0usize; 5];
        let mut push = |items: &mut Vec<Item>, rng: &mut Rng, cls: &'static str, k: usize, d: &str, cfg: &'static LayoutCfg, sql: String, other_cfg_1_in: usize| {
            let mut cfgs = vec![cfg];
            if other_cfg_1_in > 0 && rng.chance(1, other_cfg_1_in) {
                cfgs.push(&LAYOUT_CFGS[rng.below(LAYOUT_CFGS.len())]);
            }
            for cfg in cfgs {
                if sql.trim().is_empty() || !seen.insert((d.to_string(), cfg.name, sql.clone())) {
                    continue;
                }
                let emit = gap_case_budget[k] > 0 && n_gap[k] % 23 == 0;
                if emit {
                    gap_case_budget[k] -= 1;
                }
                n_gap[k] += 1;
                items.push(Item { cls, dialect: d.to_string(), cfg, sql: sql.clone(), rules: "layout".to_string(), each_alone: if args.thorough() { 2 } else { 1 }, emit_cases: emit, synth: 0 });
            }
        };
        let mut probes: Vec<(&str, &'static LayoutCfg, &str, bool)> = vec![];
        probes.extend(FUSION_PROBES.iter().map(|(d, s)| (*d, &LAYOUT_CFGS[0], *s, false)));
        probes.extend(CFG_PROBES.iter().map(|(d, c, s)| (*d, layout_cfg_by_name(c), *s, false)));
        probes.extend(SIBLING_PROBES.iter().map(|(d, s)| (*d, &LAYOUT_CFGS[0], *s, true)));
        for (d, cfg, sql, sibling) in probes {
            if !DIALECTS.contains(&d) {
                continue;
            }
            let gl = gen_linters.entry(d.to_string()).or_insert_with(|| mk_linter(d, "layout", &LAYOUT_CFGS[0]));
            let Ok(toks) = lex_tokens(gl, sql) else { continue };
            let g = gapped(&toks);
            if sibling {
                push(&mut items, &mut rng, "probe", 0, d, cfg, sql.to_string(), 1);
            }
            // (a) every single-gap deviation of every probe
            for v in g.vary1(&g.all_gaps()) {
                push(&mut items, &mut rng, "gap1", 0, d, cfg, v, 3);
            }
            // ... and the separator gaps of the sibling probes again under the configurations that move
            // commas, operators and trailing comments (the rules' hand-written branches on them)
            if sibling {
                for name in ["comma-leading", "operator-trailing", "maxlen20-after"] {
                    let c = layout_cfg_by_name(name);
                    push(&mut items, &mut rng, "probe", 0, d, c, sql.to_string(), 0);
                    for v in g.vary1(&g.separator_gaps()) {
                        push(&mut items, &mut rng, "gap1", 0, d, c, v, 0);
                    }
                }
            }
            // (b) every two-gap deviation over the separator gaps of the sibling probes
            if sibling {
                for v in g.vary2(&g.separator_gaps()) {
                    if args.thorough() || rng.chance(1, 4) {
                        push(&mut items, &mut rng, "gap2", 1, d, cfg, v, if args.thorough() { 3 } else { 0 });
                    }
                }
            }
        }
        // (d) comments that touch the code x every layout option at every non-default value: each gap next to a
        // token the option acts on (operators for their line position, commas, keywords of the indentation
        // switches; every gap for the options about comments and line breaks) gets each touching comment
        // shape, under that option alone; likewise under the hand-written and combined configurations
        // that move commas / operators / trailing comments.
        // (e) block comments of several lines x a line length limit that makes the line on which the comment
        // starts too long (the largest of a ladder of limits below that line's length), plain and with
        // the options about trailing comments / comment lines.
        const LIMITS: &[usize] = &[10, 15, 20, 25, 30, 40, 50, 60, 70, 80, 100, 120];
        let op_hints: &[&str] = &["+", "-", "*", "/", "||", "AND", "OR", "=", "<", ">"];
        let mut touch_cfgs: Vec<(&'static LayoutCfg, &[&str])> = knob_cfgs(None);
        touch_cfgs.push((layout_cfg_by_name("operator-trailing"), op_hints));
        touch_cfgs.push((layout_cfg_by_name("comma-leading"), &[","]));
        touch_cfgs.push((layout_cfg_by_name("comma-leading-maxlen30-tab"), &[","]));
        for c in knob_combos(None) {
            touch_cfgs.push((c, &["+", "-", "*", "/", "||", "AND", "OR", "=", "<", ">", ","]));
        }
        let moving = |c: &LayoutCfg| c.body.contains("line_position") || c.body.contains("trailing_comments");
        let mut probes2: Vec<(&str, &str)> = vec![];
        probes2.extend(FUSION_PROBES.iter().cloned());
        probes2.extend(SIBLING_PROBES.iter().cloned());
        probes2.extend(CFG_PROBES.iter().filter(|p| p.2.len() < 200).map(|(d, _, s)| (*d, *s)));
        probes2.extend(COMMENT_PROBES.iter().cloned());
        for (d, sql) in probes2 {
            if !DIALECTS.contains(&d) {
                continue;
            }
            let gl = gen_linters.entry(d.to_string()).or_insert_with(|| mk_linter(d, "layout", &LAYOUT_CFGS[0]));
            let Ok(toks) = lex_tokens(gl, sql) else { continue };
            let g = gapped(&toks);
            for (cfg, hints) in &touch_cfgs {
                // thorough: every hinted gap x every shape; quick: one in ten under the options that move tokens
                // past comments (line positions, trailing comments), one in forty under the others
                let keep_1_in = if args.thorough() { 1 } else if moving(cfg) { 10 } else { 40 };
                for v in g.vary_comment(&g.hint_gaps(hints), TOUCH_SHAPES) {
                    if keep_1_in == 1 || rng.chance(1, keep_1_in) {
                        push(&mut items, &mut rng, "comment-touch", 3, d, cfg, v, 0);
                    }
                }
            }
            for v in g.vary_comment(&g.all_gaps(), ML_SHAPES) {
                let Some(len) = comment_line_len(&v) else { continue };
                if len > 80 {
                    push(&mut items, &mut rng, "comment-multiline", 4, d, &LAYOUT_CFGS[0], v.clone(), 0);
                }
                let Some(&limit) = LIMITS.iter().rev().find(|l| **l < len) else { continue };
                if !args.thorough() && !rng.chance(1, 3) {
                    continue;
                }
                push(&mut items, &mut rng, "comment-multiline", 4, d, gen_cfg(&format!("max_line_length = {}\n", limit)), v.clone(), 0);
                if rng.chance(1, 3) {
                    let ks = knob_cfgs(Some(limit));
                    let about_comments: Vec<_> = ks.iter().filter(|k| k.1.contains(&"--")).collect();
                    let c = if rng.chance(1, 2) { about_comments[rng.below(about_comments.len())].0 } else { ks[rng.below(ks.len())].0 };
                    push(&mut items, &mut rng, "comment-multiline", 4, d, c, v, 0);
                }
            }
        }
        // (c) the layout rules' own fixture snippets (they reach each rule's fix paths), as they are and
        // with single-gap deviations: 40 out of all gaps (thorough) / 4 at separator gaps (quick)
        let gl = gen_linters.entry("ansi".to_string()).or_insert_with(|| mk_linter("ansi", "layout", &LAYOUT_CFGS[0]));
        for (file, sql) in rule_snippets() {
            if !file.starts_with("LT") || sql.len() > 700 {
                continue;
            }
            let sql = if sql.ends_with('\n') { sql } else { format!("{}\n", sql) };
            let Ok(toks) = lex_tokens(gl, &sql) else { continue };
            let g = gapped(&toks);
            push(&mut items, &mut rng, "rule-snippet", 2, "ansi", &LAYOUT_CFGS[0], sql.clone(), 2);
            let mut vs = if args.thorough() { g.vary1(&g.all_gaps()) } else { g.vary1(&g.separator_gaps()) };
            rng.shuffle(&mut vs);
            vs.truncate(if args.thorough() { 40 } else { 4 });
            for v in vs {
                push(&mut items, &mut rng, "gap1-snippet", 2, "ansi", &LAYOUT_CFGS[0], v, 4);
            }
        }
    }
    let mut by_cls: std::collections::BTreeMap<&str, usize> = Default::default();
    for it in &items {
        *by_cls.entry(it.cls).or_default() += 1;
    }
    if chunk.is_none() {
        // the cheap re-selection of rules must give the rule pack a linter configured from source text has
        let codes = |l: &Linter| l.rules().iter().map(|r| r.code()).collect::<Vec<_>>();
        let mut b = Buf::default();
        for (d, sel) in [("ansi", "LT08"), ("bigquery", "LT01,LT09"), ("ansi", "layout")] {
            let base = mk_linter(d, "layout", &LAYOUT_CFGS[3]);
            let want = codes(&mk_linter(d, sel, &LAYOUT_CFGS[3]));
            let got = codes(&with_rules(&base, sel));
            let expect_n = if sel == "layout" { LAYOUT_RULES.len() } else { sel.split(',').count() };
            b.hyp("selection_equals_configured", "blocking", want == got && got.len() == expect_n && (sel != "layout" || got == LAYOUT_RULES), json!({"dialect": d, "rules": sel, "configured": want, "reselected": got}));
        }
        out.absorb(b);
    }
    out.stat(json!({"items": items.len(), "items_by_class": by_cls, "layout_cfgs": LAYOUT_CFGS.iter().map(|c| c.name.to_string()).chain(knob_cfgs(None).iter().map(|c| c.0.name.to_string())).chain(knob_combos(None).iter().map(|c| c.name.to_string())).collect::<Vec<_>>()}));
    if let Some((k, n)) = chunk {
        // child process: run every n-th item and hand the raw result lines to the parent
        use std::io::Write as _;
        let idx: Vec<usize> = (0..items.len()).filter(|i| i % n == k).collect();
        let bufs = run_items(&items, &idx);
        let mut w = std::io::BufWriter::new(std::fs::File::create(&args.out).expect("create chunk out"));
        for (i, b) in idx.iter().zip(bufs) {
            for l in b.lines {
                writeln!(w, "{}", json!({"i": i, "l": l})).unwrap();
            }
        }
        w.flush().unwrap();
        return;
    }
    // Linting leaks memory in the library (about 80 KB per call on a two-line input, 150 KB with fix;
    // measured 2026-10-01: resident size grows linearly over repeated `lint_string` calls, parse alone
    // does not): the items are run by a sequence of child processes so that the peak stays bounded.
    let n_chunks: usize = if replaying {
        1
    } else {
        std::env::var("SQV_C06_CHUNKS").ok().and_then(|s| s.parse().ok()).unwrap_or(if args.thorough() { 24 } else { 4 }).max(1)
    };
    if n_chunks == 1 {
        par_run(&mut out, &items, St::default, run_one);
    } else {
        let exe = std::env::current_exe().expect("current_exe");
        let mut all: Vec<Vec<Value>> = (0..items.len()).map(|_| vec![]).collect();
        for k in 0..n_chunks {
            let tmp = format!("{}.chunk{}", args.out.display(), k);
            let status = std::process::Command::new(&exe)
                .args(["c06", "--tier", &args.tier, "--seed", &args.seed.to_string(), "--out", &tmp, "--chunk", &format!("{}/{}", k, n_chunks)])
                .status();
            if !status.map(|s| s.success()).unwrap_or(false) {
                eprintln!("c06: chunk {}/{} failed", k, n_chunks);
                std::process::exit(1);
            }
            let text = std::fs::read_to_string(&tmp).expect("read chunk out");
            for line in text.lines() {
                let mut v: Value = serde_json::from_str(line).expect("chunk line");
                let i = v["i"].as_u64().expect("chunk index") as usize;
                all[i].push(v["l"].take());
            }
            let _ = std::fs::remove_file(&tmp);
        }
        for lines in all {
            out.absorb(Buf { lines });
        }
    }
    out.finish();
}

/// `par_run` without an `Out`: the buffers of the items `idx`, in that order.
fn run_items(items: &[Item], idx: &[usize]) -> Vec<Buf> {
    let threads = std::env::var("SQV_THREADS").ok().and_then(|s| s.parse().ok()).unwrap_or(16usize).max(1);
    let n = idx.len();
    let next = std::sync::atomic::AtomicUsize::new(0);
    let results: std::sync::Mutex<Vec<Option<Buf>>> = std::sync::Mutex::new((0..n).map(|_| None).collect());
    std::thread::scope(|sc| {
        for _ in 0..threads.min(n.max(1)) {
            sc.spawn(|| {
                let mut st = St::default();
                loop {
                    let j = next.fetch_add(1, std::sync::atomic::Ordering::SeqCst);
                    if j >= n {
                        break;
                    }
                    let mut buf = Buf::default();
                    run_one(&mut st, &items[idx[j]], &mut buf);
                    results.lock().unwrap()[j] = Some(buf);
                }
            });
        }
    });
    results.into_inner().unwrap().into_iter().map(|b| b.unwrap_or_default()).collect()
}
