//! Pem — translator of the dialect grammar graphs into Gallina terms for the parser-engine
//! interpreter (coq/theories/Pem/Model.v), and the correspondence cases: the real root
//! `MatchResult` of `FileSegment::root_parse` vs the interpreter's result on the same tokens.
//!
//!   sqv pem --dump-grammar <dialect> --out FILE      writes the .v text of PemGrammar_<dialect>
//!   sqv pem [--tier ..] [--dialects a,b] --out FILE  correspondence cases (group = pem_<dialect>)
use std::collections::{BTreeSet, HashMap};
use std::fmt::Write as _;

use serde_json::json;
use sqruff_lib::core::config::FluffConfig;
use sqruff_lib_core::dialects::base::Dialect;
use sqruff_lib_core::dialects::syntax::SyntaxKind;
use sqruff_lib_core::parser::context::ParseContext;
use sqruff_lib_core::parser::lexer::StringOrTemplate;
use sqruff_lib_core::parser::match_result::{MatchResult, Matched};
use sqruff_lib_core::parser::matchable::{Matchable, MatchableTrait, MatchableTraitImpl};
use sqruff_lib_core::parser::parser::Parser;
use sqruff_lib_core::parser::segments::base::{ErasedSegment, Tables};
use sqruff_lib_core::parser::segments::file::verif_hook;
use sqruff_lib_core::parser::types::ParseMode;

use crate::common::*;

/// interned string: 62-bit FNV-1a (equality of ids stands for equality of strings)
pub fn sid(s: &str) -> u64 {
    let mut h: u64 = 0xcbf29ce484222325;
    for b in s.as_bytes() {
        h ^= *b as u64;
        h = h.wrapping_mul(0x100000001b3);
    }
    h >> 2
}
fn k(kind: SyntaxKind) -> u64 {
    kind as u16 as u64
}
fn g_ids(v: &[u64]) -> String {
    g_list(v.iter().map(|x| x.to_string()))
}
fn g_oid(o: Option<u64>) -> String {
    g_opt(o.map(|x| x.to_string()))
}
fn g_mode(m: ParseMode) -> &'static str {
    match m {
        ParseMode::Strict => "Strict",
        ParseMode::Greedy => "Greedy",
        ParseMode::GreedyOnceStarted => "GreedyOnceStarted",
    }
}

pub struct Graph {
    pub ids: HashMap<usize, u64>,
    pub nodes: Vec<Matchable>,
    pub noncode: Matchable,
}

impl Graph {
    fn id(&mut self, m: &Matchable, work: &mut Vec<Matchable>) -> u64 {
        let p = m.verif_ptr();
        if let Some(i) = self.ids.get(&p) {
            return *i;
        }
        let i = self.nodes.len() as u64;
        self.ids.insert(p, i);
        self.nodes.push(m.clone());
        work.push(m.clone());
        i
    }
}

fn lookup(d: &Dialect, name: &str) -> Option<Matchable> {
    d.verif_library().find(|(n, _)| *n == name).and_then(|(_, m)| m.cloned())
}

pub struct Dump {
    /// nodes whose real `simple()` (first-token hint) never returned: (node id, what it is, watchdog verdict)
    pub hint_hangs: Vec<(u64, String, String)>,
    pub text: String,
    pub n_nodes: usize,
    pub n_eq_pairs: usize,
    pub eq_panics: usize,
    pub regex_nodes: Vec<(u64, Matchable)>,
    pub dangling: Vec<String>,
    pub brackets_closed: bool,
}

/// Walk the grammar reachable from FileSegment and print it as a Gallina `grammar`.
pub fn dump_grammar(dialect_name: &str, cfg: &FluffConfig) -> Dump {
    let d: &Dialect = cfg.get_dialect();
    let parser: Parser = cfg.into();
    let ctx = ParseContext::new(d, parser.indentation_config());
    let noncode = {
        use sqruff_lib_core::helpers::ToMatchable;
        sqruff_lib_core::parser::grammar::noncode::NonCodeMatcher.to_matchable()
    };
    let mut g = Graph { ids: HashMap::new(), nodes: vec![], noncode: noncode.clone() };
    let mut work: Vec<Matchable> = vec![];
    let noncode_id = g.id(&noncode, &mut work);
    let root = lookup(d, "FileSegment").and_then(|fs| fs.match_grammar());
    let root_id = root.as_ref().map(|r| g.id(r, &mut work));
    let brackets: Vec<(&'static str, Option<u64>, Option<u64>, bool)> = d
        .bracket_sets("bracket_pairs")
        .into_iter()
        .map(|(ty, s, e, p)| {
            let s = lookup(d, s).map(|m| g.id(&m, &mut work));
            let e = lookup(d, e).map(|m| g.id(&m, &mut work));
            (ty, s, e, p)
        })
        .collect();
    let mut lines: Vec<(u64, String)> = vec![];
    let mut termlike: BTreeSet<u64> = BTreeSet::new();
    termlike.insert(noncode_id);
    for (_, s, e, _) in &brackets {
        termlike.extend(s.iter());
        termlike.extend(e.iter());
    }
    let mut regex_nodes = vec![];
    // (node id, constructor text, is_optional, cache key, handle): `simple()` is asked afterwards, under a watchdog
    let mut walked: Vec<(u64, String, Option<bool>, Option<u64>, Matchable)> = vec![];
    while let Some(m) = work.pop() {
        let me = g.ids[&m.verif_ptr()];
        let mut ids = |g: &mut Graph, ms: &[Matchable], work: &mut Vec<Matchable>| -> Vec<u64> { ms.iter().map(|x| g.id(x, work)).collect() };
        let node = match m.verif_inner() {
            MatchableTraitImpl::Ref(r) => {
                let target = lookup(d, r.verif_reference()).map(|t| g.id(&t, &mut work));
                let ex = r.verif_exclude().map(|e| g.id(e, &mut work));
                let ts = ids(&mut g, r.verif_terminators(), &mut work);
                termlike.extend(ts.iter());
                format!("GRef {} {} {} {}", g_oid(target), g_oid(ex), g_ids(&ts), g_bool(r.verif_reset_terminators()))
            }
            MatchableTraitImpl::Sequence(s) => {
                let es = ids(&mut g, s.verif_elements(), &mut work);
                let ts = ids(&mut g, &s.terminators, &mut work);
                termlike.extend(ts.iter());
                format!("GSeq (mkSeq {} {} {} {})", g_ids(&es), g_mode(s.parse_mode), g_bool(s.allow_gaps), g_ids(&ts))
            }
            MatchableTraitImpl::Bracketed(b) => {
                let es = ids(&mut g, b.this.verif_elements(), &mut work);
                let ts = ids(&mut g, &b.this.terminators, &mut work);
                termlike.extend(ts.iter());
                let set = d.bracket_sets(b.bracket_pairs_set);
                let hit = set.into_iter().find(|(ty, _, _, _)| *ty == b.bracket_type);
                let (found, bs, be, pers) = match hit {
                    Some((_, s, e, p)) => (true, lookup(d, s).map(|m| g.id(&m, &mut work)), lookup(d, e).map(|m| g.id(&m, &mut work)), p),
                    None => (false, None, None, false),
                };
                termlike.extend(bs.iter());
                termlike.extend(be.iter());
                format!(
                    "GBracketed {} {} {} {} {} (mkSeq {} {} {} {})",
                    g_bool(found),
                    g_oid(bs),
                    g_oid(be),
                    g_bool(pers),
                    g_bool(b.verif_allow_gaps()),
                    g_ids(&es),
                    g_mode(b.this.parse_mode),
                    g_bool(b.this.allow_gaps),
                    g_ids(&ts)
                )
            }
            MatchableTraitImpl::AnyNumberOf(a) => {
                let s = any_d(&mut g, a, &mut work, &mut termlike);
                format!("GAny {}", s)
            }
            MatchableTraitImpl::Delimited(dl) => {
                let s = any_d(&mut g, &dl.base, &mut work, &mut termlike);
                let de = g.id(dl.verif_delimiter(), &mut work);
                termlike.insert(de);
                format!("GDelim {} {} {} {}", s, de, g_bool(dl.allow_trailing), dl.min_delimiters)
            }
            MatchableTraitImpl::NodeMatcher(n) => {
                let gr = g.id(n.verif_match_grammar(), &mut work);
                format!("GNodeM {} {}", k(n.get_type()), gr)
            }
            MatchableTraitImpl::StringParser(p) => format!("GString {} {}", sid(&p.verif_template().to_ascii_uppercase()), k(p.verif_kind())),
            MatchableTraitImpl::MultiStringParser(p) => {
                let mut v: Vec<u64> = p.verif_templates().iter().map(|t| sid(t)).collect();
                v.sort();
                format!("GMulti {} {}", g_ids(&v), k(p.verif_kind()))
            }
            MatchableTraitImpl::TypedParser(p) => format!("GTyped {} {}", k(p.verif_template()), k(p.verif_kind())),
            MatchableTraitImpl::RegexParser(p) => {
                regex_nodes.push((me, m.clone()));
                format!("GRegex {} {}", me, k(p.verif_kind()))
            }
            MatchableTraitImpl::MetaSegment(ms) => format!("GMeta {}", k(ms.verif_kind())),
            MatchableTraitImpl::Conditional(c) => {
                let mut cx = ParseContext::new(d, parser.indentation_config());
                let en = catch(|| m.match_segments(&[], 0, &mut cx).map(|r| r.has_match()).unwrap_or(false)).unwrap_or(false);
                format!("GCond {} {}", k(c.verif_meta_kind()), g_bool(en))
            }
            MatchableTraitImpl::Anything(a) => {
                let ts = ids(&mut g, a.verif_terminators(), &mut work);
                termlike.extend(ts.iter());
                format!("GAnything {}", g_ids(&ts))
            }
            MatchableTraitImpl::Nothing(_) => "GNothing".to_string(),
            MatchableTraitImpl::NonCodeMatcher(_) => "GNonCode".to_string(),
            MatchableTraitImpl::BracketedSegmentMatcher(_) => "GBracketSeg".to_string(),
        };
        let opt = catch(|| m.is_optional()).ok();
        let ckey = catch(|| m.cache_key()).ok().map(|x| x as u64);
        walked.push((me, node, opt, ckey, m.clone()));
    }
    // The real `simple()` of every node, on a helper thread under the watchdog of c14.rs: a left-corner
    // self reference makes `Ref::simple` re-enter its own `OnceLock` and block for ever.  A node whose
    // hint never returns is reported (the dump then counts as failed) and dumped as "not simple".
    let _ = &ctx;
    let mut hint_hangs: Vec<(u64, String, String)> = vec![];
    let simples: Vec<Option<Option<(ahash::AHashSet<String>, sqruff_lib_core::dialects::syntax::SyntaxSet)>>> = {
        let d2 = std::sync::Arc::new(d.clone());
        let ic = std::sync::Arc::new(parser.indentation_config().clone());
        let hs: std::sync::Arc<Vec<Matchable>> = std::sync::Arc::new(walked.iter().map(|w| w.4.clone()).collect());
        let f: std::sync::Arc<dyn Fn(usize) -> Option<(ahash::AHashSet<String>, sqruff_lib_core::dialects::syntax::SyntaxSet)> + Send + Sync> = std::sync::Arc::new(move |i| {
            let cx = ParseContext::new(&d2, &ic);
            catch(|| hs[i].simple(&cx, None)).ok().flatten()
        });
        let (res, hangs) = crate::c14::watched_batch(walked.len(), crate::c14::simple_limit(), 3, f);
        for (i, h) in hangs {
            let what = match walked[i].4.verif_inner() {
                MatchableTraitImpl::Ref(r) => format!("Ref({})", r.verif_reference()),
                _ => walked[i].1.split_whitespace().next().unwrap_or("?").to_string(),
            };
            hint_hangs.push((walked[i].0, what, h.text()));
        }
        res
    };
    for ((me, node, opt, ckey, _m), simple) in walked.into_iter().zip(simples) {
        let simple = simple.flatten();
        let simple_g = match simple {
            None => "None".to_string(),
            Some((raws, types)) => {
                let mut rs: Vec<u64> = raws.iter().map(|r| sid(r)).collect();
                rs.sort();
                let ts: Vec<u64> = types.iter().map(k).collect();
                let alpha = raws.iter().all(|s| s.chars().all(|c| c.is_alphabetic()));
                format!("(Some ({},{},{}))", g_ids(&rs), g_ids(&ts), g_bool(alpha))
            }
        };
        lines.push((me, format!("({}, mkInfo ({}) {} {} {})", me, node, g_opt(opt.map(g_bool)), simple_g, g_oid(ckey))));
    }
    lines.sort();
    // == among terminator-like nodes
    let tl: Vec<u64> = termlike.into_iter().collect();
    let mut eq_pairs = vec![];
    let mut eq_panics = 0;
    for (i, a) in tl.iter().enumerate() {
        for b in &tl[i + 1..] {
            let (ma, mb) = (&g.nodes[*a as usize], &g.nodes[*b as usize]);
            match catch(|| ma == mb) {
                Ok(true) => eq_pairs.push((*a, *b)),
                Ok(false) => {}
                Err(_) => eq_panics += 1,
            }
        }
    }
    let mut text = String::new();
    let _ = writeln!(text, "(* generated by `sqv pem --dump-grammar {}` from the working tree; do not edit *)", dialect_name);
    let _ = writeln!(text, "From Sq Require Export Pem.Model Corr.Pem.\nOpen Scope N_scope.");
    let _ = writeln!(text, "Definition nodes_l : list (N * ninfo) := [");
    let _ = writeln!(text, "{}", lines.iter().map(|(_, l)| l.as_str()).collect::<Vec<_>>().join(";\n"));
    let _ = writeln!(text, "].");
    let _ = writeln!(text, "Definition nodes_m := Eval vm_compute in nodes_of_list nodes_l.");
    let _ = writeln!(
        text,
        "Definition g : grammar := mkGrammar nodes_m {} {} {} {} {} {} {} {} {} {} {}.",
        g_list(eq_pairs.iter().map(|(a, b)| format!("({},{})", a, b))),
        g_list(brackets.iter().map(|(_, s, e, p)| format!("({},{},{})", g_oid(*s), g_oid(*e), g_bool(*p)))),
        g_oid(root_id),
        k(SyntaxKind::Whitespace),
        k(SyntaxKind::Newline),
        k(SyntaxKind::Bracketed),
        k(SyntaxKind::Unparsable),
        k(SyntaxKind::Indent),
        k(SyntaxKind::Dedent),
        k(SyntaxKind::Implicit),
        noncode_id
    );
    // closure obligations (C14, third sentence) on the dumped graph
    let mut dangling: Vec<(u64, String)> = vec![];
    for m in &g.nodes {
        let me = g.ids[&m.verif_ptr()];
        match m.verif_inner() {
            MatchableTraitImpl::Ref(r) if lookup(d, r.verif_reference()).is_none() => dangling.push((me, r.verif_reference().to_string())),
            MatchableTraitImpl::Bracketed(b) => {
                if let Some((_, sref, eref, _)) = d.bracket_sets(b.bracket_pairs_set).into_iter().find(|(ty, _, _, _)| *ty == b.bracket_type) {
                    if lookup(d, sref).is_none() || lookup(d, eref).is_none() {
                        dangling.push((me, format!("bracket {}:{}", sref, eref)));
                    }
                }
            }
            _ => {}
        }
    }
    dangling.sort();
    let brackets_closed = root_id.is_some() && brackets.iter().all(|(_, s, e, _)| s.is_some() && e.is_some());
    let _ = writeln!(text, "From Sq Require Import Pem.Proofs.\nFrom Coq Require Import FMapPositive.");
    if dangling.is_empty() && brackets_closed {
        let _ = writeln!(text, "Theorem pem_closed : pem_closed_b g = true.\nProof. vm_compute. reflexivity. Qed.");
        let _ = writeln!(text, "Theorem pem_never_dangling : forall toks rx fuel s e p, parse_root g toks rx fuel s e = RPanic p -> is_dang p = false.\nProof. exact (pem_closed_never_dangling g pem_closed). Qed.");
    } else {
        let _ = writeln!(text, "(* dangling references: {} *)", dangling.iter().map(|(i, n)| format!("{}={}", i, n)).collect::<Vec<_>>().join(", "));
        let _ = writeln!(text, "Definition pem_dangling_ids : list N := {}.", g_ids(&dangling.iter().map(|(i, _)| *i).collect::<Vec<_>>()));
        let _ = writeln!(text, "Theorem pem_dangling_exact : forallb (fun p => Bool.eqb (node_dangling (snd p)) (memN (Pos.pred_N (fst p)) pem_dangling_ids)) (PositiveMap.elements (g_nodes g)) = true.\nProof. vm_compute. reflexivity. Qed.");
        let _ = writeln!(text, "Theorem pem_dangling_only_listed : forall toks rx fuel s e r, parse_root g toks rx fuel s e = RPanic (PDangling r) -> dangling_b g r = true.\nProof. exact (pem_dangling_sound g). Qed.");
    }
    let dangling_names: Vec<String> = dangling.iter().map(|(_, n)| n.clone()).collect();
    let dn = dialect_name;
    let _ = writeln!(text, "Definition case_t_pem_{dn} : Type := case_t.\nDefinition check_pem_{dn} := check_with g.\nDefinition model_pem_{dn} := run g.");
    Dump { hint_hangs, text, n_nodes: lines.len(), n_eq_pairs: eq_pairs.len(), eq_panics, regex_nodes, dangling: dangling_names, brackets_closed }
}

fn any_d(g: &mut Graph, a: &sqruff_lib_core::parser::grammar::anyof::AnyNumberOf, work: &mut Vec<Matchable>, termlike: &mut BTreeSet<u64>) -> String {
    let es: Vec<u64> = a.verif_elements().iter().map(|x| g.id(x, work)).collect();
    let ex = a.exclude.as_ref().map(|e| g.id(e, work));
    let ts: Vec<u64> = a.terminators.iter().map(|x| g.id(x, work)).collect();
    termlike.extend(ts.iter());
    format!(
        "(mkAny {} {} {} {} {} {} {} {} {})",
        g_ids(&es),
        g_oid(ex),
        g_ids(&ts),
        g_bool(a.reset_terminators),
        g_oid(a.max_times.map(|x| x as u64)),
        a.min_times,
        g_oid(a.max_times_per_element.map(|x| x as u64)),
        g_bool(a.allow_gaps),
        g_mode(a.parse_mode)
    )
}

// ------------------------------------------------------------------ cases
fn mr_g(m: &MatchResult) -> String {
    let matched = match &m.matched {
        None => "None".to_string(),
        Some(Matched::SyntaxKind(kd)) => format!("(Some (MKind {}))", k(*kd)),
        Some(Matched::Newtype(kd)) => format!("(Some (MNewtype {}))", k(*kd)),
    };
    format!(
        "(MR {} {} {} {} {})",
        m.span.start,
        m.span.end,
        matched,
        g_list(m.insert_segments.iter().map(|(i, kd)| format!("({},{})", i, k(*kd)))),
        g_list(m.child_matches.iter().map(mr_g))
    )
}

fn tok_g(t: &ErasedSegment) -> String {
    let raw = t.raw();
    let upper_ascii = raw.to_ascii_uppercase();
    let ftr = sqruff_lib_core::parser::match_algorithms::first_trimmed_raw(t);
    let fnw = if raw.is_empty() { None } else { Some(sid(&raw.to_uppercase())) };
    format!(
        "(mkPtok {} {} {} {} {} {} {})",
        g_bool(t.is_code()),
        g_bool(t.is_meta()),
        k(t.get_type()),
        g_ids(&t.class_types().iter().map(k).collect::<Vec<_>>()),
        sid(&upper_ascii),
        sid(&ftr),
        g_oid(fnw)
    )
}

pub struct Ctx {
    cfgs: HashMap<String, (FluffConfig, Vec<(u64, Matchable)>)>,
}
impl Ctx {
    pub fn new() -> Ctx {
        Ctx { cfgs: HashMap::new() }
    }
    fn get(&mut self, dialect: &str) -> &(FluffConfig, Vec<(u64, Matchable)>) {
        if !self.cfgs.contains_key(dialect) {
            let cfg = FluffConfig::from_source(&format!("[sqruff]\ndialect = {}\n", dialect), None);
            let dump = dump_grammar(dialect, &cfg);
            if !dump.hint_hangs.is_empty() {
                // parsing with this dialect would block in the same OnceLock: stop instead of hanging
                eprintln!("first-token hint of {} node(s) of dialect {} never returns (e.g. {} {})", dump.hint_hangs.len(), dialect, dump.hint_hangs[0].1, dump.hint_hangs[0].2);
                std::process::exit(3);
            }
            self.cfgs.insert(dialect.to_string(), (cfg, dump.regex_nodes));
        }
        &self.cfgs[dialect]
    }
}

pub struct Item {
    pub dialect: String,
    pub cls: &'static str,
    pub sql: String,
}

pub fn run_one(cx: &mut Ctx, it: &Item, out: &mut Buf) {
    let (cfg, regex_nodes) = cx.get(&it.dialect);
    let input = json!({"dialect": it.dialect, "sql": it.sql});
    let tables = Tables::default();
    let lexed = catch(|| cfg.get_dialect().lexer().lex(&tables, StringOrTemplate::String(&it.sql)));
    let tokens = match lexed {
        Ok(Ok((t, _))) => t,
        _ => {
            out.count("lexer_failed", 1);
            return;
        }
    };
    if tokens.is_empty() {
        return;
    }
    let parser: Parser = cfg.into();
    let _ = verif_hook::take();
    let result = catch(|| parser.parse(&tables, &tokens, None));
    let root = verif_hook::take();
    // expected outcome of the root grammar match
    let (start, end, exp) = match (&result, root) {
        (_, Some(r)) => (r.start_idx, r.end_idx, format!("(ROk {})", mr_g(&r.match_result))),
        (Ok(Err(_)), None) | (Err(_), None) => {
            // the root match itself failed (Err or panic) or was never reached
            let s = tokens.iter().position(|s| s.is_code()).unwrap_or(0) as u32;
            let e = tokens.iter().rposition(|s| s.is_code()).map_or(s, |i| i as u32 + 1);
            if s == e {
                out.count("no_code", 1);
                return;
            }
            let exp = match &result {
                Err(msg) if msg.contains("Grammar refers to") => "(RPanic (PDangling 0))".to_string(),
                Err(_) => "(RPanic PUnwrap)".to_string(),
                _ => "RErr".to_string(),
            };
            (s, e, exp)
        }
        (Ok(Ok(_)), None) => {
            out.count("no_root_match_recorded", 1);
            return;
        }
    };
    // regex oracle table
    let mut cx2 = ParseContext::new(cfg.get_dialect(), parser.indentation_config());
    let mut rx = vec![];
    for (rid, m) in regex_nodes {
        for i in 0..tokens.len() {
            if let Ok(Ok(r)) = catch(|| m.match_segments(&tokens, i as u32, &mut cx2)) {
                if r.has_match() {
                    rx.push(format!("({},{})", rid, i));
                }
            }
        }
    }
    out.count("cases", 1);
    if exp.starts_with("(ROk") {
        out.count("root_match_ok", 1);
    } else {
        out.count("root_match_err_or_panic", 1);
    }
    let args = g_tuple(&[g_list(tokens.iter().map(tok_g)), g_list(rx), start.to_string(), end.to_string()]);
    let nontrivial = tokens.len() >= 6;
    out.case(&format!("pem_{}", it.dialect), it.cls, nontrivial, args, exp, json!({"input": input, "tokens": tokens.len()}));
}

pub fn main(args: &Args) {
    silence_panics();
    if let Some(d) = args.flag("--dump-grammar") {
        let cfg = FluffConfig::from_source(&format!("[sqruff]\ndialect = {}\n", d), None);
        let mut dump = dump_grammar(&d, &cfg);
        if !dump.hint_hangs.is_empty() {
            // a verdict of the watchdog is a measurement: believe it only when a second dump, of a
            // dialect built afresh, blocks as well
            let cfg2 = FluffConfig::from_source(&format!("[sqruff]\ndialect = {}\n", d), None);
            dump = dump_grammar(&d, &cfg2);
        }
        std::fs::write(&args.out, &dump.text).unwrap();
        eprintln!("{}", json!({"dialect": d, "nodes": dump.n_nodes, "eq_pairs": dump.n_eq_pairs, "eq_panics": dump.eq_panics, "regex_nodes": dump.regex_nodes.len(), "dangling": dump.dangling, "brackets_closed": dump.brackets_closed,
            "hint_hangs": dump.hint_hangs.iter().map(|(i, w, h)| json!({"node": i, "is": w, "simple": h})).collect::<Vec<_>>()}));
        if !dump.hint_hangs.is_empty() {
            // helper threads are still blocked inside the grammar: leave without joining anything
            eprintln!("first-token hint of {} node(s) of dialect {} never returns (e.g. {} {})", dump.hint_hangs.len(), d, dump.hint_hangs[0].1, dump.hint_hangs[0].2);
            std::process::exit(3);
        }
        return;
    }
    let mut out = Out::new(&args.out);
    let mut rng = Rng::new(args.seed);
    let dialects: Vec<String> = args.flag("--dialects").map(|s| s.split(',').map(|x| x.to_string()).collect()).unwrap_or_else(|| DIALECTS.iter().map(|s| s.to_string()).collect());
    let max_tokens_chars = args.flag("--max-chars").and_then(|s| s.parse().ok()).unwrap_or(160usize);
    let per_dialect = if args.thorough() { 400 } else { 40 };
    let mut items = vec![];
    if let Some(path) = args.flag("--replay-input") {
        let v: serde_json::Value = serde_json::from_str(&std::fs::read_to_string(path).unwrap()).unwrap();
        items.push(Item { dialect: v["dialect"].as_str().unwrap().to_string(), cls: "replay", sql: v["sql"].as_str().unwrap().to_string() });
    } else {
        let snippets: Vec<String> = rule_snippets().into_iter().map(|(_, s)| s).filter(|s| s.len() <= max_tokens_chars && !s.contains("{{") && !s.contains("{%")).collect();
        let corp = corpus();
        for d in &dialects {
            let fixed = ["SELECT 1\n", "SELECT a, b FROM t WHERE a = 1\n", "select a from t1 join t2 on t1.x = t2.x\n", "SELECT (a + b) * c AS d FROM (SELECT 1) AS s\n", "SELECT a FROM\n", "SELECT 1 +\n", ")\n", "INSERT INTO t (a) VALUES (1), (2)\n", "SELECT CASE WHEN a THEN 1 ELSE 2 END FROM t -- c\n", "CREATE TABLE t (a int)\n", "SELECT a FROM t WHERE (b = 1 AND (c IN (1, 2))\n", "SELECT [1, 2] FROM t\n", "UPDATE t SET a = 1 WHERE b = 2;\nDELETE FROM t;\n",
                // crossed / surplus / unclosed brackets of every kind (resolve_bracket, next_ex_bracket_match)
                "CREATE TABLE t (a INT (1, (2] [3), 4))\n", "SELECT (a[1)] FROM t\n", "SELECT a] FROM t\n", "SELECT a FROM t}\n", "SELECT a[1]] FROM t\n",
                "SELECT f(a, (b + c) FROM t\n", "SELECT a FROM (SELECT b FROM (SELECT c FROM t)) x\n", "SELECT ((a)), [b, [c]] FROM t\n",
                "ROLLBACK TO SAVEPOINT sp1;\n", "CREATE TRIGGER tr BEFORE INSERT ON t FOR EACH ROW EXECUTE PROCEDURE f();\n",
                // the unparsable-producing branches of the greedy modes (Sequence / Bracketed / AnyNumberOf / Delimited):
                // junk first, in the middle and last inside greedy brackets, lists and scripting blocks
                "SELECT a FROM t WHERE x IN (, 1)\n", "SELECT a FROM t WHERE x IN (1, 2 3)\n", "SELECT a FROM t WHERE x IN (1 2, )\n",
                "INSERT INTO t VALUES (,)\n", "INSERT INTO t VALUES (1), (, 2)\n", "SELECT a FROM t JOIN u USING (1)\n", "SELECT a FROM t JOIN u USING (a b)\n",
                "SELECT SUM(a) OVER (, PARTITION BY b) FROM t\n", "SELECT f(a b), a[, 1], ARRAY[, 1] FROM t\n", "SELECT a b c, d FROM t x y z WHERE\n",
                "IF x THEN SELECT 1; foo; END IF;\n", "IF x THEN foo; SELECT 1; END IF;\n", "WHILE x DO SELECT 1; foo bar; SELECT 2; END WHILE;\n",
                "LOOP SELECT 1; foo; END LOOP;\n", "BEGIN SELECT 1; foo; END;\n", "FOR r IN (SELECT 1) DO SELECT 2; foo; END FOR;\n",
                "REPEAT SELECT 1; foo; UNTIL x END REPEAT;\n", "CREATE PROCEDURE p() BEGIN SELECT 1; foo; END;\n",
                // a Strict bracket whose content ends before a required element
                "SELECT * FROM t PIVOT(SUM(a))\n", "DROP CAST (a .b);\n"];
            for f in fixed {
                items.push(Item { dialect: d.clone(), cls: "fixed", sql: f.to_string() });
            }
            let own: Vec<&CorpusFile> = corp.iter().filter(|c| &c.dialect == d && c.text.len() <= max_tokens_chars).collect();
            for _ in 0..per_dialect {
                if !own.is_empty() && rng.chance(1, 2) {
                    items.push(Item { dialect: d.clone(), cls: "corpus", sql: own[rng.below(own.len())].text.clone() });
                } else if !snippets.is_empty() {
                    items.push(Item { dialect: d.clone(), cls: "rule-snippet", sql: snippets[rng.below(snippets.len())].clone() });
                }
            }
        }
    }
    par_run(&mut out, &items, || Ctx { cfgs: HashMap::new() }, run_one);
    out.finish();
}
